"""Matchers for the entries of known_findings.json with status=finding.

Each matcher takes (case, message) and recognises the *class* of a known
defect by call site and input shape, so that a different violation of the same
property is still reported.
"""
import re


def never(case, msg):
    return False


def float_regime_eq_hash(case, msg):
    """F3: a pair of operands in *different* offsets of which at least one is
    written in a fractional precision form (hour-only or hour:minute form, whose
    re-zoning goes through float division): equal-but-unequal-hash, operators
    that disagree with instants closer than 1 microsecond, incoherent operators,
    or RecursionError in a - b."""
    if not case.meta.get("fl"):
        return False
    line = case.lines[0]
    if not line.startswith("pair "):
        return False
    if not ("hashes differ" in msg or "RecursionError" in msg or "INCOHERENT" in msg
            or msg.startswith("float-regime comparison")):
        return False
    out = case.impl[0] if case.impl else ""
    parts = [x.strip() for x in out.split(";")]
    if len(parts) == 7:
        ta, tb = parts[0].split(), parts[1].split()
        if ta[-2:] == tb[-2:]:
            return False      # same offset: not this class
        forms = {t[{"C": 4, "O": 3, "W": 4}[t[0]]] for t in (ta, tb)}
        if not (forms & {"H", "M"}):
            return False      # both hh:mm:ss forms: not this class
    return True


def bounded_nominal_recurrence(case, msg):
    """F4: TimeRecurrence with repetitions >= 2 and an interval with non-zero
    years or months; the failure is a wrong number of points or a missing
    anchor/member (never a wrong step between consecutive points)."""
    n, d = case.meta.get("n"), case.meta.get("d", "")
    if n is None or n < 2:
        return False
    t = d.split()
    if not (t and t[0] == "DU" and (t[1] != "0" or t[2] != "0")):
        return False
    return ("bounded series with a nominal interval" in msg or
            ("yields" in msg and "points" in msg) or "nominal-bounded" in msg)


def _trunc_fields(case):
    t = case.meta.get("t", "").split()
    return t if len(t) == 9 else None


def trunc_day_hourless(case, msg):
    """F10: day designator + minute and/or second, no hour; the result matches
    but is later than the earliest match (never earlier, never a non-match)."""
    t = _trunc_fields(case)
    if not t or "not the earliest matching" not in msg:
        return False
    h, m, s, dow, dom, doy, wk = t[:7]
    has_day = any(x != "-" for x in (dow, dom, doy, wk))
    if not (h == "-" and (m != "-" or s != "-") and has_day):
        return False
    mo = re.search(r"off by (-?[0-9/]+) s", msg)
    return bool(mo) and "/" not in mo.group(1) and 0 < int(mo.group(1)) < 86400


def trunc_hour24(case, msg):
    """F8b: hour field 24 -> the stepping loop never terminates."""
    t = _trunc_fields(case)
    return bool(t) and t[0] == "24" and ("does not terminate" in msg or "HANG" in msg)


def trunc_float_form(case, msg):
    """F11: the full point is written in an hour-only / hour:minute form."""
    t = _trunc_fields(case)
    if not t:
        return False
    p = case.meta.get("p", "").split()
    if not p:
        return False
    form = p[{"C": 4, "O": 3, "W": 4}[p[0]]]
    return form in ("H", "M")


def huge_repetitions(case, msg):
    """F8: recurrence text whose repetition count has 9 or more digits; the only symptom is the time limit."""
    text = case.meta.get("text", "")
    return bool(re.match(r"^R\d{9,}/", text)) and ("HANG" in msg or "hang" in msg)


def unix_seconds_float_form(case, msg):
    """F16: seconds_since_unix_epoch of a point written in an hour-only / hour:minute (fractional precision)
    form: the distance to the epoch is computed in float hours/minutes, so a whole-second instant can come out
    a hair below the integer and floor one second low (or, for a non-whole instant, land on the neighbouring
    integer).  Only an error of exactly one second on such a form is this class."""
    line = case.lines[0] if case.lines else ""
    if not line.startswith("tounix "):
        return False
    p = case.meta.get("p", "").split()
    if not p:
        return False
    form = p[{"C": 4, "O": 3, "W": 4}[p[0]]]
    if form not in ("H", "M"):
        return False
    out = (case.impl or [""])[0]
    model = (case.model or [""])[0]
    try:
        return abs(int(out) - int(model)) == 1
    except ValueError:
        return False
