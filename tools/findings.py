"""Matchers for the entries of known_findings.json with status=finding.

Each matcher takes (case, message) and recognises the *class* of a known
defect by call site and input shape, so that a different violation of the same
property is still reported.
"""
import re


def never(case, msg):
    return False


def float_regime_eq_hash(case, msg):
    """F3: a pair of operands in *different* offsets of which at least one is
    written in a fractional precision form (hour-only or hour:minute form, whose
    re-zoning goes through float division): equal-but-unequal-hash, operators
    that disagree with instants closer than 1 microsecond, incoherent operators,
    or RecursionError in a - b."""
    if not case.meta.get("fl"):
        return False
    line = case.lines[0]
    if not line.startswith("pair "):
        return False
    if not ("hashes differ" in msg or "RecursionError" in msg or "INCOHERENT" in msg
            or msg.startswith("float-regime comparison")):
        return False
    out = case.impl[0] if case.impl else ""
    parts = [x.strip() for x in out.split(";")]
    if len(parts) == 7:
        ta, tb = parts[0].split(), parts[1].split()
        if ta[-2:] == tb[-2:]:
            return False      # same offset: not this class
        forms = {t[{"C": 4, "O": 3, "W": 4}[t[0]]] for t in (ta, tb)}
        if not (forms & {"H", "M"}):
            return False      # both hh:mm:ss forms: not this class
    return True
