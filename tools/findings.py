"""Matchers for the entries of known_findings.json with status=finding.

Each matcher takes (case, message) and recognises the *class* of a known
defect by call site and input shape, so that a different violation of the same
property is still reported.
"""


def never(case, msg):
    return False
