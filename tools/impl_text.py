"""Parser / dumper / strftime operations on the real package."""
from fractions import Fraction
from urllib.parse import unquote_to_bytes

import impl
from impl import Toks, sh_q, _md, rd_tp, with_fake_time, rd_opt
from metomi.isodatetime import parsers, dumpers
from metomi.isodatetime.exceptions import (
    ISO8601SyntaxError, BadInputError, TimePointDumperBoundsError,
    StrftimeSyntaxError, StrptimeConversionError)


def dec(tok):
    if tok == "%00":
        return ""
    return unquote_to_bytes(tok).decode("utf-8", "surrogateescape")


def enc(s):
    out = []
    for b in s.encode("utf-8", "surrogateescape"):
        if b <= 32 or b >= 127 or b in (37, 59):
            out.append("%%%02X" % b)
        else:
            out.append(chr(b))
    return "".join(out) or "%00"


def rd_cfg(t):
    ned, tr, ba = t.z(), t.z(), t.z()
    ah = rd_opt(t, lambda x: x.z())
    am = rd_opt(t, lambda x: x.z())
    un, lh, lm = t.z(), t.z(), t.z()
    kw = dict(num_expanded_year_digits=ned, allow_truncated=bool(tr), allow_only_basic=bool(ba),
              default_to_unknown_time_zone=bool(un))
    if ah is not None and am is not None:
        kw["assumed_time_zone"] = (ah, am)
    return kw, (lh, lm)


_PARSERS = {}


def get_parser(kw):
    key = tuple(sorted(kw.items()))
    if key not in _PARSERS:
        _PARSERS[key] = parsers.TimePointParser(**kw)
    return _PARSERS[key]


def sh_ptp(p):
    def oz(v):
        return "-" if v is None else str(int(v))

    def oq(v):
        return "-" if v is None else sh_q(v)
    z = p._time_zone
    zs = "- -" if z._unknown else "%d %d" % (z._hours, z._minutes)
    fmt = p._truncated_dump_format if p._truncated else p._dump_format
    return " ".join([oz(p._year), oz(p._month_of_year), oz(p._day_of_month), oz(p._day_of_year),
                     oz(p._week_of_year), oz(p._day_of_week), oq(p._hour_of_day), oq(p._minute_of_hour),
                     oq(p._second_of_minute), zs, "1" if p._truncated else "0",
                     p._truncated_property or "-", str(p._num_expanded_year_digits),
                     enc(fmt) if fmt else "-"])


def classify(exc):
    if isinstance(exc, (ISO8601SyntaxError, StrptimeConversionError, StrftimeSyntaxError)):
        return "ERR syntax"
    if isinstance(exc, TimePointDumperBoundsError):
        return "ERR bounds"
    if isinstance(exc, BadInputError):
        return "ERR badinput"
    if isinstance(exc, ValueError):
        return "ERR value"
    if isinstance(exc, OverflowError):
        return "EXC OverflowError"
    raise exc


def guarded(fn):
    def op(t):
        try:
            return fn(t)
        except impl.Hang:
            raise
        except (ValueError, OverflowError) as exc:
            return classify(exc)
    return op


def parse_with(kw, local, text, **pk):
    secs = -(local[0] * 3600 + local[1] * 60)
    return with_fake_time(secs, secs, 0, 0, lambda: get_parser(kw).parse(text, **pk))


@guarded
def op_parse(t):
    _md(t)
    kw, local = rd_cfg(t)
    asp = t.z()
    text = dec(t.next())
    return sh_ptp(parse_with(kw, local, text, dump_as_parsed=bool(asp)))


@guarded
def op_mk(t):
    from metomi.isodatetime.data import TimePoint
    _md(t)
    names = ["year", "month_of_year", "day_of_month", "day_of_year", "week_of_year", "day_of_week"]
    kw = {}
    for nm in names:
        v = rd_opt(t, lambda x: x.z())
        if v is not None:
            kw[nm] = v
    for nm in ["hour_of_day", "minute_of_hour", "second_of_minute"]:
        v = rd_opt(t, lambda x: impl.num(x.q()))
        if v is not None:
            kw[nm] = v
    for nm in ["time_zone_hour", "time_zone_minute"]:
        v = rd_opt(t, lambda x: x.z())
        if v is not None:
            kw[nm] = v
    return sh_ptp(TimePoint(**kw))


def op_anyparse(t):
    """Which parser, text -> 'OK <valid?>' | 'ERR' | 'EXC type' (never raises)."""
    from metomi.isodatetime.parsers import DurationParser, TimeRecurrenceParser
    which = t.next()
    kw, local = rd_cfg(t)
    text = dec(t.next())
    _ = local
    try:
        if which == "tp":
            obj = get_parser(kw).parse(text)
            return "OK " + sh_ptp(obj)
        if which == "dur":
            obj = DurationParser().parse(text)
            return "OK " + impl.sh_dur(obj)
        obj = TimeRecurrenceParser(get_parser(kw)).parse(text)
        return "OK " + impl.sh_rec(obj)
    except ValueError:
        return "ERR"


@guarded
def op_pstr(t):
    _md(t)
    kw, local = rd_cfg(t)
    text = dec(t.next())
    p = parse_with(kw, local, text, dump_as_parsed=True)
    if p._truncated:
        return "TRUNCATED"
    return enc(str(p))


def rd_tp_ned(t, ned):
    p = rd_tp(t)
    if ned != p._num_expanded_year_digits:
        p = p._copy()
        p._num_expanded_year_digits = ned
    return p


@guarded
def op_tpstr(t):
    _md(t)
    ned = t.z()
    return enc(str(rd_tp_ned(t, ned)))


@guarded
def op_tpdump(t):
    _md(t)
    ned = t.z()
    p = rd_tp_ned(t, ned)
    fmt = dec(t.next())
    return enc(dumpers.TimePointDumper(ned).dump(p, fmt))


@guarded
def op_roundtrip(t):
    _md(t)
    ned = t.z()
    p = rd_tp_ned(t, ned)
    s = str(p)
    try:
        q = parse_with(dict(num_expanded_year_digits=(ned or 2)), (0, 0), s)
        back = sh_ptp(q)
        if sh_ptp(q) and not (q == p and str(q) == s and hash(q) == hash(p)):
            back += " ; NOTEQUAL eq=%s fix=%s" % (q == p, str(q) == s)
    except (ValueError, OverflowError) as exc:
        back = classify(exc)
    return "%s ; %s" % (enc(s), back)


@guarded
def op_dumpparse(t):
    _md(t)
    ned = t.z()
    p = rd_tp_ned(t, ned)
    fmt = dec(t.next())
    s = dumpers.TimePointDumper(ned).dump(p, fmt)
    try:
        q = parse_with(dict(num_expanded_year_digits=(ned or 2)), (0, 0), s)
        if q._truncated:
            return "%s ; TRUNCATED" % enc(s)
        back = impl.cmp3(q, p)
    except (ValueError, OverflowError) as exc:
        back = classify(exc)
    return "%s ; %s" % (enc(s), back)


@guarded
def op_strftime(t):
    _md(t)
    ned = t.z()
    p = rd_tp_ned(t, ned)
    fmt = dec(t.next())
    return enc(dumpers.TimePointDumper(ned).strftime(p, fmt))


@guarded
def op_strfp(t):
    _md(t)
    kw, local = rd_cfg(t)
    p = rd_tp_ned(t, kw["num_expanded_year_digits"])
    fmt = dec(t.next())
    s = dumpers.TimePointDumper(kw["num_expanded_year_digits"]).strftime(p, fmt)
    secs = -(local[0] * 3600 + local[1] * 60)
    try:
        q = with_fake_time(secs, secs, 0, 0, lambda: get_parser(kw).strptime(s, fmt))
        back = "%s ; %s" % (sh_ptp(q), "TRUNCATED" if q._truncated else impl.cmp3(q, p))
    except (ValueError, OverflowError) as exc:
        back = classify(exc)
    return "%s ; %s" % (enc(s), back)


@guarded
def op_strptime(t):
    _md(t)
    kw, local = rd_cfg(t)
    text = dec(t.next())
    fmt = dec(t.next())
    secs = -(local[0] * 3600 + local[1] * 60)
    return sh_ptp(with_fake_time(secs, secs, 0, 0, lambda: get_parser(kw).strptime(text, fmt)))


for name, fn in [("parse", op_parse), ("mk", op_mk), ("anyparse", op_anyparse), ("pstr", op_pstr), ("tpstr", op_tpstr), ("tpdump", op_tpdump),
                 ("roundtrip", op_roundtrip), ("dumpparse", op_dumpparse), ("strftime", op_strftime), ("strfp", op_strfp), ("strptime", op_strptime)]:
    impl.register(name, fn)
