#!/venv/bin/python
"""Source -> Coq translator (fail closed).

Reads /repo/metomi/isodatetime/*.py and regenerates coq/gen/*.v.  Files are
rewritten only when their content changes, so an unchanged source leaves the
build untouched.  Anything outside the accepted source shapes makes the
generated file define `translator_ok := false` with the reason in a comment,
which breaks the first obligation of every property that depends on it.
"""
import ast
import os
import sys

REPO = os.environ.get("ISO_REPO", "/repo")
SRC = os.path.join(REPO, "metomi", "isodatetime")
OUT = os.path.join(os.path.dirname(os.path.abspath(__file__)), "..", "coq", "gen")


class Reject(Exception):
    pass


def write_if_changed(name, text):
    path = os.path.join(OUT, name)
    old = None
    if os.path.exists(path):
        with open(path) as fh:
            old = fh.read()
    if old != text:
        with open(path, "w") as fh:
            fh.write(text)
        return True
    return False


def coq_z(n):
    return "(%d)" % n if n < 0 else "%d" % n


def coq_list(items):
    return "[" + "; ".join(items) + "]"


def coq_str(s):
    return '"' + s.replace('"', '""') + '"'


# --------------------------------------------------------------------------
# CalTables.v : class Calendar constants
# --------------------------------------------------------------------------
def eval_const(node, env):
    """Evaluate the tiny constant language used in class Calendar."""
    if isinstance(node, ast.Constant):
        return node.value
    if isinstance(node, ast.Name):
        if node.id in env:
            return env[node.id]
        raise Reject("unbound name %s" % node.id)
    if isinstance(node, ast.Tuple):
        return tuple(eval_const(e, env) for e in node.elts)
    if isinstance(node, ast.List):
        return [eval_const(e, env) for e in node.elts]
    if isinstance(node, ast.Dict):
        return {eval_const(k, env): eval_const(v, env)
                for k, v in zip(node.keys, node.values)}
    if isinstance(node, ast.BinOp) and isinstance(node.op, ast.Mult):
        left, right = eval_const(node.left, env), eval_const(node.right, env)
        if isinstance(left, int) and isinstance(right, tuple):
            return left * right
        if isinstance(left, int) and isinstance(right, int):
            return left * right
        raise Reject("unsupported product")
    raise Reject("unsupported constant expression %s" % ast.dump(node)[:80])


_RUNTIME_CONSTS = {}


def runtime_class_constants():
    """The class-level attributes of Calendar as the package itself computes them (vars(Calendar) after import, in
    a subprocess): how the class body spells its tables (literals, products, slices, a loop filling MODES) does not
    matter, only the values do.  Instance attributes assigned by set_mode are not in vars(Calendar)."""
    if REPO in _RUNTIME_CONSTS:
        return _RUNTIME_CONSTS[REPO]
    import json
    import subprocess
    code = (
        "import sys, json; sys.path.insert(0, %r)\n"
        "from metomi.isodatetime.data import Calendar\n"
        "def enc(v):\n"
        "    if isinstance(v, bool) or v is None or isinstance(v, (int, str)): return v\n"
        "    if isinstance(v, (tuple, list)): return [enc(x) for x in v]\n"
        "    if isinstance(v, dict) and all(isinstance(k, str) for k in v): return {'__dict__': [[k, enc(x)] for k, x in v.items()]}\n"
        "    return {'__opaque__': type(v).__name__}\n"
        "print(json.dumps({k: enc(v) for k, v in vars(Calendar).items() if k.isupper()}))\n" % REPO)
    r = subprocess.run([sys.executable, "-c", code], capture_output=True, text=True, timeout=60)
    if r.returncode != 0:
        raise Reject("the package cannot be imported to read class Calendar: " + r.stderr.strip()[-200:])

    def dec(v):
        if isinstance(v, list):
            return tuple(dec(x) for x in v)
        if isinstance(v, dict) and "__dict__" in v:
            return {k: dec(x) for k, x in v["__dict__"]}
        return v
    env = {k: dec(v) for k, v in json.loads(r.stdout).items()}
    _RUNTIME_CONSTS[REPO] = env
    return env


def calendar_class_constants(tree):
    """(class-level constants of Calendar, its ast.ClassDef).  Values come from the imported package; the AST is used
    for set_mode and to insist that every constant is bound in the class body itself."""
    for node in tree.body:
        if isinstance(node, ast.ClassDef) and node.name == "Calendar":
            bound = set()
            for stmt in node.body:
                if isinstance(stmt, (ast.FunctionDef, ast.AsyncFunctionDef, ast.ClassDef)):
                    continue
                for n in ast.walk(stmt):
                    if isinstance(n, ast.Name) and isinstance(n.ctx, ast.Store):
                        bound.add(n.id)
            env = {k: v for k, v in runtime_class_constants().items() if k in bound}
            return env, node
    raise Reject("class Calendar not found")


def set_mode_defuse(cls):
    """Ordered (attribute assigned, attributes of self read) of set_mode."""
    for stmt in cls.body:
        if isinstance(stmt, ast.FunctionDef) and stmt.name == "set_mode":
            out = []

            def reads(expr):
                return sorted({n.attr for n in ast.walk(expr)
                               if isinstance(n, ast.Attribute)
                               and isinstance(n.value, ast.Name)
                               and n.value.id == "self"})
            for s in stmt.body:
                if isinstance(s, ast.Assign):
                    for tgt in s.targets:
                        if isinstance(tgt, ast.Attribute) and \
                                isinstance(tgt.value, ast.Name) and \
                                tgt.value.id == "self":
                            out.append((tgt.attr, reads(s.value)))
                        elif isinstance(tgt, (ast.Name, ast.Tuple)):
                            pass
                        else:
                            raise Reject("set_mode: odd assignment target")
                elif isinstance(s, (ast.If, ast.Expr)):
                    for n in ast.walk(s):
                        if isinstance(n, ast.Assign):
                            for tgt in n.targets:
                                if isinstance(tgt, ast.Attribute):
                                    raise Reject(
                                        "set_mode: conditional attribute write")
                else:
                    raise Reject("set_mode: unsupported statement")
            return out
    raise Reject("Calendar.set_mode not found")


SM_INPUTS = ("DAYS_IN_MONTHS", "DAYS_IN_MONTHS_LEAP")
SM_NEEDED = ("SECONDS_IN_HOUR", "SECONDS_IN_DAY", "MONTHS_IN_YEAR", "DAYS_IN_YEAR", "ROUGH_DAYS_IN_YEAR",
             "DAYS_IN_YEAR_LEAP", "MAX_DAYS_IN_MONTH", "MAX_WEEKS_IN_YEAR")
SM_CLASS_INTS = ("SECONDS_IN_MINUTE", "MINUTES_IN_HOUR", "HOURS_IN_DAY", "DAYS_IN_WEEK", "ROUGH_DAYS_IN_MONTH")


def set_mode_exprs(cls, env):
    """The integer-valued attributes Calendar.set_mode derives, as Gallina functions of the two month tables.

    -> (list of (attr, coq term), list of skipped attrs).  Accepted right-hand sides: int literals, self.X (X a
    class-level int constant, one of the two month tables under sum/max/len, or an attribute derived earlier),
    + - * //, sum(self.T), max(self.T), len(self.T).  Anything else is skipped; a skipped attribute that the
    model needs (SM_NEEDED) is a rejection."""
    sm = None
    for stmt in cls.body:
        if isinstance(stmt, ast.FunctionDef) and stmt.name == "set_mode":
            sm = stmt
    if sm is None:
        raise Reject("Calendar.set_mode not found")
    done, skipped = [], []
    names = {}

    class Skip(Exception):
        pass

    def selfattr(n):
        if isinstance(n, ast.Attribute) and isinstance(n.value, ast.Name) and n.value.id == "self":
            return n.attr
        return None

    def tr(n):
        if isinstance(n, ast.Constant) and isinstance(n.value, int) and not isinstance(n.value, bool):
            return coq_z(n.value)
        a = selfattr(n)
        if a is not None:
            if a in names:
                return "(sm_%s dim diml)" % a
            if a in SM_CLASS_INTS and isinstance(env.get(a), int):
                return a
            raise Skip()
        if isinstance(n, ast.BinOp):
            op = {ast.Add: "+", ast.Sub: "-", ast.Mult: "*", ast.FloorDiv: "/"}.get(type(n.op))
            if op is None:
                raise Skip()
            return "(%s %s %s)" % (tr(n.left), op, tr(n.right))
        if isinstance(n, ast.Call) and isinstance(n.func, ast.Name) and len(n.args) == 1 and not n.keywords:
            t = selfattr(n.args[0])
            if t is None and isinstance(n.args[0], ast.Name):
                t = local_of.get(n.args[0].id)      # the local the table was assigned from
            tab = {"DAYS_IN_MONTHS": "dim", "DAYS_IN_MONTHS_LEAP": "diml"}.get(t)
            if tab is None:
                raise Skip()
            if n.func.id == "sum":
                return "(fold_left Z.add %s 0)" % tab
            if n.func.id == "max":
                return "(fold_left Z.max %s 0)" % tab
            if n.func.id == "len":
                return "(Z.of_nat (List.length %s))" % tab
        raise Skip()

    assigned_inputs = set()
    local_of = {}
    seen_input = False
    for st in sm.body:
        # a local that a month table was assigned from stands for that table, provided it is not
        # rebound afterwards and does not name both tables
        if seen_input:
            for n in ast.walk(st):
                if isinstance(n, ast.Name) and isinstance(n.ctx, ast.Store) and n.id in local_of:
                    raise Reject("set_mode rebinds %s after assigning the month tables" % n.id)
        if isinstance(st, ast.Assign) and len(st.targets) == 1 and selfattr(st.targets[0]) in SM_INPUTS \
                and isinstance(st.value, ast.Name):
            if st.value.id in local_of:
                raise Reject("set_mode assigns both month tables from %s" % st.value.id)
            local_of[st.value.id] = selfattr(st.targets[0])
            seen_input = True
    for st in sm.body:
        if not isinstance(st, ast.Assign) or len(st.targets) != 1:
            continue
        a = selfattr(st.targets[0])
        if a is None:
            continue
        if a in SM_INPUTS:
            # must be assigned from the local chosen by the mode, before anything is derived
            if done or not isinstance(st.value, ast.Name):
                raise Reject("set_mode: %s is not assigned from a local before the derived attributes" % a)
            assigned_inputs.add(a)
            continue
        if a in names:
            raise Reject("set_mode assigns %s twice" % a)
        try:
            term = tr(st.value)
        except Skip:
            skipped.append(a)
            continue
        names[a] = True
        done.append((a, term))
    if assigned_inputs != set(SM_INPUTS):
        raise Reject("set_mode does not assign both month tables")
    missing = [a for a in SM_NEEDED if a not in names]
    if missing:
        raise Reject("set_mode: cannot translate the derivation of %s" % ", ".join(missing))
    return done, skipped


def gen_cal_tables():
    with open(os.path.join(SRC, "data.py")) as fh:
        tree = ast.parse(fh.read())
    head = ("(* GENERATED by tools/translate.py from metomi/isodatetime/data.py"
            " (class Calendar). Do not edit. *)\n"
            "From Coq Require Import ZArith List String Bool.\n"
            "Import ListNotations.\nOpen Scope Z_scope.\nOpen Scope string_scope.\n\n")
    try:
        env, cls = calendar_class_constants(tree)
        body = []
        for name in ["SECONDS_IN_MINUTE", "MINUTES_IN_HOUR", "HOURS_IN_DAY",
                     "DAYS_IN_WEEK", "ROUGH_DAYS_IN_MONTH",
                     "MAX_WEEKS_IN_YEAR"]:
            v = env[name]
            if not isinstance(v, int) or isinstance(v, bool):
                raise Reject("%s is not an int" % name)
            body.append("Definition %s : Z := %s." % (name, coq_z(v)))
        lyf = env["LEAP_YEAR_FACTOR_TRUTHS"]
        body.append("Definition LEAP_YEAR_FACTOR_TRUTHS : list (Z * bool) := %s." % coq_list(
            "(%s, %s)" % (coq_z(f), "true" if t else "false") for f, t in lyf))
        for name in ["DAYS_IN_MONTHS_360", "DAYS_IN_MONTHS_365",
                     "DAYS_IN_MONTHS_366"]:
            body.append("Definition %s : list Z := %s." % (
                name, coq_list(coq_z(x) for x in env[name])))
        modes = env["MODES"]
        rows = []
        for key, (common, leap) in modes.items():
            rows.append("(%s, (%s, %s))" % (
                coq_str(key), coq_list(coq_z(x) for x in common),
                "None" if leap is None else
                "Some " + coq_list(coq_z(x) for x in leap)))
        body.append("Definition MODES : list (string * (list Z * option (list Z))) :=\n  %s." % coq_list(rows))
        body.append("Definition MODE_GREGORIAN : string := %s." % coq_str(env["MODE_GREGORIAN"]))
        ref = env["WEEK_DAY_START_REFERENCE"]
        body.append("Definition WEEK_REF_CALENDAR : Z * Z * Z := (%s, %s, %s)." % tuple(
            coq_z(x) for x in ref["calendar"]))
        body.append("Definition WEEK_REF_ORDINAL : Z * Z := (%s, %s)." % tuple(
            coq_z(x) for x in ref["ordinal"]))
        ep = env["UNIX_EPOCH_DATE_TIME_REFERENCE_PROPERTIES"]
        if sorted(ep) != ["time_zone_hour", "time_zone_minute", "year"]:
            raise Reject("unexpected unix epoch reference keys")
        body.append("Definition UNIX_EPOCH_REF : Z * Z * Z := (%s, %s, %s)." % (
            coq_z(ep["year"]), coq_z(ep["time_zone_hour"]), coq_z(ep["time_zone_minute"])))
        du = set_mode_defuse(cls)
        body.append("(* Calendar.set_mode: ordered (attribute assigned, self attributes read) *)")
        body.append("Definition SET_MODE_DEFUSE : list (string * list string) :=\n  %s." % coq_list(
            "(%s, %s)" % (coq_str(a), coq_list(coq_str(r) for r in rs)) for a, rs in du))
        exprs, skipped = set_mode_exprs(cls, env)
        body.append("(* Calendar.set_mode: the integer attributes it derives, as functions of the two month tables *)")
        for a, term in exprs:
            body.append("Definition sm_%s (dim diml : list Z) : Z := %s." % (a, term))
        body.append("Definition SET_MODE_TRANSLATED : list string := %s." % coq_list(coq_str(a) for a, _ in exprs))
        body.append("Definition SET_MODE_NOT_TRANSLATED : list string := %s." % coq_list(coq_str(a) for a in skipped))
        consts = sorted(k for k, v in env.items() if k.isupper())
        body.append("Definition CLASS_CONSTANTS : list string := %s." % coq_list(coq_str(c) for c in consts))
        body.append("Definition translator_ok_cal : bool := true.")
        text = head + "\n".join(body) + "\n"
    except (Reject, KeyError, TypeError, ValueError) as exc:
        text = head + "(* REJECTED: %s *)\nDefinition translator_ok_cal : bool := false.\n" % (
            str(exc).replace("*)", "* )"))
    return write_if_changed("CalTables.v", text)


GENERATORS = [gen_cal_tables]


def main():
    os.makedirs(OUT, exist_ok=True)
    import translate_grammar
    import translate_cache
    import translate_effects
    import translate_durtext
    import translate_code
    import translate_code2
    import translate_code3
    import translate_code4
    import translate_code5
    import translate_code6
    import translate_code7
    import translate_code8
    import translate_code9
    import translate_code10
    import translate_code11
    for g in (translate_grammar.gen_grammar, translate_cache.gen_cache_table, translate_effects.gen_effects,
              translate_durtext.gen_durtext, translate_code.gen_code, translate_code2.gen_code2, translate_code3.gen_code3,
              translate_code4.gen_code4, translate_code6.gen_code6, translate_code7.gen_code7,
              translate_code5.gen_code5, translate_code8.gen_code8, translate_code9.gen_code9,
              translate_code10.gen_code10, translate_code11.gen_code11):
        if g not in GENERATORS:
            GENERATORS.append(g)
    changed = [g.__name__ for g in GENERATORS if g()]
    print("translate: regenerated %s" % (", ".join(changed) or "nothing"))


if __name__ == "__main__":
    main()
