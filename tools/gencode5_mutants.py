#!/venv/bin/python
"""Demonstration for gen/GenCode5.v (class TimeRecurrence method bodies).

Harmless rewrites of the source must leave coq/Proofs/GenCode5Ok.v (and
Props/C12Code.v when it exists) provable; breaking edits and the seeded changes
that touch TimeRecurrence must fail an obligation (an equality lemma, or
`translator_ok_code5 = true` when the edit leaves the accepted subset).

Works on scratch copies only (/tmp/gencode5_repo, /tmp/gencode5_coq), removed
afterwards; neither /repo nor /verif/coq is written.
Usage: tools/gencode5_mutants.py [name-substring]
"""
import glob
import os
import re
import shutil
import subprocess
import sys
import time

TOOLS = os.path.dirname(os.path.abspath(__file__))
COQ = os.path.normpath(os.path.join(TOOLS, "..", "coq"))
REPO_SCRATCH = "/tmp/gencode5_repo"
COQ_SCRATCH = "/tmp/gencode5_coq"
OWN = ("GenCode5", "GenCode5Ok", "C12Code", "C13Code", "C14Code")
PROPS = ("C12Code.v", "C13Code.v", "C14Code.v")
SEEDED = "/verif/seeded/%s/patch.diff"

CASES = [
    ("same", "control (no change)", []),
    ("same", "R3 the whole refactor notes/refactors/R3.diff (helpers extracted, folded while, not any(..), ...)",
     [("PATCH", "/verif/notes/refactors/R3.diff")]),
    ("same", "H1 _get_last_point_from_start extracted from __init__", [
        ("""            else:
                self._end_point = (
                    self._start_point +
                    self._duration * (self._repetitions - 1))
        elif self._end_point is None and self._start_point is not None:""",
         """            else:
                self._end_point = self._get_last_point_from_start()
        elif self._end_point is None and self._start_point is not None:"""),
        ("""    @property
    def repetitions(self): return self._repetitions
""", """    def _get_last_point_from_start(self):
        return (
            self._start_point + self._duration * (self._repetitions - 1))

    @property
    def repetitions(self): return self._repetitions
""")]),
    ("same", "H2 _point_if_in_bounds extracted from get_next / get_prev", [
        ("""        next_timepoint = timepoint + self._duration
        if self._get_is_in_bounds(next_timepoint):
            return next_timepoint
        return None
""", """        next_timepoint = timepoint + self._duration
        return self._point_if_in_bounds(next_timepoint)
"""),
        ("""        prev_timepoint = timepoint - self._duration
        if self._get_is_in_bounds(prev_timepoint):
            return prev_timepoint
        return None
""", """        return self._point_if_in_bounds(timepoint - self._duration)
"""),
        ("""    def __iter__(self):
""", """    def _point_if_in_bounds(self, timepoint):
        if self._get_is_in_bounds(timepoint):
            return timepoint
        return None

    def __iter__(self):
""")]),
    ("same", "H3 __iter__: folded while condition, early return, conditional expression", [
        ("""        if self._start_point is None:
            point = self._end_point
            in_reverse = True
        else:
            point = self._start_point
            in_reverse = False

        if self._repetitions == 1 or not self._duration:
            if self._get_is_in_bounds(point):
                yield point
            point = None

        while point is not None:
            if self._get_is_in_bounds(point):
                yield point
            else:
                break
""", """        in_reverse = self._start_point is None
        point = self._end_point if in_reverse else self._start_point

        if self._repetitions == 1 or not self._duration:
            if self._get_is_in_bounds(point):
                yield point
            return

        while point is not None and self._get_is_in_bounds(point):
            yield point
""")]),
    ("same", "H4 __eq__ as `not any(... for attr in (...))`", [
        ("""        for attr in ["_repetitions", "_start_point", "_end_point", "_duration",
                     "_min_point", "_max_point"]:
            if getattr(self, attr) != getattr(other, attr):
                return False
        return True
""", """        return not any(
            getattr(self, attr) != getattr(other, attr)
            for attr in ("_repetitions", "_start_point", "_end_point",
                         "_duration", "_min_point", "_max_point"))
""")]),
    ("same", "H5 _get_is_in_bounds as one boolean expression; get_is_valid with `for .. in self`", [
        ("""        if timepoint is None:
            return False
        if self._start_point is not None and timepoint < self._start_point:
            return False
        if self._min_point is not None and timepoint < self._min_point:
            return False
        if self._max_point is not None and timepoint > self._max_point:
            return False
        if self._end_point is not None and timepoint > self._end_point:
            return False
        return True
""", """        if timepoint is None:
            return False
        return not (
            (self._start_point is not None and timepoint < self._start_point) or
            (self._min_point is not None and timepoint < self._min_point) or
            (self._max_point is not None and timepoint > self._max_point) or
            (self._end_point is not None and timepoint > self._end_point))
"""),
        ("""        for iter_timepoint in self.__iter__():
            if iter_timepoint == timepoint:""", """        for iter_timepoint in self:
            if iter_timepoint == timepoint:""")]),
    ("same", "H6 get_first_after: while True / break instead of the loop condition; __add__ dict built per key", [
        ("""                while current is not None and current <= timepoint:
                    current = self.get_next(current)
                return current
""", """                while True:
                    if current is None or not current <= timepoint:
                        break
                    current = self.get_next(current)
                return current
"""),
        ("""            kwargs = {"start_point": self._start_point + other,
                      "duration": self._duration}
""", """            kwargs = {"start_point": self._start_point + other}
            kwargs["duration"] = self._duration
""")]),
    ("same", "S3r the whole refactor notes/refactors/S3.diff (import math / math.floor, import functools, ...)",
     [("PATCH", "/verif/notes/refactors/S3.diff")]),
    ("same", "S4r the whole refactor notes/refactors/S4.diff (raise self._bad_inputs_error(inputs) staticmethod, "
             "_get_is_single_point, _get_last_point_from_start, _in_bounds_or_none)",
     [("PATCH", "/verif/notes/refactors/S4.diff")]),
    ("same", "T4r the whole refactor notes/refactors/T4.diff (`1 == self._repetitions`, De Morgan, conditional "
             "expressions, `while True` + combined break test in __iter__ / get_first_after, `i == index`)",
     [("PATCH", "/verif/notes/refactors/T4.diff")]),
    ("break", "N4 T4 with the literal-left test changed: `2 == self._repetitions` in __init__", [
        ("PATCH", "/verif/notes/refactors/T4.diff"),
        ("""1 == self._repetitions""", """2 == self._repetitions""")]),
    ("break", "N1 `floor` rebound at module level (def floor(x): return int(x)) - not math.floor any more", [
        ("""from math import floor
""", """

def floor(x):
    return int(x)
""")]),
    ("break", "N2 S4's helper _get_is_single_point with a wrong test (repetitions == 2)", [
        ("PATCH", "/verif/notes/refactors/S4.diff"),
        ("""        return self._repetitions == 1 or self._duration == Duration(years=0)""",
         """        return self._repetitions == 2 or self._duration == Duration(years=0)""")]),
    ("break", "N3 S4's _in_bounds_or_none returns the point when it is OUT of bounds", [
        ("PATCH", "/verif/notes/refactors/S4.diff"),
        ("""        if self._get_is_in_bounds(timepoint):
            return timepoint
        return None

    def _get_is_in_bounds""", """        if not self._get_is_in_bounds(timepoint):
            return timepoint
        return None

    def _get_is_in_bounds""")]),
    ("break", "S1 seeded C13-first-after-bounds", [("PATCH", SEEDED % "C13-first-after-bounds")]),
    ("break", "S2 seeded C13-valid-early-exit-reverse", [("PATCH", SEEDED % "C13-valid-early-exit-reverse")]),
    ("break", "S3 seeded C13-valid-second-of-day-shortcut", [("PATCH", SEEDED % "C13-valid-second-of-day-shortcut")]),
    ("break", "S4 seeded C14-eq-ignores-end", [("PATCH", SEEDED % "C14-eq-ignores-end")]),
    ("break", "S5 seeded C14-eq-by-hash", [("PATCH", SEEDED % "C14-eq-by-hash")]),
    ("break", "S6 seeded C14-single-point-end-shift-lost", [("PATCH", SEEDED % "C14-single-point-end-shift-lost")]),
    ("break", "S7 seeded C14-zero-interval-keeps-reps", [("PATCH", SEEDED % "C14-zero-interval-keeps-reps")]),
    ("break", "B1 __init__: derived end point by duration * repetitions (off by one)", [
        ("""                self._end_point = (
                    self._start_point +
                    self._duration * (self._repetitions - 1))
        elif self._start_point is None and self._end_point is not None:""",
         """                self._end_point = (
                    self._start_point +
                    self._duration * self._repetitions)
        elif self._start_point is None and self._end_point is not None:""")]),
    ("break", "B2 _get_is_in_bounds: the end point itself is excluded (>=)", [
        ("""        if self._end_point is not None and timepoint > self._end_point:
            return False""", """        if self._end_point is not None and timepoint >= self._end_point:
            return False""")]),
    ("break", "B3 get_prev adds the interval", [
        ("""        prev_timepoint = timepoint - self._duration""", """        prev_timepoint = timepoint + self._duration""")]),
    ("break", "B4 __iter__: a start-less recurrence is iterated forwards", [
        ("""            point = self._end_point
            in_reverse = True""", """            point = self._end_point
            in_reverse = False""")]),
    ("break", "B5 __getitem__ counts from 1", [
        ("""            if index == i:
                return point""", """            if index == i + 1:
                return point""")]),
    ("break", "B6 get_first_after: floor of the quotient instead of the remainder", [
        ("""                    seconds=floor(seconds_since)))""", """                    seconds=floor(iterations)))""")]),
    ("break", "B7 __hash__ without the end point", [
        ("""        return hash((self._repetitions, self._start_point, self._end_point,
                     self._duration, self._min_point, self._max_point))""",
         """        return hash((self._repetitions, self._start_point,
                     self._duration, self._min_point, self._max_point))""")]),
    ("break", "B8 __str__: format 4 printed start-first", [
        ("""            return prefix + duration_str + "/" + str(self._end_point)""",
         """            return prefix + str(self._end_point) + "/" + duration_str""")]),
    ("break", "B9 __sub__ adds the duration", [
        ("""        return self + -1 * other

    def __str__(self):
        if self._repetitions is None:""", """        return self + 1 * other

    def __str__(self):
        if self._repetitions is None:""")]),
    ("break", "B10 a ninth slot in __slots__ (state record out of date)", [
        ("""                 "_second_point", "_format_number", "_min_point", "_max_point"]""",
         """                 "_second_point", "_format_number", "_min_point", "_max_point",
                 "_cache"]""")]),
    ("break", "B11 leaves the subset: get_next caches its result on self", [
        ("""        next_timepoint = timepoint + self._duration
        if self._get_is_in_bounds(next_timepoint):""", """        next_timepoint = timepoint + self._duration
        self._second_point = next_timepoint
        if self._get_is_in_bounds(next_timepoint):""")]),
]


def fresh_tree():
    shutil.rmtree(COQ_SCRATCH, ignore_errors=True)
    for d in ("gen", "Proofs", "Props"):
        os.makedirs(os.path.join(COQ_SCRATCH, d))
    for d in ("Spec", "Model"):
        os.symlink(os.path.join(COQ, d), os.path.join(COQ_SCRATCH, d))
    for f in glob.glob(os.path.join(COQ, "gen", "*.vo")) + glob.glob(os.path.join(COQ, "Proofs", "*.vo")):
        if os.path.basename(f)[:-3] not in OWN:
            os.symlink(f, os.path.join(COQ_SCRATCH, os.path.relpath(f, COQ)))
    shutil.copy(os.path.join(COQ, "Proofs", "GenCode5Ok.v"), os.path.join(COQ_SCRATCH, "Proofs"))
    for f in PROPS:
        if os.path.exists(os.path.join(COQ, "Props", f)):
            shutil.copy(os.path.join(COQ, "Props", f), os.path.join(COQ_SCRATCH, "Props"))


def coqc(path):
    t0 = time.time()
    r = subprocess.run("ulimit -v 8000000; timeout 900 coqc -Q . Iso %s" % path, shell=True,
                       cwd=COQ_SCRATCH, capture_output=True, text=True)
    return r.returncode, (r.stdout + r.stderr), time.time() - t0


def lemma_at(path, out):
    m = re.search(r'line (\d+)', out)
    if not m:
        return "?"
    lines = open(os.path.join(COQ_SCRATCH, path)).read().split("\n")[:int(m.group(1))]
    names = re.findall(r"^(?:Lemma|Theorem|Example)\s+(\w+)", "\n".join(lines), re.M)
    return names[-1] if names else "?"


def run(kind, name, edits):
    print("=== [%s] %s" % (kind, name))
    shutil.rmtree(REPO_SCRATCH, ignore_errors=True)
    shutil.copytree("/repo", REPO_SCRATCH, ignore=shutil.ignore_patterns(".git"))
    path = os.path.join(REPO_SCRATCH, "metomi", "isodatetime", "data.py")
    for old, new in [e for e in edits if e[0] == "PATCH"]:
        subprocess.run("patch -s -p1 < %s" % new, shell=True, cwd=REPO_SCRATCH, check=True)
    src = open(path).read()
    for old, new in [e for e in edits if e[0] != "PATCH"]:
        assert src.count(old) == 1, "expected exactly one occurrence of %r, found %d" % (old, src.count(old))
        src = src.replace(old, new)
    open(path, "w").write(src)
    if edits:   # the edited package must still import (a syntax slip is not a mutant)
        r = subprocess.run(["/venv/bin/python", "-c", "import metomi.isodatetime.data"],
                           env=dict(os.environ, PYTHONPATH=REPO_SCRATCH), capture_output=True, text=True)
        assert r.returncode == 0, r.stderr
    fresh_tree()
    env = dict(os.environ, ISO_REPO=REPO_SCRATCH, VERIF_GEN_OUT=os.path.join(COQ_SCRATCH, "gen"))
    subprocess.run(["/venv/bin/python", os.path.join(TOOLS, "translate_code5.py")], env=env, check=True,
                   capture_output=True)
    gen = open(os.path.join(COQ_SCRATCH, "gen", "GenCode5.v")).read()
    changed = gen != open(os.path.join(COQ, "gen", "GenCode5.v")).read()
    ok_flag = re.search(r"translator_ok_code5 : bool := (\w+)", gen).group(1)
    print("    generated file %s; translator_ok_code5 := %s" % ("CHANGED" if changed else "unchanged", ok_flag))
    for m in re.finditer(r"^\(\* REJECTED: (.*) \*\)$", gen, re.M):
        print("    " + m.group(1)[:220])
    verdict = "PROVES"
    files = ["gen/GenCode5.v", "Proofs/GenCode5Ok.v"]
    for f in PROPS:
        if os.path.exists(os.path.join(COQ_SCRATCH, "Props", f)):
            files.append("Props/" + f)
    for f in files:
        rc, out, dt = coqc(f)
        if rc != 0:
            err = " ".join(out.strip().split("\n")[-3:])[:260]
            verdict = "FAILS at %s, %s (%.1fs): %s" % (f, lemma_at(f, out), dt, err)
            break
    print("    -> " + verdict)
    good = (verdict == "PROVES") == (kind == "same")
    print("    %s" % ("as required" if good else "*** NOT as required ***"))
    shutil.rmtree(REPO_SCRATCH, ignore_errors=True)
    shutil.rmtree(COQ_SCRATCH, ignore_errors=True)
    return good


if __name__ == "__main__":
    sel = sys.argv[1] if len(sys.argv) > 1 else ""
    results = [run(*c) for c in CASES if sel in c[1]]
    print("%d of %d as required" % (sum(results), len(results)))
    sys.exit(0 if all(results) else 1)
