"""Command-line operations on the real package: main(argv) in-process with
captured stdout / SystemExit, next to the same computation done through the
library API (what the command line is supposed to print)."""
import contextlib
import io
import os

import impl
from impl import _md, with_fake_time
from impl_text import dec, enc, classify
from metomi.isodatetime import main as cli_main
from metomi.isodatetime import parsers
from metomi.isodatetime.data import Calendar


def run_cli(argv, env=None):
    """'OUT <text>' | 'EXIT <message>' | 'EXC <type>'"""
    buf, err = io.StringIO(), io.StringIO()
    saved = {}
    for k, v in (env or {}).items():
        saved[k] = os.environ.get(k)
        os.environ[k] = v
    try:
        with contextlib.redirect_stdout(buf), contextlib.redirect_stderr(err):
            try:
                cli_main.main(list(argv))
            except SystemExit as exc:
                code = exc.code
                if code in (None, 0):
                    return "OUT " + enc(buf.getvalue())
                if isinstance(code, int):
                    return "EXITCODE %d %s" % (code, enc(err.getvalue()[-200:]))
                return "EXIT " + enc(str(code))
        return "OUT " + enc(buf.getvalue())
    except impl.Hang:
        raise
    except Exception as exc:  # a traceback would reach the user
        return "EXC " + type(exc).__name__
    finally:
        for k, v in saved.items():
            if v is None:
                os.environ.pop(k, None)
            else:
                os.environ[k] = v
        Calendar.default().set_mode("gregorian")


MODEFLAG = {"G": "gregorian", "360": "360day", "365": "365day", "366": "366day"}


def lib(fn):
    try:
        return "OUT " + enc(fn() + "\n")
    except ValueError as exc:
        return "ERR " + classify(exc).split()[-1]


def op_cli(t):
    """cli [K=V ...] -- arg ..."""
    env = {}
    while t.t[t.i] != "--":
        k, v = dec(t.next()).split("=", 1)
        env[k] = v
    t.next()
    argv = []
    while not t.done():
        argv.append(dec(t.next()))
    return run_cli(argv, env)


def op_cli_shift(t):
    """cli_shift md utc text noffsets off... : CLI output ; library computation"""
    md = t.next()
    utc = t.z()
    text = dec(t.next())
    n = t.z()
    offs = [dec(t.next()) for _ in range(n)]
    argv = ["--calendar=" + MODEFLAG[md]] + (["--utc"] if utc else []) + [text] + ["--offset=" + o for o in offs]
    out = run_cli(argv)
    impl.set_mode(md)

    def compute():
        par = parsers.TimePointParser(assumed_time_zone=(0, 0) if utc else None)
        p = with_fake_time(0, 0, 0, 0, lambda: par.parse(text, dump_as_parsed=True))
        fmt = p.dump_format
        if utc:
            p = p.to_utc()
        for o in offs:
            sign = 1
            if o[:1] in "+-":
                sign = -1 if o[0] == "-" else 1
                o = o[1:]
            d = parsers.DurationParser().parse(o)
            p = p - d if sign < 0 else p + d
        from metomi.isodatetime.dumpers import TimePointDumper
        expected[0] = p
        expected.append(fmt)
        return TimePointDumper().dump(p, fmt)
    expected = [None]
    libout = lib(compute)
    # independent of the dumper: the printed text, read back, must denote the point the library computed
    # (only when the notation carries the whole instant: a complete date, time to the second, a zone)
    back = "NA"
    if out.startswith("OUT ") and expected[0] is not None and len(expected) > 1 and _complete_date(expected[1] or ""):
        try:
            printed = dec(out[4:]).strip()
            q = with_fake_time(0, 0, 0, 0, lambda: parsers.TimePointParser(assumed_time_zone=(0, 0) if utc else None).parse(printed))
            e = expected[0]
            # compare at the precision the notation prints: fields of the re-dumped expected point
            ez = e if q.time_zone.unknown else e.to_time_zone(q.time_zone)
            same_year = q.to_calendar_date().get_calendar_date() == ez.to_calendar_date().get_calendar_date()
            back = "YEAROK" if same_year else "YEARBAD %d" % ez.to_calendar_date().get_calendar_date()[0]
        except (ValueError, AttributeError, TypeError):
            back = "NA"
    return "%s ; %s ; %s" % (out, libout, back)


def op_cli_diff(t):
    """cli_diff md text1 text2 [unit]: CLI output ; first+d==second ; total check"""
    md = t.next()
    t1, t2 = dec(t.next()), dec(t.next())
    unit = t.next() if not t.done() else None
    argv = ["--calendar=" + MODEFLAG[md], t1, t2] + (["--as-total=" + unit] if unit else [])
    out = run_cli(argv)
    impl.set_mode(md)
    plain = run_cli(["--calendar=" + MODEFLAG[md], t1, t2]) if unit else out
    impl.set_mode(md)
    verdict = "NA"
    try:
        par = parsers.TimePointParser()
        p1 = with_fake_time(0, 0, 0, 0, lambda: par.parse(t1))
        p2 = with_fake_time(0, 0, 0, 0, lambda: par.parse(t2))
        if plain.startswith("OUT "):
            dtxt = dec(plain[4:]).strip()
            d = parsers.DurationParser().parse(dtxt)
            ok = (p1 + d) == p2
            verdict = "ADDS" if ok else "NOTADDS %s" % enc(str(p1 + d))
            if unit and out.startswith("OUT "):
                total = float(dec(out[4:]).strip())
                want = d.get_seconds() / {"s": 1, "m": 60, "h": 3600}[unit.lower()]
                verdict += " TOTALOK" if abs(total - want) <= 1e-9 * max(1.0, abs(want)) else " TOTALBAD %r %r" % (total, want)
    except ValueError as exc:
        verdict = "LIBERR " + classify(exc).split()[-1]
    return "%s ; %s" % (out, verdict)


def op_cli_rec(t):
    """cli_rec md max text [fmt]: CLI output ; library: first max points one per line"""
    md = t.next()
    mx = t.z()
    text = dec(t.next())
    fmt = dec(t.next()) if not t.done() else None
    argv = ["--calendar=" + MODEFLAG[md], "--max=%d" % mx, text] + (["--print-format=" + fmt] if fmt else [])
    out = run_cli(argv)
    impl.set_mode(md)

    def compute():
        par = parsers.TimePointParser()
        rp = parsers.TimeRecurrenceParser(par, parsers.DurationParser())
        r = with_fake_time(0, 0, 0, 0, lambda: rp.parse(text))
        pts = impl.take(r, mx) if mx > 0 else []
        return "\n".join(p.strftime(fmt) if fmt and "%" in fmt else (__import__("metomi.isodatetime.dumpers", fromlist=["x"]).TimePointDumper().dump(p, fmt) if fmt else str(p)) for p in pts)
    return "%s ; %s" % (out, lib(compute))


def _complete_date(fmt):
    """the dump format spells a full year and a complete date (so the printed text determines the day)"""
    import re
    d = fmt.split("T")[0]
    return "CCYY" in d and (("MM" in d and "DD" in d) or "DDD" in d or re.search(r"Www-?D", d) is not None)


def _lib_shift(p, offs):
    for o in offs:
        sign = 1
        if o[:1] in "+-":
            sign = -1 if o[0] == "-" else 1
            o = o[1:]
        d = parsers.DurationParser().parse(o)
        p = p - d if sign < 0 else p + d
    return p


def op_cli_diff_off(t):
    """cli_diff_off md text1 text2 off1 off2: CLI output of the pair with --offset1/--offset2 ; whether
    (first shifted by off1) + printed d == (second shifted by off2), computed with the library"""
    md = t.next()
    t1, t2, o1, o2 = (dec(t.next()) for _ in range(4))
    out = run_cli(["--calendar=" + MODEFLAG[md], t1, t2, "--offset1=" + o1, "--offset2=" + o2])
    impl.set_mode(md)
    verdict = "NA"
    try:
        par = parsers.TimePointParser()
        p1 = _lib_shift(with_fake_time(0, 0, 0, 0, lambda: par.parse(t1)), [o1])
        p2 = _lib_shift(with_fake_time(0, 0, 0, 0, lambda: par.parse(t2)), [o2])
        if out.startswith("OUT "):
            d = parsers.DurationParser().parse(dec(out[4:]).strip())
            verdict = "ADDS" if (p1 + d) == p2 else "NOTADDS %s %s" % (enc(str(p1 + d)), enc(str(p2)))
    except ValueError as exc:
        verdict = "LIBERR " + classify(exc).split()[-1]
    return "%s ; %s" % (out, verdict)


def op_cli_diff_fmt(t):
    """cli_diff_fmt md text1 text2: the pair printed with --print-format=y|m|d|h|M|s against the components of the
    duration the plain command prints"""
    md = t.next()
    t1, t2 = dec(t.next()), dec(t.next())
    plain = run_cli(["--calendar=" + MODEFLAG[md], t1, t2])
    out = run_cli(["--calendar=" + MODEFLAG[md], t1, t2, "--print-format=y|m|d|h|M|s"])
    impl.set_mode(md)
    if not plain.startswith("OUT ") or not out.startswith("OUT "):
        return "%s ; %s" % (out, "SAME" if plain.split()[0] == out.split()[0] else "DIFFERENT-OUTCOME %s" % plain.split()[0])
    text = dec(plain[4:]).strip()
    sign = "-" if text.startswith("-") else ""
    d = parsers.DurationParser().parse(text.lstrip("-"))

    def sh(x):
        return str(int(x)) if float(x).is_integer() else str(x)
    if d.get_is_in_weeks():
        d = d.to_days()
    want = sign + "|".join(sh(x or 0) for x in (d.years, d.months, d.days, d.hours, d.minutes, d.seconds))
    got = dec(out[4:]).strip()
    return "%s ; %s" % (out, "FMTOK" if got == want else "FMTBAD %s" % enc(want))


def op_cli_pf(t):
    """cli_pf md utc fmt text noffsets off... : CLI output with --parse-format=fmt ; the library's own computation
    (strptime with that format, to UTC in utc mode, the offsets added, strftime with the same format)"""
    md = t.next()
    utc = t.z()
    fmt = dec(t.next())
    text = dec(t.next())
    n = t.z()
    offs = [dec(t.next()) for _ in range(n)]
    argv = ["--calendar=" + MODEFLAG[md]] + (["--utc"] if utc else []) + ["--parse-format=" + fmt, text] + \
        ["--offset=" + o for o in offs]
    out = run_cli(argv)
    impl.set_mode(md)

    def compute():
        par = parsers.TimePointParser(assumed_time_zone=(0, 0) if utc else None)
        p = with_fake_time(0, 0, 0, 0, lambda: par.strptime(text, fmt))
        if utc:
            p = p.to_utc()
        return _lib_shift(p, offs).strftime(fmt)
    return "%s ; %s" % (out, lib(compute))


def op_cli_now(t):
    """cli_now md utc n tz keyword noffsets off... : the command line with no argument (keyword `none`) or `now`, the
    clock stopped at Unix time n in a local zone tz seconds west of UTC ; the library's own computation: the point n
    seconds after the epoch, in UTC when --utc is given or the local offset is zero (printed with Z), else in the
    local offset (printed with +hh:mm), shifted by the offsets"""
    from metomi.isodatetime import datetimeoper, data as datamod, timezone as tzmod
    from metomi.isodatetime.dumpers import TimePointDumper
    md = t.next()
    utc, n, tz = t.z(), t.z(), t.z()
    keyword = t.next()
    k = t.z()
    offs = [dec(t.next()) for _ in range(k)]
    argv = ["--calendar=" + MODEFLAG[md]] + (["--utc"] if utc else []) + (["now"] if keyword == "now" else []) + \
        ["--offset=" + o for o in offs]
    saved = datetimeoper.now2point
    datetimeoper.now2point = lambda: datamod.get_timepoint_from_seconds_since_unix_epoch(n)
    try:
        out = with_fake_time(tz, tz, 0, 0, lambda: run_cli(argv))
    finally:
        datetimeoper.now2point = saved
    impl.set_mode(md)

    def compute():
        h, m = with_fake_time(tz, tz, 0, 0, tzmod.get_local_time_zone)
        p = datamod.get_timepoint_from_seconds_since_unix_epoch(n, utc=True)
        z = utc or (h == 0 and m == 0)
        if not utc:
            p = p.to_time_zone(datamod.TimeZone(hours=h, minutes=m))
        return TimePointDumper().dump(_lib_shift(p, offs), "CCYY-MM-DDThh:mm:ssZ" if z else "CCYY-MM-DDThh:mm:ss+hh:mm")
    return "%s ; %s" % (out, lib(compute))


def op_cli_total(t):
    """cli_total unit text: `--as-total=unit <duration>` ; the duration's seconds divided by the unit, as the library
    computes them"""
    unit, text = t.next(), dec(t.next())
    out = run_cli(["--as-total=" + unit, text])

    try:
        want = parsers.DurationParser().parse(text).get_seconds() / {"S": 1, "M": 60, "H": 3600}[unit.upper()]
    except ValueError as exc:
        return "%s ; %s" % (out, "LIBERR " + classify(exc).split()[-1])
    if not out.startswith("OUT "):
        return "%s ; NUMBAD %r" % (out, want)
    try:
        got = float(dec(out[4:]).strip())
    except ValueError:
        return "%s ; NUMBAD %r" % (out, want)
    # the printed number is the duration in that unit (printed as an int or a float: both are that number)
    return "%s ; %s" % (out, "NUMOK" if got == want else "NUMBAD %r" % want)


def op_cli_stdin(t):
    """cli_stdin nitems item... opt... : the items read from standard input (`-`) ; the same items as arguments"""
    import sys
    k = t.z()
    items = [dec(t.next()) for _ in range(k)]
    opts = []
    while not t.done():
        opts.append(dec(t.next()))
    saved = sys.stdin
    sys.stdin = io.StringIO("\n".join(items) + "\n")
    try:
        a = run_cli(["-"] + opts)
    finally:
        sys.stdin = saved
    return "%s ; %s" % (a, run_cli(items + opts))


for name, fn in [("cli", op_cli), ("cli_shift", op_cli_shift), ("cli_pf", op_cli_pf), ("cli_now", op_cli_now),
                 ("cli_total", op_cli_total), ("cli_stdin", op_cli_stdin), ("cli_diff", op_cli_diff), ("cli_rec", op_cli_rec),
                 ("cli_diff_off", op_cli_diff_off), ("cli_diff_fmt", op_cli_diff_fmt)]:
    impl.register(name, fn)
