#!/venv/bin/python
"""GenCode2.v generator (phase 2 of GenCode): the day-walking calendar helpers
of data.py -- the functions that iterate `iter_months_days` and return from
inside the loop -- translated from their Python `ast` into Gallina, fail closed.

coq/Proofs/GenCode2Ok.v proves each translated function equal to the
month-granularity model function of coq/Model/Helpers.v; coq/Props/C03Code.v
states the theorems.  Functions already covered by phase 1
(tools/translate_code.py -> gen/GenCode.v) are not re-translated: calls to them
refer to the phase-1 definitions.

Accepted subset = phase 1 (see notes/GENCODE_REPORT.md) without `while`, plus
(see notes/GENCODE2_REPORT.md):

  functions  default values None/True/False/int for parameters; calls with
             keyword arguments.  Every call site is specialised: a parameter
             that receives None/True/False (literally, by default, or from a
             specialised parameter of the caller) is fixed to that value in a
             separate variant of the callee (`py_f__<code per parameter>`), the
             others are ordinary parameters of type Z / bool / list.
  partial functions: `raise ValueError(...)`, falling off the end (Python
             result None).  Such a function returns `res T`:
             Ret v | Abn RetNone | Abn RaiseValueError | Abn RaiseTypeError |
             Abn NoneStored.  Calls of a partial function are accepted as
             `return g(..)`, `a, b = g(..)` (unpacking None is a TypeError) and
             `x = g(..)` (a None result ends the translation: NoneStored).
  lists      x = [] ; x.append(e) ; x.extend(iterable) (x bound only by list
             displays and used only as receiver / `return x` / loop iterable);
             [e1, e2]; L[k:]; reversed(L); list(L); range(a, b);
             range(a, b, -1); enumerate(L[, k]); len(L); sum(iterable);
             [e for pat in L] / (e for pat in L) in iterable position.
  loops      for <pattern> in <iterable>: with nested tuple patterns,
             `continue`, and `return` inside the body:
             for_ret L (fun state item => inl result | inr state') state0
             (first iteration at which the return fires; the remaining
             iterations are skipped), the code after the loop is the
             continuation of the `inr` case.
  other      divmod(a, b); a < b <= c chains and comparisons of int tuples
             (lexicographic); (x,) + t tuple concatenation.
"""
import ast
import os
import sys

sys.path.insert(0, os.path.dirname(os.path.abspath(__file__)))
import translate  # noqa: E402
from translate import Reject, write_if_changed, coq_str  # noqa: E402
import translate_code as tc  # noqa: E402
from translate_code import zlit, names_loaded, contains, clean  # noqa: E402

if os.environ.get("VERIF_GEN_OUT"):
    translate.OUT = os.environ["VERIF_GEN_OUT"]

Z, B, U, NONE = "Z", "B", "U", "NONE"


def L(t):
    return ("L", t)


def T(*ts):
    return ("T", tuple(ts))


def RES(t):
    return ("RES", t)


LZ, LZB, LZZ = L(Z), L(T(Z, B)), L(T(Z, Z))


def is_list(t):
    return isinstance(t, tuple) and t[0] == "L"


def is_tuple(t):
    return isinstance(t, tuple) and t[0] == "T"


def is_res(t):
    return isinstance(t, tuple) and t[0] == "RES"


def coq_type(t):
    if t == Z:
        return "Z"
    if t == B:
        return "bool"
    if t == U:
        return "unit"
    if is_list(t):
        return "(list %s)" % coq_type(t[1])
    if is_tuple(t):
        return "(" + " * ".join(coq_type(x) for x in t[1]) + ")"
    if is_res(t):
        return "(res %s)" % coq_type(t[1])
    raise Reject("no Coq type for %r" % (t,))


def p1_type(t):
    """phase-1 type -> phase-2 type"""
    if t in (tc.Z, tc.B):
        return t
    if t == tc.LZ:
        return LZ
    if t == tc.LZB:
        return LZB
    if isinstance(t, tuple) and t[0] == "T":
        return T(*[p1_type(x) for x in t[1]])
    raise Reject("phase-1 type %r" % (t,))


MODE_ATTRS = [("DAYS_IN_YEAR", Z), ("DAYS_IN_YEAR_LEAP", Z),
              ("DAYS_IN_MONTHS", LZ), ("DAYS_IN_MONTHS_LEAP", LZ),
              ("INDEXED_DAYS_IN_MONTHS", LZZ), ("INDEXED_DAYS_IN_MONTHS_LEAP", LZZ)]
CLASS_CONSTS = {"SECONDS_IN_MINUTE": Z, "MINUTES_IN_HOUR": Z, "HOURS_IN_DAY": Z,
                "DAYS_IN_WEEK": Z, "ROUGH_DAYS_IN_MONTH": Z,
                "MAX_WEEKS_IN_YEAR": Z, "LEAP_YEAR_FACTOR_TRUTHS": LZB}
WEEK_REF = {"calendar": ("WEEK_REF_CALENDAR", T(Z, Z, Z)),
            "ordinal": ("WEEK_REF_ORDINAL", T(Z, Z))}
BUILTINS = ("range", "reversed", "enumerate", "sum", "list", "divmod", "len")
# functions whose phase-1 translation (gen/GenCode.v) is referred to
PHASE1 = ("get_is_leap_year", "_get_days_in_year", "get_days_in_year", "_get_days_in_month",
          "_get_days_in_year_range", "get_days_in_year_range", "_get_days_since_1_ad")


class NeedPartial(Exception):
    """the function being translated can raise / fall off its end: restart with a `res` result"""


def stores(stmts):
    """Names stored by the statements (x.append / x.extend count as a store to x)."""
    out = []

    def add(t):
        if isinstance(t, ast.Name):
            if t.id not in out:
                out.append(t.id)
        elif isinstance(t, ast.Tuple):
            for e in t.elts:
                add(e)
        else:
            raise Reject("store to %s" % type(t).__name__)

    def walk(ss):
        for s in ss:
            if isinstance(s, ast.Assign):
                for t in s.targets:
                    add(t)
            elif isinstance(s, ast.AugAssign):
                add(s.target)
            elif isinstance(s, ast.If):
                walk(s.body)
                walk(s.orelse)
            elif isinstance(s, ast.For):
                add(s.target)
                walk(s.body)
                walk(s.orelse)
            elif isinstance(s, ast.Expr):
                m = mutation(s)
                if m:
                    add(ast.Name(id=m[0]))
            elif isinstance(s, (ast.Return, ast.Pass, ast.Raise, ast.Continue)):
                pass
            else:
                raise Reject("statement %s" % type(s).__name__)
    walk(stmts)
    return out


def mutation(s):
    """`x.append(e)` / `x.extend(e)` as a statement -> (x, method, arg node)"""
    if isinstance(s, ast.Expr) and isinstance(s.value, ast.Call):
        c = s.value
        if isinstance(c.func, ast.Attribute) and isinstance(c.func.value, ast.Name) \
                and c.func.attr in ("append", "extend") and len(c.args) == 1 and not c.keywords:
            return c.func.value.id, c.func.attr, c.args[0]
    return None


def terminates(stmts):
    """every path through the block ends in return/raise/continue"""
    if not stmts:
        return False
    last = stmts[-1]
    if isinstance(last, (ast.Return, ast.Raise, ast.Continue)):
        return True
    if isinstance(last, ast.If):
        return terminates(last.body) and terminates(last.orelse)
    return False


class Ctx:
    """Where control goes: `ret(text)` wraps a term of the function's final result
    type, `fall(env, ind)` is the text for reaching the end of the block,
    `cont(env, ind)` the text for `continue` (None outside loops)."""

    def __init__(self, ret, fall, cont=None):
        self.ret, self.fall, self.cont = ret, fall, cont

    def with_fall(self, fall):
        return Ctx(self.ret, fall, self.cont)


class Fn:
    def __init__(self, node, spec, ptypes, partial):
        self.node = node
        self.name = node.name
        self.spec = spec          # parameter -> None | True | False | str   (specialised)
        self.ptypes = ptypes      # ordinary parameter -> type
        self.partial = partial
        self.ret = None           # raw return type
        self.mode = set()
        self.reassigned = set() if node.name == "set_mode" else set(stores(node.body))
        self.self_attrs = None    # set_mode context: self.X -> (text, type)
        self.owned = {}


class Unit2:
    def __init__(self, filename="data.py"):
        self.filename = filename
        with open(os.path.join(tc.SRC, filename)) as fh:
            self.tree = ast.parse(fh.read())
        self.funcs, self.globals, self.modules = {}, set(), set()
        for node in self.tree.body:
            if isinstance(node, ast.FunctionDef):
                self.funcs[node.name] = None if node.name in self.funcs else node
            elif isinstance(node, (ast.Import, ast.ImportFrom)):
                for a in node.names:
                    self.modules.add(a.asname or a.name)
            elif isinstance(node, ast.Assign):
                for t in node.targets:
                    if isinstance(t, ast.Name):
                        self.globals.add(t.id)
            elif isinstance(node, ast.ClassDef):
                self.globals.add(node.name)
        self.p1 = tc.Unit(filename, None)
        self.p1.cal = tc.calendar_info(self.p1)
        self.cal = self.p1.cal
        self.done, self.busy, self.order = {}, set(), []

    # ------------------------------------------------------------ helpers
    def is_calendar(self, n, env):
        return (isinstance(n, ast.Attribute) and isinstance(n.value, ast.Name)
                and n.value.id == "CALENDAR" and "CALENDAR" not in env)

    def class_const_ok(self, attr):
        consts, mode_assigned = self.cal
        if attr not in consts or attr in mode_assigned:
            raise Reject("CALENDAR.%s is not a mode-independent class constant" % attr)

    def builtin(self, f, env, fx):
        return (f in BUILTINS and f not in env and f not in fx.spec and f not in self.funcs
                and f not in self.globals and f not in self.modules)

    def storable(self, name, env, fx):
        if name in fx.spec:
            raise Reject("assignment to the specialised parameter %s" % name)
        if name in ("CALENDAR", "time", "self") or name in self.funcs or name in BUILTINS \
                or name in self.globals or name in self.modules:
            raise Reject("local %s shadows a global or builtin" % name)

    def static_of(self, n, fx):
        """(True, value) when the expression node is a specialised value"""
        if isinstance(n, ast.Constant) and (n.value is None or isinstance(n.value, (bool, str))):
            return True, n.value
        if isinstance(n, ast.Name) and n.id in fx.spec:
            return True, fx.spec[n.id]
        return False, None

    def pattern(self, tgt, ty, env, fx, bound):
        """assignment/loop target against a type -> (coq pattern, needs a quote?)"""
        if isinstance(tgt, ast.Name):
            self.storable(tgt.id, env, fx)
            if tgt.id in bound:
                raise Reject("name %s twice in one target" % tgt.id)
            if is_res(ty) or ty == NONE:
                raise Reject("binding a value of type %s" % (ty,))
            bound[tgt.id] = ty
            return "v_" + tgt.id, False
        if isinstance(tgt, ast.Tuple):
            if not (is_tuple(ty) and len(ty[1]) == len(tgt.elts) and len(tgt.elts) >= 2):
                raise Reject("target shape does not match %s" % (ty,))
            return self.tuple_pattern(list(zip(tgt.elts, ty[1])), env, fx, bound), True
        raise Reject("target %s" % type(tgt).__name__)

    def tuple_pattern(self, pairs, env, fx, bound):
        # Coq tuples nest to the left: (a, b, c) is ((a, b), c); a nested Python
        # tuple is parenthesised explicitly
        return "(" + ", ".join(self.pattern(e, t, env, fx, bound)[0] for e, t in pairs) + ")"

    @staticmethod
    def binder(pat, quoted):
        return ("'" + pat) if quoted else pat

    # ------------------------------------------------------------ expressions
    def expr(self, n, env, fx):
        """-> (coq text, type, statically known value (True/False) or None)"""
        if isinstance(n, ast.Constant):
            v = n.value
            if v is True:
                return "true", B, True
            if v is False:
                return "false", B, False
            if isinstance(v, int):
                return zlit(v), Z, None
            raise Reject("constant %r" % (v,))
        if isinstance(n, ast.Name):
            if n.id in fx.spec:
                v = fx.spec[n.id]
                if v is True:
                    return "true", B, True
                if v is False:
                    return "false", B, False
                raise Reject("specialised parameter %s (= %r) used as a value" % (n.id, v))
            if n.id in env:
                return "v_" + n.id, env[n.id], None
            raise Reject("name %s is not a (definitely) bound local" % n.id)
        if isinstance(n, ast.UnaryOp):
            if isinstance(n.op, ast.USub):
                if isinstance(n.operand, ast.Constant) and type(n.operand.value) is int:
                    return zlit(-n.operand.value), Z, None
                t, ty, _ = self.expr(n.operand, env, fx)
                if ty != Z:
                    raise Reject("unary minus on %s" % (ty,))
                return "(- %s)" % t, Z, None
            if isinstance(n.op, ast.Not):
                t, c = self.test(n.operand, env, fx)
                if c is not None:
                    return ("false" if c else "true"), B, (not c)
                return "(negb %s)" % t, B, None
            raise Reject("unary operator %s" % type(n.op).__name__)
        if isinstance(n, ast.BinOp):
            return self.binop(n, env, fx)
        if isinstance(n, ast.Compare):
            return self.compare(n, env, fx)
        if isinstance(n, ast.BoolOp):
            is_and = isinstance(n.op, ast.And)
            parts = []
            for v in n.values:
                t, ty, c = self.expr(v, env, fx)
                if ty != B:
                    raise Reject("and/or of a non-bool outside test position")
                if c is not None:
                    if c == (not is_and):   # short circuit: the rest is never evaluated
                        if parts:
                            parts.append(t)
                            break
                        return t, B, c
                    continue
                parts.append(t)
            return tc.Unit.join_bool(parts, is_and)
        if isinstance(n, ast.IfExp):
            c, k = self.test(n.test, env, fx)
            if k is not None:
                return self.expr(n.body if k else n.orelse, env, fx)
            a, ta, _ = self.expr(n.body, env, fx)
            b, tb, _ = self.expr(n.orelse, env, fx)
            if ta != tb:
                raise Reject("conditional expression of two types")
            return "(if %s then %s else %s)" % (c, a, b), ta, None
        if isinstance(n, ast.Tuple):
            if len(n.elts) < 2:
                raise Reject("tuple of fewer than two elements")
            parts = [self.expr(e, env, fx) for e in n.elts]
            for p in parts:
                if is_res(p[1]) or p[1] == NONE:
                    raise Reject("tuple component of type %s" % (p[1],))
            return ("(" + ", ".join(p[0] for p in parts) + ")",
                    T(*[p[1] for p in parts]), None)
        if isinstance(n, ast.List):
            if not n.elts:
                raise Reject("empty list display outside `x = []`")
            parts = [self.expr(e, env, fx) for e in n.elts]
            if any(p[1] != parts[0][1] for p in parts) or is_res(parts[0][1]):
                raise Reject("list display of mixed types")
            return "[" + "; ".join(p[0] for p in parts) + "]", L(parts[0][1]), None
        if isinstance(n, ast.Attribute):
            return self.attribute(n, env, fx)
        if isinstance(n, ast.Subscript):
            return self.subscript(n, env, fx)
        if isinstance(n, ast.Call):
            t, ty = self.call(n, env, fx)
            if is_res(ty):
                raise Reject("call of the partial function %s inside an expression"
                             % ast.unparse(n.func))
            return t, ty, None
        if isinstance(n, (ast.ListComp, ast.GeneratorExp)):
            if isinstance(n, ast.GeneratorExp):
                raise Reject("generator expression outside sum()/list()/extend()/for")
            t, ty = self.iterable(n, env, fx)
            return t, ty, None
        raise Reject("expression %s" % type(n).__name__)

    def binop(self, n, env, fx):
        ops = {ast.Add: "+", ast.Sub: "-", ast.Mult: "*", ast.FloorDiv: "/", ast.Mod: "mod"}
        if type(n.op) not in ops:
            raise Reject("binary operator %s" % type(n.op).__name__)
        if isinstance(n.op, ast.Add) and isinstance(n.left, ast.Tuple) and n.left.elts:
            # (e1, ..) + t : tuple concatenation with a tuple-typed right operand
            left = [self.expr(e, env, fx) for e in n.left.elts]
            b, tb, _ = self.expr(n.right, env, fx)
            if is_tuple(tb) and all(x[1] == Z for x in left) and all(x == Z for x in tb[1]):
                k = len(tb[1])
                names = ["t%d_" % i for i in range(k)]
                return ("(let '(%s) := %s in (%s))" % (
                    ", ".join(names), b, ", ".join([x[0] for x in left] + names)),
                    T(*([Z] * (len(left) + k))), None)
            raise Reject("tuple concatenation shape")
        a, ta, _ = self.expr(n.left, env, fx)
        b, tb, _ = self.expr(n.right, env, fx)
        if ta != Z or tb != Z:
            raise Reject("arithmetic on %s, %s" % (ta, tb))
        return "(%s %s %s)" % (a, ops[type(n.op)], b), Z, None

    def test(self, n, env, fx):
        """An expression in truth-value position -> (bool text, static value)."""
        if isinstance(n, ast.BoolOp):
            is_and = isinstance(n.op, ast.And)
            parts = []
            for v in n.values:
                t, c = self.test(v, env, fx)
                if c is not None:
                    if c == (not is_and):
                        if parts:
                            parts.append(t)
                            break
                        return t, c
                    continue
                parts.append(t)
            t, _, c = tc.Unit.join_bool(parts, is_and)
            return t, c
        if isinstance(n, ast.UnaryOp) and isinstance(n.op, ast.Not):
            t, c = self.test(n.operand, env, fx)
            if c is not None:
                return ("false" if c else "true"), (not c)
            return "(negb %s)" % t, None
        if isinstance(n, ast.Name) and n.id in fx.spec and fx.spec[n.id] is None:
            return "false", False      # None is falsy
        t, ty, c = self.expr(n, env, fx)
        if ty == B:
            return t, c
        if ty == Z:
            return "(negb (%s =? 0))" % t, None
        raise Reject("truth value of %s" % (ty,))

    def compare(self, n, env, fx):
        if len(n.ops) > 1:
            # a op b op c  ==  (a op b) and (b op c), the middle operand evaluated once:
            # accepted when every operand is a local name (pure, cannot differ)
            operands = [n.left] + list(n.comparators)
            if not all(isinstance(o, ast.Name) for o in operands):
                raise Reject("chained comparison of non-names")
            parts = []
            for op, a, b in zip(n.ops, operands, operands[1:]):
                t, _, c = self.compare(ast.Compare(left=a, ops=[op], comparators=[b]), env, fx)
                if c is not None:
                    raise Reject("chained comparison decided statically")
                parts.append(t)
            return tc.Unit.join_bool(parts, True)
        op, left, right = n.ops[0], n.left, n.comparators[0]
        sl, vl = self.static_of(left, fx)
        sr, vr = self.static_of(right, fx)
        if sl or sr:
            # at least one side is None / a bool / a string known at translation time
            def held(node, is_static, val):
                if is_static:
                    return val
                if isinstance(node, ast.Name) and node.id in fx.ptypes and fx.ptypes[node.id] == Z \
                        and node.id not in fx.reassigned:
                    return 0       # some int
                _t, ty, _c = self.expr(node, env, fx)
                if ty == Z:
                    return 0
                raise Reject("comparison of %s with a non-int constant" % ast.unparse(node))
            a, b = held(left, sl, vl), held(right, sr, vr)
            if isinstance(a, bool) or isinstance(b, bool):
                raise Reject("comparison with a bool constant")
            if isinstance(op, (ast.Is, ast.IsNot)):
                if not (a is None or b is None):
                    raise Reject("`is` on non-None")
                r = ((a is None) and (b is None)) == isinstance(op, ast.Is)
            elif isinstance(op, (ast.Eq, ast.NotEq)):
                r = (a == b and type(a) is type(b)) == isinstance(op, ast.Eq)
                if a == 0 and b == 0:
                    raise Reject("internal: two ints")
            else:
                raise Reject("ordering comparison with a non-int (TypeError at run time)")
            return ("true" if r else "false"), B, r
        a, ta, _ = self.expr(left, env, fx)
        b, tb, _ = self.expr(right, env, fx)
        if ta == Z and tb == Z:
            f = {ast.Eq: "(%s =? %s)", ast.NotEq: "(negb (%s =? %s))", ast.Lt: "(%s <? %s)",
                 ast.LtE: "(%s <=? %s)"}
            if type(op) in f:
                return f[type(op)] % (a, b), B, None
            if isinstance(op, ast.Gt):      # a > b  is  b < a  (pure operands)
                return "(%s <? %s)" % (b, a), B, None
            if isinstance(op, ast.GtE):
                return "(%s <=? %s)" % (b, a), B, None
            raise Reject("comparison operator %s" % type(op).__name__)
        if ta == tb and is_tuple(ta) and all(x == Z for x in ta[1]) and len(ta[1]) in (2, 3):
            k = len(ta[1])     # Python compares int tuples lexicographically
            f = {ast.Lt: "(tup%d_ltb %s %s)" % (k, a, b), ast.Gt: "(tup%d_ltb %s %s)" % (k, b, a),
                 ast.LtE: "(negb (tup%d_ltb %s %s))" % (k, b, a),
                 ast.GtE: "(negb (tup%d_ltb %s %s))" % (k, a, b),
                 ast.Eq: "(tup%d_eqb %s %s)" % (k, a, b),
                 ast.NotEq: "(negb (tup%d_eqb %s %s))" % (k, a, b)}
            if type(op) in f:
                return f[type(op)], B, None
        raise Reject("comparison of %s with %s" % (ta, tb))

    def attribute(self, n, env, fx):
        if fx.self_attrs is not None and isinstance(n.value, ast.Name) and n.value.id == "self":
            if n.attr in fx.self_attrs:
                t, ty = fx.self_attrs[n.attr]
                return t, ty, None
            raise Reject("self.%s is not one of the two month tables" % n.attr)
        if self.is_calendar(n, env):
            consts, mode_assigned = self.cal
            for a, ty in MODE_ATTRS:
                if a == n.attr:
                    if a not in mode_assigned:
                        raise Reject("CALENDAR.%s is not assigned by set_mode" % a)
                    fx.mode.add(a)
                    return "c_" + a, ty, None
            if n.attr in CLASS_CONSTS:
                self.class_const_ok(n.attr)
                return n.attr, CLASS_CONSTS[n.attr], None
            raise Reject("CALENDAR.%s is outside the translated attributes" % n.attr)
        raise Reject("attribute %s" % ast.unparse(n))

    def subscript(self, n, env, fx):
        if isinstance(n.slice, ast.Constant) and isinstance(n.slice.value, str):
            v = n.value
            if (self.is_calendar(v, env) and v.attr == "WEEK_DAY_START_REFERENCE"
                    and n.slice.value in WEEK_REF):
                self.class_const_ok("WEEK_DAY_START_REFERENCE")
                name, ty = WEEK_REF[n.slice.value]
                return name, ty, None
            raise Reject("string subscript")
        lst, tl, _ = self.expr(n.value, env, fx)
        if isinstance(n.slice, ast.Slice):
            s = n.slice
            if s.upper is not None or s.step is not None or s.lower is None or not is_list(tl):
                raise Reject("slice other than L[k:]")
            k, tk, _ = self.expr(s.lower, env, fx)
            if tk != Z:
                raise Reject("slice bound of type %s" % (tk,))
            return "(py_slice_from %s %s)" % (lst, k), tl, None
        idx, ti, _ = self.expr(n.slice, env, fx)
        if tl != LZ or ti != Z:
            raise Reject("subscript %s[%s]" % (tl, ti))
        # assumption (as in phase 1): 0 <= index < len at run time
        return "(nth (Z.to_nat %s) %s 0)" % (idx, lst), Z, None

    def iterable(self, n, env, fx):
        """An expression in iterable position -> (text, list type)."""
        if isinstance(n, (ast.ListComp, ast.GeneratorExp)):
            if len(n.generators) != 1:
                raise Reject("comprehension with several `for` clauses")
            g = n.generators[0]
            if g.ifs or g.is_async:
                raise Reject("comprehension with `if`/async")
            src, ts = self.iterable(g.iter, env, fx)
            bound = {}
            pat, q = self.pattern(g.target, ts[1], env, fx, bound)
            env2 = dict(env)
            env2.update(bound)      # comprehension variables are local to it
            for nm in bound:
                if nm in fx.spec:
                    raise Reject("comprehension variable shadows a specialised parameter")
            e, te, _ = self.expr(n.elt, env2, fx)
            if is_res(te) or te == NONE:
                raise Reject("comprehension element of type %s" % (te,))
            return "(map (fun %s => %s) %s)" % (self.binder(pat, q), e, src), L(te)
        t, ty, _ = self.expr(n, env, fx)
        if not is_list(ty):
            raise Reject("iteration over %s" % (ty,))
        return t, ty

    def call(self, n, env, fx):
        """-> (text, type); the type is RES(t) for a partial callee"""
        if not isinstance(n.func, ast.Name):
            raise Reject("call of %s" % ast.unparse(n.func))
        f = n.func.id
        if self.builtin(f, env, fx):
            return self.call_builtin(f, n, env, fx)
        if f in env or f in fx.spec:
            raise Reject("call of a local")
        node = self.funcs.get(f)
        if node is None:
            raise Reject("call of %s, which is not a unique module-level function of %s"
                         % (f, self.filename))
        a = node.args
        if a.posonlyargs or a.vararg or a.kwonlyargs or a.kwarg or a.kw_defaults:
            raise Reject("%s: parameters other than positional ones" % f)
        params = [p.arg for p in a.args]
        if len(set(params)) != len(params):
            raise Reject("%s: parameter list" % f)
        if any(isinstance(x, ast.Starred) for x in n.args) or any(k.arg is None for k in n.keywords):
            raise Reject("starred argument")
        if len(n.args) > len(params):
            raise Reject("call of %s with %d arguments" % (f, len(n.args)))
        given = dict(zip(params, n.args))
        for k in n.keywords:
            if k.arg not in params or k.arg in given:
                raise Reject("keyword argument %s of %s" % (k.arg, f))
            given[k.arg] = k.value
        defaults = dict(zip(params[len(params) - len(a.defaults):], a.defaults))
        spec, ptypes, args = {}, {}, []
        for p in params:
            if p in given:
                arg = given[p]
            elif p in defaults:
                arg = defaults[p]
                if not (isinstance(arg, ast.Constant) and (
                        arg.value is None or isinstance(arg.value, (bool, int, str)))):
                    raise Reject("%s: default of %s is not a constant" % (f, p))
            else:
                raise Reject("call of %s without %s" % (f, p))
            if p == "_":
                if not (p in given and self.is_calendar(arg, env) and arg.attr == "mode"):
                    raise Reject("cache-key argument of %s is not CALENDAR.mode" % f)
                continue
            if p in given:
                st, val = self.static_of(arg, fx)
            else:   # a default is evaluated in the callee's module scope: constants only
                st = arg.value is None or isinstance(arg.value, (bool, str))
                val = arg.value
            if st:
                spec[p] = val
                continue
            if p in given:
                t, ty, _ = self.expr(arg, env, fx)
            else:
                t, ty = zlit(arg.value), Z
            if ty not in (Z, B) and not is_list(ty):
                raise Reject("argument of type %s" % (ty,))
            ptypes[p] = ty
            args.append(t)
        try:
            callee = self.function(f, spec, ptypes)
        except Reject as exc:
            raise Reject("call of %s, which is outside the subset: %s" % (f, exc))
        fx.mode |= set(callee["mode"])
        head = [callee["coq"]] + ["c_" + m for m in callee["mode"]]
        return "(" + " ".join(head + args) + ")", callee["ret"]

    def call_builtin(self, f, n, env, fx):
        if n.keywords or any(isinstance(x, ast.Starred) for x in n.args):
            raise Reject("%s with keyword/starred arguments" % f)
        na = len(n.args)

        def zarg(i):
            t, ty, _ = self.expr(n.args[i], env, fx)
            if ty != Z:
                raise Reject("%s argument of type %s" % (f, ty))
            return t
        if f == "range":
            if na == 1:
                return "(py_range 0 %s)" % zarg(0), LZ
            if na == 2:
                return "(py_range %s %s)" % (zarg(0), zarg(1)), LZ
            if na == 3:
                st = n.args[2]
                if isinstance(st, ast.UnaryOp) and isinstance(st.op, ast.USub) \
                        and isinstance(st.operand, ast.Constant) and st.operand.value == 1 \
                        and type(st.operand.value) is int:
                    return "(py_range_down %s %s)" % (zarg(0), zarg(1)), LZ
                if isinstance(st, ast.Constant) and type(st.value) is int and st.value == 1:
                    return "(py_range %s %s)" % (zarg(0), zarg(1)), LZ
            raise Reject("range() shape")
        if f == "reversed" and na == 1:
            t, ty = self.iterable(n.args[0], env, fx)
            return "(rev %s)" % t, ty
        if f == "list" and na == 1:
            return self.iterable(n.args[0], env, fx)
        if f == "enumerate" and na in (1, 2):
            t, ty = self.iterable(n.args[0], env, fx)
            k = zarg(1) if na == 2 else "0"
            return "(py_enumerate %s %s)" % (k, t), L(T(Z, ty[1]))
        if f == "sum" and na == 1:
            t, ty = self.iterable(n.args[0], env, fx)
            if ty != LZ:
                raise Reject("sum over %s" % (ty,))
            return "(py_sum %s)" % t, Z
        if f == "len" and na == 1:
            t, ty = self.iterable(n.args[0], env, fx)
            return "(Z.of_nat (List.length %s))" % t, Z
        if f == "divmod" and na == 2:
            a, b = zarg(0), zarg(1)
            return "((%s / %s), (%s mod %s))" % (a, b, a, b), T(Z, Z)
        raise Reject("%s() shape" % f)

    # ------------------------------------------------------------ statements
    def block(self, stmts, env, ctx, fx, ind):
        if not stmts:
            return ctx.fall(env, ind)
        return self.stmt(stmts[0], stmts[1:], env, ctx, fx, ind)

    def need_partial(self, fx):
        if not fx.partial:
            raise NeedPartial()

    def stmt(self, s, rest, env, ctx, fx, ind):
        pad = "  " * ind
        nxt = lambda e: self.block(rest, e, ctx, fx, ind)  # noqa: E731
        if isinstance(s, ast.Expr) and isinstance(s.value, ast.Constant) \
                and isinstance(s.value.value, str) and fx.node.body and s is fx.node.body[0]:
            return nxt(env)  # docstring
        if isinstance(s, ast.Pass):
            return nxt(env)
        if isinstance(s, ast.Return):
            if rest:
                raise Reject("statement after return")
            if s.value is None:
                raise Reject("return without a value")
            if isinstance(s.value, ast.Call) and isinstance(s.value.func, ast.Name) \
                    and not self.builtin(s.value.func.id, env, fx):
                t, ty = self.call(s.value, env, fx)
                if is_res(ty):       # return g(..): the callee's outcome is ours
                    self.need_partial(fx)
                    self.set_ret(fx, ty[1])
                    return pad + ctx.ret(t)
            else:
                t, ty, _ = self.expr(s.value, env, fx)
            if ty == NONE or is_res(ty):
                raise Reject("return of %s" % (ty,))
            self.set_ret(fx, ty)
            return pad + ctx.ret(("(Ret %s)" % t) if fx.partial else t)
        if isinstance(s, ast.Raise):
            if rest:
                raise Reject("statement after raise")
            e = s.exc
            if s.cause is not None or not (isinstance(e, ast.Call) and isinstance(e.func, ast.Name)
                                           and e.func.id == "ValueError"
                                           and "ValueError" not in env and "ValueError" not in self.funcs
                                           and "ValueError" not in self.globals):
                raise Reject("raise of something other than ValueError(...)")
            # the message expression is not evaluated by the translation (str % of ints)
            self.need_partial(fx)
            return pad + ctx.ret("(Abn RaiseValueError)")
        if isinstance(s, ast.Continue):
            if ctx.cont is None:
                raise Reject("continue outside a translated loop")
            if rest:
                raise Reject("statement after continue")
            return ctx.cont(env, ind)
        if isinstance(s, ast.Assign):
            return self.assign(s, rest, env, ctx, fx, ind)
        if isinstance(s, ast.AugAssign):
            if not isinstance(s.target, ast.Name) or not isinstance(s.op, (ast.Add, ast.Sub)):
                raise Reject("augmented assignment other than local +=/-=")
            x = s.target.id
            self.storable(x, env, fx)
            if env.get(x) != Z:
                raise Reject("%s is not a bound Z local at +=/-=" % x)
            t, ty, _ = self.expr(s.value, env, fx)
            if ty != Z:
                raise Reject("+=/-= of %s" % (ty,))
            op = "+" if isinstance(s.op, ast.Add) else "-"
            return pad + "let v_%s := (v_%s %s %s) in\n" % (x, x, op, t) + nxt(env)
        if isinstance(s, ast.Expr):
            m = mutation(s)
            if not m:
                raise Reject("expression statement %s" % ast.unparse(s)[:40])
            x, meth, arg = m
            if x not in fx.owned or not is_list(env.get(x)):
                raise Reject("%s.%s: %s is not a list bound by a list display" % (x, meth, x))
            if meth == "append":
                t, ty, _ = self.expr(arg, env, fx)
                if ty != env[x][1]:
                    raise Reject("append of %s to %s" % (ty, env[x]))
                return pad + "let v_%s := (v_%s ++ [%s])%%list in\n" % (x, x, t) + nxt(env)
            t, ty = self.iterable(arg, env, fx)
            if ty != env[x]:
                raise Reject("extend of %s by %s" % (env[x], ty))
            return pad + "let v_%s := (v_%s ++ %s)%%list in\n" % (x, x, t) + nxt(env)
        if isinstance(s, ast.If):
            return self.if_stmt(s, rest, env, ctx, fx, ind)
        if isinstance(s, ast.For):
            return self.for_stmt(s, rest, env, ctx, fx, ind)
        raise Reject("statement %s" % type(s).__name__)

    @staticmethod
    def set_ret(fx, ty):
        if fx.ret is None:
            fx.ret = ty
        elif fx.ret != ty:
            raise Reject("returns of two types: %s, %s" % (coq_type(fx.ret), coq_type(ty)))

    def assign(self, s, rest, env, ctx, fx, ind):
        pad = "  " * ind
        if len(s.targets) != 1:
            raise Reject("multiple assignment")
        tgt = s.targets[0]
        if isinstance(s.value, ast.List) and not s.value.elts:
            # x = []: the element type is taken from the x.append/x.extend sites
            if not isinstance(tgt, ast.Name) or tgt.id not in fx.owned:
                raise Reject("empty list display bound to something other than an owned name")
            self.storable(tgt.id, env, fx)
            env2 = dict(env)
            env2[tgt.id] = fx.owned[tgt.id]
            return pad + "let v_%s := (@nil %s) in\n" % (tgt.id, coq_type(fx.owned[tgt.id][1])) + \
                self.block(rest, env2, ctx, fx, ind)
        partial_call = False
        if isinstance(s.value, ast.Call) and isinstance(s.value.func, ast.Name) \
                and not self.builtin(s.value.func.id, env, fx):
            t, ty = self.call(s.value, env, fx)
            partial_call = is_res(ty)
        else:
            t, ty, _ = self.expr(s.value, env, fx)
        vty = ty[1] if partial_call else ty
        bound = {}
        pat, q = self.pattern(tgt, vty, env, fx, bound)
        if isinstance(tgt, ast.Name) and tgt.id in fx.owned:
            raise Reject("%s is mutated by append/extend but bound by something other than []" % tgt.id)
        env2 = dict(env)
        env2.update(bound)
        body = self.block(rest, env2, ctx, fx, ind + 1 if partial_call else ind)
        if not partial_call:
            return pad + "let %s := %s in\n" % (self.binder(pat, q), t) + body
        # the callee may not have returned a value
        self.need_partial(fx)
        conv = "unpack_abn" if q else "store_abn"
        return "%smatch %s with\n%s| Ret %s =>\n%s\n%s| Abn o_ => %s\n%send" % (
            pad, t, pad, pat, body, pad, ctx.ret("(Abn (%s o_))" % conv), pad)

    def if_stmt(self, s, rest, env, ctx, fx, ind):
        pad = "  " * ind
        c, k = self.test(s.test, env, fx)
        if k is not None:  # decided statically: only that branch exists
            br = s.body if k else s.orelse
            return self.block(br + ([] if terminates(br) else rest), env, ctx, fx, ind)
        if contains([s], (ast.Return, ast.Raise, ast.Continue)):
            # the rest of the block continues every branch that can fall through
            a = self.block(s.body + ([] if terminates(s.body) else rest), env, ctx, fx, ind + 1)
            b = self.block(s.orelse + ([] if terminates(s.orelse) else rest), env, ctx, fx, ind + 1)
            return "%sif %s then\n%s\n%selse\n%s" % (pad, c, a, pad, b)
        ends = []

        def probe(e, _ind):
            ends.append(e)
            return "tt"
        pctx = ctx.with_fall(probe)
        self.block(s.body, env, pctx, fx, 0)
        self.block(s.orelse, env, pctx, fx, 0)
        if len(ends) != 2:
            raise Reject("internal: branch ends")
        changed = stores([s])
        merged = []
        for nm in changed:
            if nm in ends[0] and nm in ends[1]:
                if ends[0][nm] != ends[1][nm]:
                    raise Reject("%s has two types after if" % nm)
                merged.append(nm)
        if not merged:
            raise Reject("if statement without effect on definitely-bound locals")
        env2 = {k2: v for k2, v in env.items() if k2 not in changed}
        for nm in merged:
            env2[nm] = ends[0][nm]

        def out(e, i):
            tup = ", ".join("v_" + nm for nm in merged)
            return "  " * i + (("(" + tup + ")") if len(merged) > 1 else tup)
        octx = ctx.with_fall(out)
        a = self.block(s.body, env, octx, fx, ind + 2)
        b = self.block(s.orelse, env, octx, fx, ind + 2)
        pat = ("'(" + ", ".join("v_" + nm for nm in merged) + ")") if len(merged) > 1 \
            else "v_" + merged[0]
        return "%slet %s :=\n%s  if %s then\n%s\n%s  else\n%s in\n" % (
            pad, pat, pad, c, a, pad, b) + self.block(rest, env2, ctx, fx, ind)

    def for_stmt(self, s, rest, env, ctx, fx, ind):
        pad = "  " * ind
        if s.orelse:
            raise Reject("for/else")
        try:
            lst, tl = self.iterable(s.iter, env, fx)
        except Reject as exc:
            raise Reject("for over `%s`: %s" % (ast.unparse(s.iter), exc))
        if contains(s.body, ast.Break):
            raise Reject("break in a for body")
        assigned = stores(s.body)
        bound = {}
        itpat, q = self.pattern(s.target, tl[1], env, fx, bound)
        for t in bound:
            if t in env or t in assigned or t in fx.spec:
                raise Reject("loop target %s rebinds a local" % t)
        if names_loaded(s.iter) & set(assigned):
            raise Reject("loop body assigns a name of the iterated expression")
        accs = [nm for nm in assigned if nm in env]
        benv = dict(env)
        benv.update(bound)
        with_ret = contains(s.body, (ast.Return, ast.Raise))
        if not accs and not with_ret:
            raise Reject("for loop without an accumulator bound before it")
        tup = ", ".join("v_" + nm for nm in accs)
        if len(accs) > 1:
            accpat, init, acc_ty = "'(%s)" % tup, "(%s)" % tup, T(*[env[nm] for nm in accs])
        elif accs:
            accpat, init, acc_ty = tup, tup, env[accs[0]]
        else:
            accpat, init, acc_ty = "_", "tt", U

        def state(e, i, wrap):
            for nm in accs:
                if e.get(nm) != env[nm]:
                    raise Reject("accumulator %s changes type" % nm)
            return "  " * i + wrap % (init if accs else "tt")
        head = "let %s := acc_ in let %s := it_ in" % (accpat, self.binder(itpat, q))
        # body-local temporaries and loop targets are unbound after the loop
        env2 = dict(env)
        if not with_ret:
            bctx = Ctx(None, lambda e, i: state(e, i, "%s"), lambda e, i: state(e, i, "%s"))
            bctx.ret = self.no_return
            body = self.block(s.body, benv, bctx, fx, ind + 2)
            text = ("%slet %s :=\n%s  fold_left (fun (acc_ : %s) (it_ : %s) =>\n%s    %s\n%s)\n"
                    "%s  %s %s in\n") % (pad, accpat, pad, coq_type(acc_ty), coq_type(tl[1]),
                                         pad, head, body, pad, lst, init)
            return text + self.block(rest, env2, ctx, fx, ind)
        # a body that can return: inl (final result) | inr (state)
        bctx = Ctx(lambda t: "inl %s" % t, lambda e, i: state(e, i, "inr %s"),
                   lambda e, i: state(e, i, "inr %s"))
        body = self.block(s.body, benv, bctx, fx, ind + 2)
        after = self.block(rest, env2, ctx, fx, ind + 1)
        return ("%smatch for_ret %s (fun (acc_ : %s) (it_ : %s) =>\n%s    %s\n%s)\n%s  %s with\n"
                "%s| inl r_ => %s\n%s| inr %s =>\n%s\n%send") % (
            pad, lst, coq_type(acc_ty), coq_type(tl[1]), pad, head, body, pad, init,
            pad, ctx.ret("r_"), pad, accpat if accs else "_", after, pad)

    @staticmethod
    def no_return(_t):
        raise Reject("internal: return in a fold_left body")

    # ------------------------------------------------------------ functions
    @staticmethod
    def variant_suffix(params, spec, ptypes):
        if not spec and all(ptypes.get(p, Z) == Z for p in params):
            return ""
        code = []
        for p in params:
            if p == "_":
                continue
            if p in spec:
                v = spec[p]
                code.append("N" if v is None else "T" if v is True else "F" if v is False
                            else "s" + "".join(ch for ch in v if ch.isalnum()))
            else:
                ty = ptypes[p]
                code.append("z" if ty == Z else "b" if ty == B else "l")
        return "__" + "".join(code)

    def function(self, name, spec, ptypes):
        node = self.funcs.get(name)
        if node is None:
            raise Reject("%s: no unique module-level def in %s" % (name, self.filename))
        params = [p.arg for p in node.args.args]
        suffix = self.variant_suffix(params, spec, ptypes)
        key = (name, suffix, tuple(sorted((k, repr(v)) for k, v in spec.items())),
               tuple(sorted(ptypes.items())))
        if key in self.done:
            return self.done[key]
        if key in self.busy:
            raise Reject("recursion through %s" % name)
        if name in PHASE1 and not suffix:
            # the phase-1 translation of this function (gen/GenCode.v) is referred to
            r = self.p1.function(name, {}, False)
            res = {"coq": r["coq"], "mode": list(r["mode"]), "ret": p1_type(r["ret"]),
                   "text": None, "src": r["src"], "note": "", "partial": False}
            if r["ext"]:
                raise Reject("%s reads the process environment" % name)
            self.done[key] = res
            return res
        for other in self.done:
            if other[0] == name and other[1] == suffix:
                raise Reject("two variants of %s with the same name" % name)
        self.busy.add(key)
        try:
            try:
                res = self.function_body(node, spec, ptypes, suffix, False)
            except NeedPartial:
                res = self.function_body(node, spec, ptypes, suffix, True)
        finally:
            self.busy.discard(key)
        self.done[key] = res
        self.order.append(key)
        return res

    def owned_lists(self, node):
        """names mutated by append/extend -> list type; they must be bound only by `x = []`
        and loaded only as the receiver, in `return x`, or as a loop iterable (no aliases)"""
        owned = {}
        for n in ast.walk(node):
            if isinstance(n, ast.Expr):
                m = mutation(n)
                if m:
                    owned.setdefault(m[0], []).append(m)
        out = {}
        for x, sites in owned.items():
            shapes = set()
            for _x, meth, arg in sites:
                elt = arg
                if meth == "extend":
                    if not isinstance(arg, (ast.GeneratorExp, ast.ListComp)):
                        raise Reject("%s.extend of something other than a comprehension" % x)
                    elt = arg.elt
                if isinstance(elt, ast.Tuple) and len(elt.elts) >= 2 and \
                        not any(isinstance(e, (ast.Tuple, ast.List)) for e in elt.elts):
                    shapes.add(T(*[Z] * len(elt.elts)))   # checked at the site
                else:
                    shapes.add(Z)
            if len(shapes) != 1:
                raise Reject("%s: appended values of several shapes" % x)
            out[x] = L(shapes.pop())
            allowed = set()
            for n in ast.walk(node):
                if isinstance(n, ast.Expr) and mutation(n) and mutation(n)[0] == x:
                    allowed.add(id(n.value.func.value))
                elif isinstance(n, ast.Return) and isinstance(n.value, ast.Name):
                    allowed.add(id(n.value))
                elif isinstance(n, ast.For) and isinstance(n.iter, ast.Name):
                    allowed.add(id(n.iter))
            for n in ast.walk(node):
                if isinstance(n, ast.Name) and n.id == x:
                    if isinstance(n.ctx, ast.Load) and id(n) not in allowed:
                        raise Reject("%s is mutated and also read elsewhere (aliasing)" % x)
            for n in ast.walk(node):
                if isinstance(n, ast.Assign):
                    for t in n.targets:
                        for nm in ast.walk(t):
                            if isinstance(nm, ast.Name) and nm.id == x and not (
                                    isinstance(t, ast.Name) and isinstance(n.value, ast.List)
                                    and not n.value.elts):
                                raise Reject("%s is mutated but not bound by `%s = []`" % (x, x))
                elif isinstance(n, (ast.AugAssign, ast.For, ast.comprehension)):
                    for nm in ast.walk(n.target):
                        if isinstance(nm, ast.Name) and nm.id == x:
                            raise Reject("%s is mutated and rebound" % x)
        return out

    def function_body(self, node, spec, ptypes, suffix, partial):
        a = node.args
        for d in node.decorator_list:
            if not (isinstance(d, ast.Call) and (
                    isinstance(d.func, ast.Name) and d.func.id == "lru_cache"
                    or isinstance(d.func, ast.Attribute) and d.func.attr == "lru_cache"
                    and isinstance(d.func.value, ast.Name) and d.func.value.id == "functools")):
                raise Reject("%s: decorator %s" % (node.name, ast.unparse(d)))
        for sub in ast.walk(node):
            if isinstance(sub, (ast.FunctionDef, ast.Lambda, ast.Global, ast.Nonlocal, ast.Yield,
                                ast.YieldFrom, ast.Try, ast.With, ast.While, ast.Delete,
                                ast.NamedExpr, ast.Await)) and sub is not node:
                raise Reject("%s: %s" % (node.name, type(sub).__name__))
        fx = Fn(node, spec, ptypes, partial)
        fx.owned = self.owned_lists(node)
        params, env = [], {}
        for p in a.args:
            if p.arg == "_" or p.arg in spec:
                continue
            if p.arg not in ptypes:
                raise Reject("%s: no type for parameter %s" % (node.name, p.arg))
            params.append(p.arg)
            env[p.arg] = ptypes[p.arg]

        def off_end(_e, ind):
            self.need_partial(fx)      # Python returns None
            return "  " * ind + "(Abn RetNone)"
        body = self.block(list(node.body), env, Ctx(lambda t: t, off_end), fx, 1)
        if fx.ret is None:
            raise Reject("%s: no return" % node.name)
        ret = RES(fx.ret) if partial else fx.ret
        mode = [m for m, _ in MODE_ATTRS if m in fx.mode]
        coq = "py_" + node.name + suffix
        binders = ["(c_%s : %s)" % (m, coq_type(dict(MODE_ATTRS)[m])) for m in mode] + \
                  ["(v_%s : %s)" % (p, coq_type(env[p])) for p in params]
        text = "Definition %s %s: %s :=\n%s." % (
            coq, "".join(b + " " for b in binders), coq_type(ret), body)
        note = ""
        if spec:
            note = " with " + ", ".join("%s = %r" % kv for kv in sorted(spec.items(), key=str))
        # a small total arithmetic helper (no loop): proofs may unfold it wherever it is called
        helper = (not partial and "fold_left" not in body and "for_ret" not in body
                  and all(env[p] == Z for p in params)
                  and (ret == Z or (is_tuple(ret) and all(x == Z for x in ret[1]))))
        return {"coq": coq, "mode": mode, "ret": ret, "text": text, "partial": partial,
                "src": "%s: %s" % (self.filename, node.name), "note": note, "helper": helper}

    # ------------------------------------------------------------ Calendar.set_mode
    def set_mode_indexed(self, attr):
        """The right-hand side of `self.<attr> = ...` in Calendar.set_mode as a function of
        the two month tables (dim, diml)."""
        _consts, cls = translate.calendar_class_constants(self.tree)
        sm = None
        for st in cls.body:
            if isinstance(st, ast.FunctionDef) and st.name == "set_mode":
                sm = st
        if sm is None:
            raise Reject("Calendar.set_mode not found")
        tables = {"DAYS_IN_MONTHS": "dim", "DAYS_IN_MONTHS_LEAP": "diml"}

        def selfattr(n):
            if isinstance(n, ast.Attribute) and isinstance(n.value, ast.Name) and n.value.id == "self":
                return n.attr
            return None
        target = None
        alias = {}       # local -> table it was assigned to (same object)
        seen = set()
        for st in sm.body:
            # any write to a table attribute or to an alias other than the plain top-level ones
            if isinstance(st, ast.Assign) and len(st.targets) == 1:
                a = selfattr(st.targets[0])
                if a in tables:
                    if a in seen or not isinstance(st.value, ast.Name) or st.value.id in alias:
                        raise Reject("set_mode: %s is not assigned once from a distinct local" % a)
                    seen.add(a)
                    alias[st.value.id] = a
                    continue
                if a == attr:
                    if target is not None:
                        raise Reject("set_mode assigns %s twice" % attr)
                    if seen != set(tables):
                        raise Reject("set_mode assigns %s before the month tables" % attr)
                    target = st.value
                    continue
            for n in ast.walk(st):
                if isinstance(n, ast.Attribute) and isinstance(n.ctx, ast.Store) and \
                        (selfattr(n) in tables or selfattr(n) == attr):
                    raise Reject("set_mode: conditional write to %s" % selfattr(n))
                if seen and isinstance(n, ast.Name) and isinstance(n.ctx, ast.Store) and n.id in alias:
                    raise Reject("set_mode rebinds %s after assigning the month tables" % n.id)
        if target is None:
            raise Reject("set_mode does not assign %s" % attr)
        fx = Fn(sm, {}, {}, False)
        fx.owned = {}
        fx.self_attrs = {a: (v, LZ) for a, v in tables.items()}
        env = {nm: LZ for nm in alias}
        t, ty, _ = self.expr(target, env, fx)
        if ty != LZZ:
            raise Reject("set_mode: %s has type %s" % (attr, ty))
        lets = "".join("let v_%s := %s in " % (nm, tables[a]) for nm, a in sorted(alias.items()))
        return "Definition sm_%s (dim diml : list Z) : list (Z * Z) :=\n  %s%s." % (attr, lets, t)


# entry points (every parameter an int); every one must be translated and is proved equal
# to the model in coq/Proofs/GenCode2Ok.v
REQUIRED = [
    "get_ordinal_date_from_calendar_date",
    "get_calendar_date_from_ordinal_date",
    "_get_calendar_date_week_date_start",
    "get_calendar_date_week_date_start",
    "_get_ordinal_date_week_date_start",
    "get_ordinal_date_week_date_start",
    "_get_weeks_in_year",
    "get_weeks_in_year",
    "get_calendar_date_from_week_date",
    "get_week_date_from_calendar_date",
    "get_ordinal_date_from_week_date",
    "get_week_date_from_ordinal_date",
]
# attempted on every run, definition emitted when inside the subset; nothing depends on them:
# (function, specialisation, types of the other parameters, why it is not proved)
ATTEMPTED = [
    ("iter_months_days", {"in_reverse": True}, {"year": Z, "month_of_year": Z, "day_of_month": Z},
     "iter_months_days(year, month_of_year=m, day_of_month=d, in_reverse=True): no caller among the "
     "covered functions (its only caller is the method TimePoint._tick_over_day_of_month, object "
     "state) and no counterpart in Model/Helpers.v"),
]
SM_ATTRS = ["INDEXED_DAYS_IN_MONTHS", "INDEXED_DAYS_IN_MONTHS_LEAP"]

HEAD = (
    "(* GENERATED by tools/translate_code2.py from the function bodies of\n"
    "   metomi/isodatetime/data.py.  Do not edit.\n"
    "   v_<name>: Python parameter/local; c_<ATTR>: CALENDAR.<ATTR> (assigned by\n"
    "   Calendar.set_mode) at call time; upper-case names: class constants from\n"
    "   gen/CalTables.v; py_<f>__<codes>: the variant of f for one shape of call\n"
    "   (per parameter: z int, b bool, l list, N None, T True, F False). *)\n"
    "From Coq Require Import ZArith List Bool String.\n"
    "From Iso Require Import gen.CalTables gen.GenCode.\n"
    "Import ListNotations.\nOpen Scope Z_scope.\n\n"
    "(* how a call of a function that may not return a value ends *)\n"
    "Inductive abn : Type :=\n"
    "| RetNone            (* control reached the end of the def: the result is None *)\n"
    "| RaiseValueError    (* raise ValueError(...) *)\n"
    "| RaiseTypeError     (* a None result was unpacked into several targets *)\n"
    "| NoneStored.        (* a None result was bound to a local: not followed further *)\n"
    "Inductive res (A : Type) : Type := Ret (a : A) | Abn (o : abn).\n"
    "Arguments Ret {A} a.\nArguments Abn {A} o.\n"
    "Definition unpack_abn (o : abn) : abn := match o with RetNone => RaiseTypeError | _ => o end.\n"
    "Definition store_abn (o : abn) : abn := match o with RetNone => NoneStored | _ => o end.\n\n"
    "(* for <item> in l: <body> where the body may `return`: inl r once `return r`\n"
    "   has fired (the remaining iterations are skipped), inr s while running *)\n"
    "Definition for_ret {R S E : Type} (l : list E) (body : S -> E -> R + S) (s : S) : R + S :=\n"
    "  fold_left (fun acc it => match acc with inl r => inl r | inr s => body s it end) l (inr s).\n\n"
    "Fixpoint range_up (a : Z) (n : nat) : list Z :=\n"
    "  match n with O => [] | S k => a :: range_up (a + 1) k end.\n"
    "Fixpoint range_down (a : Z) (n : nat) : list Z :=\n"
    "  match n with O => [] | S k => a :: range_down (a - 1) k end.\n"
    "(* range(a, b) and range(a, b, -1) *)\n"
    "Definition py_range (a b : Z) : list Z := range_up a (Z.to_nat (b - a)).\n"
    "Definition py_range_down (a b : Z) : list Z := range_down a (Z.to_nat (a - b)).\n"
    "Fixpoint py_enumerate {A : Type} (k : Z) (l : list A) : list (Z * A) :=\n"
    "  match l with [] => [] | x :: r => (k, x) :: py_enumerate (k + 1) r end.\n"
    "(* l[k:], negative k counted from the end, out-of-range clipped *)\n"
    "Definition py_slice_from {A : Type} (l : list A) (k : Z) : list A :=\n"
    "  skipn (Z.to_nat (if k <? 0 then Z.of_nat (List.length l) + k else k)) l.\n"
    "Definition py_sum (l : list Z) : Z := fold_left Z.add l 0.\n"
    "(* int tuples compare lexicographically *)\n"
    "Definition tup2_ltb (a b : Z * Z) : bool :=\n"
    "  let '(a1, a2) := a in let '(b1, b2) := b in (a1 <? b1) || ((a1 =? b1) && (a2 <? b2)).\n"
    "Definition tup2_eqb (a b : Z * Z) : bool :=\n"
    "  let '(a1, a2) := a in let '(b1, b2) := b in (a1 =? b1) && (a2 =? b2).\n"
    "Definition tup3_ltb (a b : Z * Z * Z) : bool :=\n"
    "  let '(a1, a2, a3) := a in let '(b1, b2, b3) := b in\n"
    "  (a1 <? b1) || ((a1 =? b1) && ((a2 <? b2) || ((a2 =? b2) && (a3 <? b3)))).\n"
    "Definition tup3_eqb (a b : Z * Z * Z) : bool :=\n"
    "  let '(a1, a2, a3) := a in let '(b1, b2, b3) := b in (a1 =? b1) && (a2 =? b2) && (a3 =? b3).\n"
    "(* loop-free arithmetic helpers called from the translated functions (unfolded by the proofs) *)\n"
    "Create HintDb gencode2_helpers.\n\n")


def entry_types(node):
    """an entry point: every parameter an int, none specialised"""
    a = node.args
    if a.defaults or a.posonlyargs or a.vararg or a.kwonlyargs or a.kwarg or a.kw_defaults:
        raise Reject("%s: entry point with parameters other than plain positional ones" % node.name)
    return {p.arg: Z for p in a.args if p.arg != "_"}


def build_text():
    failures, body, covered, rejected = [], [], [], []
    emitted = set()
    unit = Unit2("data.py")

    def flush(u):
        for key in list(u.order):   # callees first, each once
            r = u.done[key]
            if r["text"] is not None and r["coq"] not in emitted:
                emitted.add(r["coq"])
                hint = ""
                if r["helper"] and key[0] not in REQUIRED:
                    hint = "#[global] Hint Unfold %s : gencode2_helpers.\n" % r["coq"]
                body.append("(* %s%s *)\n%s\n%s" % (r["src"], r["note"], r["text"], hint))

    for attr in SM_ATTRS:
        try:
            body.append("(* data.py: Calendar.set_mode, self.%s *)\n%s\n" % (
                attr, unit.set_mode_indexed(attr)))
            covered.append("sm_" + attr)
        except Exception as exc:  # fail closed on anything, translator bugs included
            failures.append(("sm_" + attr, "%s: %s" % (type(exc).__name__, exc)))
            body.append("(* Calendar.set_mode %s: REJECTED: %s *)\nDefinition sm_%s : unit := tt.\n"
                        % (attr, clean(exc), attr))
    for name in REQUIRED:
        coq = "py_" + name
        try:
            node = unit.funcs.get(name)
            if node is None:
                raise Reject("%s: no unique module-level def" % name)
            unit.function(name, {}, entry_types(node))
            flush(unit)
            covered.append(coq)
        except Exception as exc:
            failures.append((coq, "%s: %s" % (type(exc).__name__, exc)))
            if coq not in emitted:
                emitted.add(coq)
                body.append("(* %s: REJECTED: %s *)\nDefinition %s : unit := tt.\n"
                            % (name, clean(exc), coq))
    extra = []
    for name, spec, ptypes, why in ATTEMPTED:
        u = Unit2("data.py")    # separate state: a failure must not leave half-translated callees
        u.done = dict(unit.done)
        try:
            res = u.function(name, dict(spec), dict(ptypes))
            unit.done = u.done
            unit.order = unit.order + [k for k in u.order if k not in unit.order]
            flush(unit)
            extra.append(res["coq"])
            rejected.append((res["coq"], "translated (definition emitted), not proved: " + why))
        except Exception as exc:
            rejected.append((name, "%s" % exc))
    body.append("Definition COVERED_code2 : list string :=\n  [%s]%%string." % "; ".join(
        coq_str(c) for c in covered))
    body.append("(* translated on this run but not proved equal to the model *)\n"
                "Definition UNPROVED_code2 : list string :=\n  [%s]%%string." % "; ".join(
                    coq_str(c) for c in extra))
    body.append("(* not covered (attempted on every run, reason recorded; nothing depends on them) *)\n"
                "Definition REJECTED_code2 : list (string * string) :=\n  [%s]%%string." % ";\n   ".join(
                    "(%s, %s)" % (coq_str(a), coq_str(clean(b))) for a, b in rejected))
    if failures:
        body.append("".join("(* REJECTED: %s: %s *)\n" % (c, clean(w)) for c, w in failures) +
                    "Definition translator_ok_code2 : bool := false.")
    else:
        body.append("Definition translator_ok_code2 : bool := true.")
    return HEAD + "\n".join(body) + "\n"


def gen_code2():
    try:
        text = build_text()
    except Exception as exc:  # fail closed
        text = HEAD + "(* REJECTED: %s: %s *)\n" % (type(exc).__name__, clean(exc)) + "".join(
            "Definition py_%s : unit := tt.\n" % n for n in REQUIRED) + "".join(
            "Definition sm_%s : unit := tt.\n" % n for n in SM_ATTRS) + \
            "Definition translator_ok_code2 : bool := false.\n"
    return write_if_changed("GenCode2.v", text)


if __name__ == "__main__":
    os.makedirs(translate.OUT, exist_ok=True)
    print("translate_code2: %s" % ("regenerated GenCode2.v" if gen_code2() else "nothing changed"))
