#!/venv/bin/python
"""Differential smoke test of the TRANSLATOR translate_code6.py (not of the model):
evaluate the generated definitions of gen/GenCode6.v (add_truncated,
get_truncated_properties, __add__ with a TimePoint operand, both operand orders)
by vm_compute on random full / truncated TimePoints and compare with what the real
package returns (PYTHONPATH=$ISO_REPO, default /repo).

Whole numbers and binary-exact fractions only, so CPython's float arithmetic is
exact and must agree with the Q semantics.  A call of the package that does not
return within the per-case timeout is expected to run out of fuel in the
generated code (FUEL iterations).  The Coq tree is $G6_COQ (default /verif/coq; it
must contain the compiled gen/GenCode6.vo and Proofs/GenCode4Ok.vo).
Usage: tools/gencode6_diff.py [ncases] [seed]
"""
import os
import random
import shutil
import signal
import subprocess
import sys

sys.path.insert(0, os.path.dirname(os.path.abspath(__file__)))
import gencode4_diff as g  # noqa: E402  (sets sys.path for the package)
from metomi.isodatetime.data import TimePoint, CALENDAR  # noqa: E402
from metomi.isodatetime import data  # noqa: E402

COQ = os.environ.get("G6_COQ", g.COQ)
OUT = "/tmp/gencode6_diff"
FUEL = 3100


class Hang(Exception):
    pass


def _alarm(_sig, _frm):
    raise Hang()


def outcome(fn, seconds=2):
    signal.signal(signal.SIGALRM, _alarm)
    signal.setitimer(signal.ITIMER_REAL, seconds)
    try:
        return ("ok", fn())
    except Hang:
        return ("hang", None)
    except ValueError:
        return ("raise", "ValueError")
    except TypeError:
        return ("raise", "TypeError")
    finally:
        signal.setitimer(signal.ITIMER_REAL, 0)


def rand_trunc(rng, mode):
    kw = dict(truncated=True)
    shape = rng.choice(["time", "time", "dow", "dom", "doy", "week", "weekday", "dom+time", "doy+time", "dow+time"])
    if "time" in shape:
        fields = rng.choice([("h",), ("h", "m"), ("h", "m", "s"), ("m",), ("m", "s"), ("s",)])
        if "h" in fields:
            kw["hour_of_day"] = rng.choice([0, 6, 12, 23, rng.randint(0, 23)])
        if "m" in fields:
            kw["minute_of_hour"] = rng.choice([0, 30, 59, rng.randint(0, 59)])
        if "s" in fields:
            kw["second_of_minute"] = rng.choice([0, 30, 59, rng.randint(0, 59)])
    maxdom = 30 if mode == "360day" else 31
    maxdoy = {"360day": 360, "365day": 365}.get(mode, 366)
    maxweek = 52 if mode == "360day" else 53
    if shape.startswith("dom"):
        kw["day_of_month"] = rng.choice([1, 28, 29, maxdom, rng.randint(1, maxdom)])
    if shape.startswith("doy"):
        kw["day_of_year"] = rng.choice([1, 60, 360, maxdoy, rng.randint(1, maxdoy)])
    if shape.startswith("dow"):
        kw["day_of_week"] = rng.randint(1, 7)
    if shape == "week":
        kw["week_of_year"] = rng.choice([1, 52, maxweek, rng.randint(1, maxweek)])
    if shape == "weekday":
        kw["week_of_year"] = rng.choice([1, 52, maxweek, rng.randint(1, maxweek)])
        kw["day_of_week"] = rng.randint(1, 7)
    if rng.random() < 0.3:
        zh, zm = g.rand_zone(rng)
        kw["time_zone_hour"], kw["time_zone_minute"] = zh, zm
    return TimePoint(**kw)


def props(d):
    if d is None:
        return "None"
    order = ["year_of_century", "year_of_decade", "month_of_year", "week_of_year", "day_of_year",
             "day_of_month", "day_of_week"]
    return "(Some (mkTruncProps %s %s))" % (
        " ".join(g.oz(d.get(k)) for k in order),
        " ".join(g.oq(d.get(k)) for k in ["hour_of_day", "minute_of_hour", "second_of_minute"]))


def main():
    n = int(sys.argv[1]) if len(sys.argv) > 1 else 60
    rng = random.Random(int(sys.argv[2]) if len(sys.argv) > 2 else 20261001)
    checks, hangs = [], 0
    for _i in range(n):
        mode = rng.choice(list(g.MODES))
        CALENDAR.set_mode(mode)
        cal = "(cal_of %s)" % g.MODES[mode]
        p, _tform = g.rand_point(rng)
        if rng.random() < 0.7:      # whole seconds: the regime in which the loops end
            for a in ("_hour_of_day", "_minute_of_hour", "_second_of_minute"):
                v = getattr(p, a)
                if v is not None:
                    setattr(p, a, int(v))
        t = rand_trunc(rng, mode)
        P, T = g.tp(p), g.tp(t)
        pre = "%d %s" % (FUEL, cal)
        for a, b, fuel_extra in ((T, P, 0), (P, T, 0)):
            x, y = (t, p) if a is T else (p, t)
            res = outcome(lambda: x + y)
            call = "py_TimePoint___add____TimePoint %s %s %s" % (pre, a, b)
            if res[0] == "ok":
                checks.append("tp_is (%s) %s" % (call, g.tp(res[1])))
            elif res[0] == "hang":
                hangs += 1
                checks.append("out_of_fuel (%s)" % call)
            else:
                checks.append("raises (%s) %s" % (call, res[1]))
        d = t.get_truncated_properties()
        checks.append("props_is (py_TimePoint_get_truncated_properties %s %s) %s" % (pre, T, props(d)))
        checks.append("props_is (py_TimePoint_get_truncated_properties %s %s) None" % (pre, P))
        # add_truncated called directly with the dict
        res = outcome(lambda: p.add_truncated(**d))
        order = ["year_of_century", "year_of_decade", "month_of_year", "week_of_year", "day_of_year",
                 "day_of_month", "day_of_week"]
        args = " ".join(g.oz(d.get(k)) for k in order) + " " + " ".join(
            g.oq(d.get(k)) for k in ["hour_of_day", "minute_of_hour", "second_of_minute"])
        call = "py_TimePoint_add_truncated %s %s %s" % (pre, P, args)
        if res[0] == "ok":
            checks.append("tp_is (%s) %s" % (call, g.tp(res[1])))
        elif res[0] == "hang":
            hangs += 1
            checks.append("out_of_fuel (%s)" % call)
        else:
            checks.append("raises (%s) %s" % (call, res[1]))
    CALENDAR.set_mode("gregorian")
    shutil.rmtree(OUT, ignore_errors=True)
    os.makedirs(OUT)
    with open(os.path.join(OUT, "Diff6.v"), "w") as fh:
        fh.write('''From Coq Require Import QArith List Bool String.
From Iso Require Import Proofs.Tac Spec.Cal Model.Helpers gen.CalTables gen.GenCode4 gen.GenCode6
  Proofs.GenCode4Base Proofs.GenCode4Ok.
Import ListNotations.
Open Scope Z_scope.
Definition props_eqb (a b : pyTruncProps) : bool :=
  oz_eqb (k_year_of_century a) (k_year_of_century b) && oz_eqb (k_year_of_decade a) (k_year_of_decade b) &&
  oz_eqb (k_month_of_year a) (k_month_of_year b) && oz_eqb (k_week_of_year a) (k_week_of_year b) &&
  oz_eqb (k_day_of_year a) (k_day_of_year b) && oz_eqb (k_day_of_month a) (k_day_of_month b) &&
  oz_eqb (k_day_of_week a) (k_day_of_week b) && oq_eqb (k_hour_of_day a) (k_hour_of_day b) &&
  oq_eqb (k_minute_of_hour a) (k_minute_of_hour b) && oq_eqb (k_second_of_minute a) (k_second_of_minute b).
Definition props_is (m : exc (option pyTruncProps)) (v : option pyTruncProps) : bool :=
  match m, v with Ok (Some a), Some b => props_eqb a b | Ok None, None => true | _, _ => false end.
Definition exn_eqb (a b : pyexn) := match a, b with
  | TypeError, TypeError | ValueError, ValueError | ZeroDivisionError, ZeroDivisionError => true | _, _ => false end.
Definition raises {A} (m : exc A) (e : pyexn) := match m with Raise x => exn_eqb x e | _ => false end.
Definition checks : list bool := [
  ''' + ";\n  ".join(checks) + '''].
Definition failing := filter (fun p => negb (snd p))
  (combine (map Z.of_nat (seq 0 (length checks))) checks).
Eval vm_compute in (map fst failing).
Example all_agree : forallb (fun x => x) checks = true.
Proof. vm_compute. reflexivity. Qed.
''')
    r = subprocess.run("ulimit -v 8000000; timeout 3000 coqc -Q %s Iso -Q . Diff Diff6.v" % COQ,
                       shell=True, cwd=OUT, capture_output=True, text=True)
    print("%d checks on %d random cases (%d package calls did not return in time): %s" % (
        len(checks), n, hangs, "ALL AGREE" if r.returncode == 0 else "DISAGREE"))
    if r.returncode != 0:
        out = r.stdout + r.stderr
        print(out[-1500:])
        import re
        m = re.search(r"= \[([^\]]*)\]", out)
        if m:
            for idx in [int(x) for x in m.group(1).replace("\n", " ").split(";") if x.strip()][:10]:
                print("  failing check %d: %s" % (idx, checks[idx][:1500]))
    if not os.environ.get("G6_KEEP"):
        shutil.rmtree(OUT, ignore_errors=True)
    return r.returncode


if __name__ == "__main__":
    sys.exit(main())
