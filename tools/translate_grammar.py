"""Grammar part of the translator: the parser's compiled regexes and the
dumper's templates, regenerated from the package's own tables, fail closed."""
import os
import re
import sys
from re import _parser as sre_parse
from re import _constants as sre_c

sys.path.insert(0, os.path.dirname(os.path.abspath(__file__)))
from translate import Reject, write_if_changed, coq_str, coq_list, REPO  # noqa: E402


def digits_class(node):
    op, av = node
    return op is sre_c.IN and av == [(sre_c.RANGE, (48, 57))]


def regex_tokens(pattern):
    """A compiled date/time/zone regex as a list of ptok (Coq text)."""
    tree = sre_parse.parse(pattern)
    names = {v: k for k, v in tree.state.groupdict.items()}
    items = list(tree)
    if not items or items[0] != (sre_c.AT, sre_c.AT_BEGINNING) or items[-1] != (sre_c.AT, sre_c.AT_END):
        raise Reject("regex not anchored: %r" % pattern)
    toks = []
    for op, av in items[1:-1]:
        if op is sre_c.LITERAL:
            toks.append(("L", chr(av)))
        elif op is sre_c.SUBPATTERN:
            gid, add_flags, del_flags, body = av
            name = names.get(gid)
            if name is None or add_flags or del_flags:
                raise Reject("unnamed group or flags in %r" % pattern)
            body = list(body)
            if all(digits_class(n) for n in body):
                toks.append(("D", name, len(body)))      # an empty body is [0-9]{0}
            elif len(body) == 1 and body[0][0] is sre_c.MAX_REPEAT and \
                    body[0][1][0] == 1 and body[0][1][1] == sre_c.MAXREPEAT and \
                    len(list(body[0][1][2])) == 1 and digits_class(list(body[0][1][2])[0]):
                toks.append(("P", name))
            elif len(body) == 1 and body[0][0] is sre_c.IN and \
                    sorted(body[0][1]) == [(sre_c.LITERAL, 43), (sre_c.LITERAL, 45)]:
                toks.append(("S", name))
            elif all(n[0] is sre_c.LITERAL for n in body) and body:
                toks.append(("G", name, "".join(chr(n[1]) for n in body)))
            elif pattern_is_unix(body):
                toks.append(("U", name))
            else:
                raise Reject("unsupported group body in %r" % pattern)
        else:
            raise Reject("unsupported regex node %s in %r" % (op, pattern))
    # merge adjacent literals
    out = []
    for t in toks:
        if t[0] == "L" and out and out[-1][0] == "L":
            out[-1] = ("L", out[-1][1] + t[1])
        else:
            out.append(t)
    return out


def pattern_is_unix(body):
    """-?[0-9]+[,.]?[0-9]*  (the optional minus sign since fix F17)"""
    try:
        sg, a, b, c = body
    except ValueError:
        return False
    if not (sg[0] is sre_c.MAX_REPEAT and sg[1][0] == 0 and sg[1][1] == 1 and
            list(sg[1][2]) == [(sre_c.LITERAL, 45)]):
        return False
    ok_a = a[0] is sre_c.MAX_REPEAT and a[1][0] == 1 and a[1][1] == sre_c.MAXREPEAT and digits_class(list(a[1][2])[0])
    ok_b = b[0] is sre_c.MAX_REPEAT and b[1][0] == 0 and b[1][1] == 1 and \
        list(b[1][2])[0][0] is sre_c.IN and sorted(list(b[1][2])[0][1]) == [(sre_c.LITERAL, 44), (sre_c.LITERAL, 46)]
    ok_c = c[0] is sre_c.MAX_REPEAT and c[1][0] == 0 and c[1][1] == sre_c.MAXREPEAT and digits_class(list(c[1][2])[0])
    return bool(ok_a and ok_b and ok_c)


def ptok_coq(t):
    if t[0] == "L":
        return "PLit %s" % coq_str(t[1])
    if t[0] == "D":
        return "PDig %s %d" % (coq_str(t[1]), t[2])
    if t[0] == "P":
        return "PDigs %s" % coq_str(t[1])
    if t[0] == "S":
        return "PSign %s" % coq_str(t[1])
    if t[0] == "G":
        return "PGrp %s %s" % (coq_str(t[1]), coq_str(t[2]))
    return "PUnix %s" % coq_str(t[1])


TEMPLATE_RE = re.compile(r"%\((\w+)\)(0(\d+)d|s)")


def template_tokens(expr):
    out = []
    pos = 0
    for m in TEMPLATE_RE.finditer(expr):
        if m.start() > pos:
            out.append("DLit %s" % coq_str(expr[pos:m.start()]))
        if m.group(2) == "s":
            out.append("DStr %s" % coq_str(m.group(1)))
        else:
            out.append("DNum %s %d" % (coq_str(m.group(1)), int(m.group(3))))
        pos = m.end()
    if pos < len(expr):
        out.append("DLit %s" % coq_str(expr[pos:]))
    if "%" in TEMPLATE_RE.sub("", expr):
        raise Reject("unsupported %%-template %r" % expr)
    return out


def dump_part(dumper, key, text):
    """What TimePointDumper._get_expression_and_properties does to one part."""
    props = []
    for rec, format_sub, prop in dumper._rec_formats[key]:
        new = rec.sub(format_sub, text)
        if new != text and prop is not None:
            props.append(prop)
        text = new
    return text, props


def form_coq(fkey, tkey, expr, regex, dumper, key):
    tmpl, props = dump_part(dumper, key, expr)
    return "mkForm %s %s %s %s %s %s" % (
        coq_str(fkey), coq_str(tkey), coq_str(expr),
        coq_list(ptok_coq(t) for t in regex_tokens(regex.pattern)),
        coq_list(template_tokens(tmpl)), coq_list(coq_str(p) for p in props))


def gen_grammar():
    head = ("(* GENERATED by tools/translate_grammar.py from the tables the package itself compiles\n"
            "   (TimePointParser._generate_regexes, TimePointDumper._rec_formats, parser_spec). Do not edit. *)\n"
            "From Coq Require Import List String.\nFrom Iso Require Import Model.Forms.\n"
            "Import ListNotations.\nOpen Scope string_scope.\n\n")
    try:
        if REPO not in sys.path:
            sys.path.insert(0, REPO)
        for m in [k for k in sys.modules if k.startswith("metomi")]:
            del sys.modules[m]
        os.environ.setdefault("TZ", "UTC")
        from metomi.isodatetime import parsers, parser_spec, dumpers
        body = []
        for n in (0, 2, 3):
            par = parsers.TimePointParser(num_expanded_year_digits=n, allow_truncated=True)
            dmp = dumpers.TimePointDumper(num_expanded_year_digits=n)
            rows = []
            for fkey, tmap in par._date_regex_map.items():
                for tkey, lst in tmap.items():
                    for rx, expr in lst:
                        rows.append(form_coq(fkey, tkey, expr, rx, dmp, "date"))
            body.append("Definition DATE_FORMS_%d : list form :=\n  [ %s ]." % (n, ";\n    ".join(rows)))
        par = parsers.TimePointParser(allow_truncated=True)
        dmp = dumpers.TimePointDumper()
        rows = []
        for fkey, tmap in par._time_regex_map.items():
            for tkey, lst in tmap.items():
                for rx, expr in lst:
                    rows.append(form_coq(fkey, tkey, expr, rx, dmp, "time"))
        body.append("Definition TIME_FORMS : list form :=\n  [ %s ]." % ";\n    ".join(rows))
        rows = []
        for fkey, lst in par._time_zone_regex_map.items():
            for rx, expr in lst:
                rows.append(form_coq(fkey, "", expr, rx, dmp, "time_zone"))
        body.append("Definition ZONE_FORMS : list form :=\n  [ %s ]." % ";\n    ".join(rows))
        # the order of keys the parser iterates
        body.append("Definition DATE_TYPE_ORDER : list string := %s." % coq_list(coq_str(k) for k in ["complete", "truncated", "reduced"]))
        src = open(os.path.join(REPO, "metomi", "isodatetime", "parsers.py")).read()
        if 'type_keys = ["complete", "truncated", "reduced"]' not in src:
            raise Reject("get_date_info type key order changed")
        body.append("Definition TIME_DESIGNATOR : string := %s." % coq_str(parser_spec.TIME_DESIGNATOR))
        # strftime / strptime directives
        rows = []
        for d in sorted(parser_spec.STRFTIME_TRANSLATE_INFO):
            dump_expr, dump_props = parser_spec.translate_strftime_token(d)
            parse_rx, parse_props = parser_spec.translate_strptime_token(d)
            rows.append("(%s, (%s, %s, %s))" % (
                coq_str(d), coq_list(template_tokens(dump_expr)), coq_list(coq_str(p) for p in dump_props),
                coq_list(ptok_coq(t) for t in regex_tokens("^" + parse_rx + "$"))))
        body.append("Definition STRFTIME_TABLE : list (string * (list dtok * list string * list ptok)) :=\n  [ %s ]." % ";\n    ".join(rows))
        rows = []
        for k, v in sorted(parser_spec.STRPTIME_EXCLUSIVE_GROUP_INFO.items()):
            rows.append("(%s, %s)" % (coq_str(k), coq_list(coq_str(x) for x in v)))
        body.append("Definition STRPTIME_EXCLUSIVE : list (string * list string) := %s." % coq_list(rows))
        if parser_spec.REC_SPLIT_STRFTIME_DIRECTIVE.pattern != r"(%\w)" or \
                parser_spec.REC_STRFTIME_DIRECTIVE_TOKEN.pattern != r"^%\w$":
            raise Reject("strftime directive splitting regex changed")
        body.append("Definition translator_ok_grammar : bool := true.")
        text = head + "\n\n".join(body) + "\n"
    except Exception as exc:  # fail closed on anything
        text = head + "(* REJECTED: %s: %s *)\nDefinition translator_ok_grammar : bool := false.\n" % (
            type(exc).__name__, str(exc).replace("*)", "* )"))
    return write_if_changed("Grammar.v", text)
