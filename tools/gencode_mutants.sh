#!/bin/bash
# Demonstration for gen/GenCode.v: a change to the BODY of a translated function
# changes the generated Coq and breaks its equality lemma.
# Works on scratch copies only (/tmp/gencode_repo, /tmp/gencode_coq); neither
# /repo nor /verif/coq is written.  Usage: tools/gencode_mutants.sh
set -u
TOOLS="$(cd "$(dirname "$0")" && pwd)"
COQ="$TOOLS/../coq"
REPO_SCRATCH=/tmp/gencode_repo
COQ_SCRATCH=/tmp/gencode_coq
ulimit -v 8000000

fresh_tree() {   # a Coq tree sharing every compiled file except GenCode / GenCodeOk
  rm -rf "$COQ_SCRATCH"; mkdir -p "$COQ_SCRATCH/gen" "$COQ_SCRATCH/Proofs"
  for d in Spec Model; do ln -s "$COQ/$d" "$COQ_SCRATCH/$d"; done
  for f in "$COQ"/gen/*.vo "$COQ"/Proofs/*.vo; do
    case "$f" in */GenCode.vo|*/GenCodeOk.vo) ;; *) ln -s "$f" "$COQ_SCRATCH/${f#$COQ/}";; esac
  done
  cp "$COQ/Proofs/GenCodeOk.v" "$COQ_SCRATCH/Proofs/"
}

run() {  # name file old new
  echo "=== $1: $2: \`$3\` -> \`$4\`"
  rm -rf "$REPO_SCRATCH"; cp -r /repo "$REPO_SCRATCH"
  if [ -n "$3" ]; then
    /venv/bin/python - "$REPO_SCRATCH/metomi/isodatetime/$2" "$3" "$4" <<'EOF' || exit 2
import sys
path, old, new = sys.argv[1:]
s = open(path).read()
assert s.count(old) == 1, "expected exactly one occurrence of %r, found %d" % (old, s.count(old))
open(path, "w").write(s.replace(old, new))
EOF
  fi
  fresh_tree
  ISO_REPO="$REPO_SCRATCH" VERIF_GEN_OUT="$COQ_SCRATCH/gen" /venv/bin/python "$TOOLS/translate_code.py"
  if diff -q "$COQ/gen/GenCode.v" "$COQ_SCRATCH/gen/GenCode.v" >/dev/null; then
    echo "generated file: UNCHANGED"
  else
    echo "generated file: CHANGED"; diff "$COQ/gen/GenCode.v" "$COQ_SCRATCH/gen/GenCode.v" | head -20
  fi
  grep -n "translator_ok_code : bool" "$COQ_SCRATCH/gen/GenCode.v"
  (cd "$COQ_SCRATCH" && timeout 900 coqc -Q . Iso gen/GenCode.v && echo "gen/GenCode.v: compiles" &&
   if timeout 900 coqc -Q . Iso Proofs/GenCodeOk.v 2>&1 | head -12; [ "${PIPESTATUS[0]}" -eq 0 ]; then
     echo "Proofs/GenCodeOk.v: COMPILES"; else echo "Proofs/GenCodeOk.v: FAILS"; fi)
  rm -rf "$REPO_SCRATCH" "$COQ_SCRATCH"
}

run "control (no change)" data.py "" ""
run "mutant (a)" data.py "if year % factor == 0" "if year % factor == 1"
run "mutant (b)" timezone.py "sign * 60" "60"
run "mutant (c) off-by-one in the bounded search" data.py "factor_start_year = start_year + 1" "factor_start_year = start_year + 2"
run "mutant (d) leaves the subset" data.py "    return get_days_in_year_range(1, year)" "    return sum(get_days_in_year(y) for y in range(1, year + 1))"
run "equivalent rewrite (e): lemma proved arithmetically, should still COMPILE" timezone.py "sign = -1 if utc_offset_seconds < 0 else 1" "sign = -1 if utc_offset_seconds <= 0 else 1"
