#!/usr/bin/env python3
"""The scenario of `Example C19_code_ex` (coq/Props/C19Code.v) evaluated on the REAL package
(/venv/bin/python, PYTHONPATH=$ISO_REPO or /repo): DateTimeOperator.process_time_point_str /
diff_time_point_strs.  Prints the expected Coq values; `--check` compares them with the Props file."""
import os
import re
import sys
import time

REPO = os.environ.get("ISO_REPO", "/repo")
sys.path.insert(0, REPO)
from metomi.isodatetime.datetimeoper import DateTimeOperator  # noqa: E402

G, D360 = "gregorian", "360day"
# (mode, utc, local zone, text, offsets, print format)
SHIFTS = [
    (G, False, (0, 0), "2000-01-01T00Z", ["PT30M"], None),
    (G, False, (0, 0), "2000-01-01T00:00:00", ["PT30M", "-P1D"], None),
    (G, False, (5, 30), "20000101T000000", ["P1M"], None),
    (G, True, (5, 30), "2000-W01-1T06:00+05:30", ["-PT1M"], None),
    (G, False, (0, 0), "2000-001T12:30,5Z", ["PT1H"], "CCYY-MM-DDThh:mm:ssZ"),
    (G, False, (0, 0), "2000-02-30T00Z", [], None),
    (G, False, (0, 0), "2000-01-01T00Z", ["PT1H", "1H", "PT2H"], None),
    (G, False, (0, 0), "2000-01-01T00Z", ["+P1D", ""], "%Y/%m/%d %H"),
    (D360, False, (0, 0), "2000-02-30T00Z", ["P1D"], None),
    (G, True, (0, 0), "2000-01-01T00:00:00", ["-P1Y"], None),
    (G, False, (0, 0), "9999-12-31T23Z", ["PT1H"], None),
]
DIFFS = [
    (G, (0, 0), "2000-01-01T00Z", "1999-12-31T23:59:59+01"),
    (G, (0, 0), "2000-01-01T00Z", "2000-03-01T06:00:30,5Z"),
    (G, (0, 0), "2000-01-01T00Z", "2000-01-01T00Z"),
    (G, (0, 0), "2000-13-01T00Z", "2000-01-01T00Z"),
    (D360, (0, 0), "2000-02-30T00Z", "2000-03-01T00Z"),
]


def set_zone(local):
    h, m = local
    if (h, m) == (0, 0):
        os.environ["TZ"] = "UTC"
    else:
        os.environ["TZ"] = "LCL%s%02d:%02d" % ("-" if h >= 0 else "+", abs(h), abs(m))
    time.tzset()


def coq_str(s):
    return '"' + s.replace('"', '""') + '"'


def run(fn):
    try:
        out = fn()
    except ValueError:
        return "CExit"
    return "COut %s" % coq_str(str(out))


def results():
    out = []
    for mode, utc, local, text, offs, pf in SHIFTS:
        set_zone(local)
        oper = DateTimeOperator(utc_mode=utc, calendar_mode=mode)
        out.append(run(lambda: oper.process_time_point_str(text, offs or None, pf)))
    for mode, local, t1, t2 in DIFFS:
        set_zone(local)
        oper = DateTimeOperator(calendar_mode=mode)
        out.append(run(lambda: oper.diff_time_point_strs(t1, t2)))
    return out


def coq_md(m):
    return "G" if m == G else "D360"


def coq_list(xs):
    return "[" + "; ".join(coq_str(x) for x in xs) + "]"


def scenario():
    lines = []
    for mode, utc, local, text, offs, pf in SHIFTS:
        lines.append("run_shift %s %s (%d, %d) %s %s %s" % (
            coq_md(mode), "true" if utc else "false", local[0], local[1], coq_str(text), coq_list(offs),
            "None" if pf is None else "(Some %s)" % coq_str(pf)))
    for mode, local, t1, t2 in DIFFS:
        lines.append("run_diff %s (%d, %d) %s %s" % (coq_md(mode), local[0], local[1], coq_str(t1), coq_str(t2)))
    return lines


if __name__ == "__main__":
    res = results()
    if "--check" in sys.argv:
        path = os.path.join(os.path.dirname(os.path.abspath(__file__)), "..", "coq", "Props", "C19Code.v")
        with open(path) as fh:
            text = fh.read()
        m = re.search(r"Example C19_code_ex :(.*?)Proof\.", text, re.S)
        body = re.sub(r"\s+", " ", m.group(1)) if m else ""
        want = re.sub(r"\s+", " ", " [" + "; ".join(scenario()) + "] = [" + "; ".join(res) + "]. ")
        print("MATCH (%d items)" % len(res) if body.strip() == want.strip() else "MISMATCH\n got: %s\nwant: %s" % (body, want))
        sys.exit(0 if body.strip() == want.strip() else 1)
    print("  [" + ";\n   ".join(scenario()) + "]\n  =\n  [" + ";\n   ".join(res) + "].")
