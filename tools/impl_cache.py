"""Implementation side of property C15: histories of mode switches and
computations executed in ONE process on the real package.

  hist <step> ...     every step through the PUBLIC functions; the calendar
                      mode is set only by Calendar.default().set_mode(spelling)
                      (`sm:` steps) or by the CLI itself (`cli:` steps).  The
                      worker is first brought to the import-time state (empty
                      lru_caches, default mode) so the line is a complete history
  hsizes <step> ...   the same history in a FRESH subprocess, then the number
                      of entries in each lru_cache
  fresh <step> ...    the same steps in a FRESH subprocess
                      (subprocess.run([sys.executable, "-c", ...]))

Step syntax: see coq/Model/DriverCache.v.
"""
import contextlib
import io
import os
import re
import subprocess
import sys

import impl
from metomi.isodatetime import data
from metomi.isodatetime.data import Calendar, TimePoint

TOOLS = os.path.dirname(os.path.abspath(__file__))
REPO = os.environ.get("ISO_REPO", "/repo")
ENV_VAR = "ISODATETIMECALENDAR"

# operations of impl.py take the mode as their first token and set it; in a
# history the mode is whatever the history set last: the token "=" leaves it
_orig_set_mode = impl.set_mode


def _set_mode(tok):
    if tok == "=":
        return
    _orig_set_mode(tok)


impl.set_mode = _set_mode

HELPERS = {
    "leap": (1, lambda y: "1" if data.get_is_leap_year(y) else "0"),
    "ylen": (1, lambda y: str(data.get_days_in_year(y))),
    "mlen": (2, lambda m, y: str(data.get_days_in_month(m, y))),
    "mlenleap": (1, lambda m: str(data.get_days_in_month(m))),
    "range": (2, lambda s, e: str(data.get_days_in_year_range(s, e))),
    "weeks": (1, lambda y: str(data.get_weeks_in_year(y))),
    "wstart": (1, lambda y: impl.sh_tuple(data.get_calendar_date_week_date_start(y))),
    "owstart": (1, lambda y: impl.sh_tuple(data.get_ordinal_date_week_date_start(y))),
    "since1ad": (1, lambda y: str(data.get_days_since_1_ad(y))),
}

POINT = re.compile(r"^(\d{4})-(\d\d)-(\d\d)T(\d\d):(\d\d):(\d\d)Z$")


def sh_cli_point(text):
    m = POINT.match(text)
    if not m:
        return "UNPARSED(%s)" % text.replace(" ", "_")
    y, mo, d, h, mi, s = (int(x) for x in m.groups())
    return "C %d %d %d S %d %d %d 0 0" % (y, mo, d, h, mi, s)


def run_cli(how, sp, argv):
    """metomi.isodatetime.main.main(argv) in this process; captured stdout."""
    from metomi.isodatetime.main import main
    saved = os.environ.pop(ENV_VAR, None)
    if how == "env":
        os.environ[ENV_VAR] = sp
    if how == "opt":
        argv = ["--calendar", sp] + argv
    out, err = io.StringIO(), io.StringIO()
    try:
        with contextlib.redirect_stdout(out), contextlib.redirect_stderr(err):
            main(argv)
    except SystemExit as exc:
        if exc.code == 2:
            return None, "EXIT 2"
        if isinstance(exc.code, ValueError):
            return None, "ERR"
        return None, "EXIT %r" % (exc.code,)
    finally:
        os.environ.pop(ENV_VAR, None)
        if saved is not None:
            os.environ[ENV_VAR] = saved
    return out.getvalue(), None


def step(tk):
    f = tk.split(":")
    name, args = f[0], f[1:]
    if name == "sm":
        (s,) = args
        Calendar.default().set_mode(None if s == "-" else s)
        return "ok"
    if name == "x":
        fn = impl.OPS[args[0]]
        t = impl.Toks(["="] + args[1:])
        out = fn(t)
        return out if t.done() else "BADARGS"
    if name == "v":
        try:
            TimePoint(**impl.rd_date(impl.Toks(args)))
            return "1"
        except ValueError:
            return "0"
    if name == "cli":
        how, sp, sign = args[:3]
        y, m, d, h, mi, s, dy, dm, dd = (int(x) for x in args[3:])
        point = "%04d-%02d-%02dT%02d:%02d:%02dZ" % (y, m, d, h, mi, s)
        offset = "%sP%dY%dM%dD" % ("-" if sign == "m" else "", dy, dm, dd)
        out, stop = run_cli(how, sp, [point, "--offset=" + offset])
        return stop if stop is not None else sh_cli_point(out.strip())
    if name == "clirec":
        how, sp = args[:2]
        n, y, m, d, h, dy, dm, dd, mx = (int(x) for x in args[2:])
        rec = "R%d/%04d-%02d-%02dT%02d:00:00Z/P%dY%dM%dD" % (n, y, m, d, h, dy, dm, dd)
        out, stop = run_cli(how, sp, [rec, "--max=%d" % mx])
        if stop is not None:
            return stop
        pts = [sh_cli_point(l) for l in out.split("\n") if l.strip()]
        return " ; ".join(pts) if pts else "NONE"
    arity, fn = HELPERS[name]
    if len(args) != arity:
        return "BADARGS"
    return fn(*(int(x) for x in args))


def run_steps(tokens):
    outs = []
    for tk in tokens:
        try:
            outs.append(step(tk))
        except impl.Hang:
            raise
        except ValueError:
            outs.append("ERR")
        except RecursionError:
            outs.append("EXC RecursionError")
        except Exception as exc:  # noqa
            outs.append("EXC " + type(exc).__name__)
    return outs


def run_hist(tokens):
    return " | ".join(run_steps(tokens))


CACHES = [("leap", "get_is_leap_year"), ("ylen", "_get_days_in_year"),
          ("mlen", "_get_days_in_month"), ("range", "_get_days_in_year_range"),
          ("weeks", "_get_weeks_in_year"),
          ("wstart", "_get_calendar_date_week_date_start"),
          ("owstart", "_get_ordinal_date_week_date_start"),
          ("since1ad", "_get_days_since_1_ad")]


def cache_sizes():
    return " ".join("%s=%d" % (k, getattr(data, fn).cache_info().currsize) for k, fn in CACHES)


def in_fresh_process(what, tokens):
    """Evaluate `what(tokens)` of this module in a new interpreter."""
    code = ("import sys; sys.path.insert(0, %r); import impl_cache; "
            "print(impl_cache.%s(sys.argv[1:]))" % (TOOLS, what))
    env = dict(os.environ, PYTHONPATH=REPO, ISO_REPO=REPO, TZ="UTC", PYTHONHASHSEED="0")
    env.pop(ENV_VAR, None)
    r = subprocess.run([sys.executable, "-c", code] + list(tokens), env=env,
                       capture_output=True, text=True, timeout=60)
    if r.returncode != 0:
        return "SUBPROCESS-FAILED " + r.stderr.strip().replace("\n", " ")[-300:]
    return r.stdout.rstrip("\n")


def hist_then_sizes(tokens):
    run_steps(tokens)
    return cache_sizes()


def reset_to_initial_state():
    """Bring this worker to the state a history starts from (Model/Cache.v
    `init`): empty lru_caches, mode as set at import time.  Makes every `hist`
    line a self-contained history, so that a failing one replays on its own."""
    from metomi.isodatetime import dumpers
    for holder in (data, dumpers.TimePointDumper):
        for obj in vars(holder).values():
            clear = getattr(obj, "cache_clear", None)
            if callable(clear):
                clear()
    Calendar.default().set_mode()


def op_hist(t):
    toks = t.t[t.i:]
    t.i = len(t.t)
    reset_to_initial_state()
    return run_hist(toks)


def op_fresh(t):
    toks = t.t[t.i:]
    t.i = len(t.t)
    return in_fresh_process("run_hist", toks)


def op_hsizes(t):
    toks = t.t[t.i:]
    t.i = len(t.t)
    return in_fresh_process("hist_then_sizes", toks)


impl.register("hist", op_hist)
impl.register("fresh", op_fresh)
impl.register("hsizes", op_hsizes)
