#!/venv/bin/python
"""GenCode8.v generator: the method BODIES of class TimePointParser -> Gallina (fail closed).

Phase 8 of GenCode (see notes/GENCODE8_REPORT.md).  parse, get_info,
get_date_info, get_time_info, get_time_zone_info, process_time_zone_info and
_create_timepoint_from_info (parsers.py) are translated, together with every
method of the class they call, into an exception monad over ONE dynamically
typed value universe

    pyval := VNone | VBool | VInt | VFloat (exact rational) | VStr | VList | VTuple
           | VDict (insertion-ordered association list, string keys)
           | VRegex (token list of a compiled pattern) | VMatch (bindings) | VPoint

so that no type inference is needed: every Python operation is a prelude
function that raises TypeError & co. exactly where Python does (or
NotTranslated where the prelude does not model the operand kinds).  The
object state is a record with one pyval field per attribute the class
assigns; regex.match / .groupdict() are pmatch on token lists (Model/Parse.v);
timezone.get_local_time_zone() and the TimePoint constructor are the two
fields of the record `parser_ops`.

Mutation: dicts and lists are values; `d[k] = v`, `d.pop(..)`, `d.update(..)`,
`l.remove(..)`, `l.append(..)` REBIND the local variable.  This is sound only
without aliasing; the translator rejects: a second name for a mutated
container, a mutated container bound from anything but a literal / a call /
a parameter, a mutated container stored inside another literal, and -- for a
parameter the callee mutates -- an argument that is read again afterwards
(unless the call statement itself rebinds it).

Accepted subset: see the report.  Anything else raises Reject and the entry
point becomes a dummy with translator_ok_code8 := false.
"""
import ast
import pyimports
import os
import sys

sys.path.insert(0, os.path.dirname(os.path.abspath(__file__)))
import translate  # noqa: E402
from translate import Reject, write_if_changed, coq_str  # noqa: E402
import translate_code  # noqa: E402,F401  (redirects translate.OUT for VERIF_GEN_OUT)
from translate_code import clean  # noqa: E402

SRC = os.path.join(translate.REPO, "metomi", "isodatetime")
CLS = "TimePointParser"
ENTRIES = ["process_time_zone_info", "_create_timepoint_from_info", "get_date_info",
           "get_time_info", "get_time_zone_info", "get_info", "parse"]
# methods of the class that are deliberately not attempted
OUT_OF_SCOPE = {
    "__init__": "stores the configuration (the record pyParser is read off its assignments)",
    "_generate_regexes": "builds the regex maps: they are the generated tables of gen/Grammar.v",
    "get_expressions": "used by _generate_regexes only",
    "parse_date_expression_to_regex": "used by _generate_regexes only (re.sub)",
    "parse_time_expression_to_regex": "used by _generate_regexes only (re.sub)",
    "parse_time_zone_expression_to_regex": "used by _generate_regexes only (re.sub)",
    "strptime": "strptime side (C10/C17): re.escape, regex assembly",
    "_parse_from_custom_regex": "strptime side (C10/C17): re.compile of a run-time pattern",
}
EXNS = ["TypeError", "ValueError", "KeyError", "IndexError", "AttributeError",
        "UnboundLocalError", "ISO8601SyntaxError", "BadInputError", "NotTranslated"]
BUILTIN_EXN_BASES = {"TypeError": [], "ValueError": [], "KeyError": ["LookupError"],
                     "IndexError": ["LookupError"], "AttributeError": [],
                     "UnboundLocalError": ["NameError"], "NotTranslated": []}
MUTATORS = {"pop", "update", "remove", "append"}
BUILTINS = {"int", "float", "len", "list", "any", "all", "bool"}

PRELUDE = r'''
Inductive pyexn := TypeError | ValueError | KeyError | IndexError | AttributeError
  | UnboundLocalError | ISO8601SyntaxError | BadInputError | NotTranslated.
Inductive exc (A : Type) := Ok (a : A) | Raise (e : pyexn).
Arguments Ok {A} a.
Arguments Raise {A} e.
Definition bind {A B} (m : exc A) (f : A -> exc B) : exc B :=
  match m with Ok a => f a | Raise e => Raise e end.
Notation "x <- m ;; k" := (bind m (fun x => k)) (at level 61, m at next level, right associativity).
Notation "' p <- m ;; k" := (bind m (fun p => k)) (at level 61, p pattern, m at next level, right associativity).

Inductive pyval :=
| VNone | VBool (b : bool) | VInt (z : Z) | VFloat (q : Q) | VStr (s : string)
| VList (l : list pyval) | VTuple (l : list pyval) | VDict (d : list (string * pyval))
| VRegex (ts : list ptok) | VMatch (e : env) | VPoint (p : ptp).
Definition dict := list (string * pyval).

(* the two operations that are not translated *)
Record parser_ops := mkOps {
  op_get_local_time_zone : exc pyval;          (* timezone.get_local_time_zone() *)
  op_TimePoint : pyval -> exc pyval            (* data.TimePoint( **kwargs ) on the keyword dict *)
}.

(* ---- exceptions ---- *)
Definition exn_eqb (a b : pyexn) : bool :=
  match a, b with
  | TypeError, TypeError | ValueError, ValueError | KeyError, KeyError | IndexError, IndexError
  | AttributeError, AttributeError | UnboundLocalError, UnboundLocalError
  | ISO8601SyntaxError, ISO8601SyntaxError | BadInputError, BadInputError => true
  | _, _ => false end.
(* e is an instance of class c (NotTranslated is never caught) *)
Definition exn_isa (e c : pyexn) : bool :=
  exn_eqb e c || match c with ValueError => existsb (exn_eqb e) VALUEERROR_SUBCLASSES | _ => false end.
Definition py_try {A B} (m : exc A) (ok : A -> exc B) (catches : pyexn -> bool) (h : exc B) : exc B :=
  match m with Ok a => ok a | Raise e => if catches e then h else Raise e end.

(* ---- truth, equality ---- *)
Definition py_truthy (v : pyval) : bool :=
  match v with
  | VNone => false | VBool b => b | VInt z => negb (z =? 0)%Z | VFloat q => negb (Qeq_bool q 0%Q)
  | VStr s => negb (String.eqb s "") | VList l => negb (Nat.eqb (List.length l) 0%nat)
  | VTuple l => negb (Nat.eqb (List.length l) 0%nat) | VDict d => negb (Nat.eqb (List.length d) 0%nat)
  | VRegex _ | VMatch _ | VPoint _ => true end.
Definition py_is_none (v : pyval) : bool := match v with VNone => true | _ => false end.
Definition num_of (v : pyval) : option Q :=
  match v with VBool b => Some (if b then 1 else 0)%Q | VInt z => Some (qz z) | VFloat q => Some q | _ => None end.
Definition is_intlike (v : pyval) : option Z :=
  match v with VBool b => Some (if b then 1 else 0)%Z | VInt z => Some z | _ => None end.
Definition is_container (v : pyval) : bool :=
  match v with VList _ | VTuple _ | VDict _ | VRegex _ | VMatch _ | VPoint _ => true | _ => false end.
(* == on scalars; two containers are outside the prelude *)
Definition py_eq (a b : pyval) : exc bool :=
  match a, b with
  | VNone, VNone => Ok true
  | VStr s, VStr t => Ok (String.eqb s t)
  | _, _ => match num_of a, num_of b with
            | Some x, Some y => Ok (Qeq_bool x y)
            | _, _ => if is_container a && is_container b then Raise NotTranslated else Ok false
            end
  end.

(* ---- dicts: insertion-ordered association lists, keys unique by construction ---- *)
Fixpoint dict_get (k : string) (d : dict) : option pyval :=
  match d with [] => None | (k', v) :: r => if String.eqb k k' then Some v else dict_get k r end.
Definition dict_has (k : string) (d : dict) : bool := match dict_get k d with Some _ => true | None => false end.
Fixpoint dict_set (k : string) (v : pyval) (d : dict) : dict :=
  match d with
  | [] => [(k, v)]
  | (k', v') :: r => if String.eqb k k' then (k', v) :: r else (k', v') :: dict_set k v r end.
Fixpoint dict_del (k : string) (d : dict) : dict :=
  match d with [] => [] | (k', v') :: r => if String.eqb k k' then dict_del k r else (k', v') :: dict_del k r end.
Definition dict_update (d d2 : dict) : dict := fold_left (fun acc kv => dict_set (fst kv) (snd kv) acc) d2 d.
Definition sget (k : string) (s : dict) : pyval := match dict_get k s with Some v => v | None => VNone end.

Definition py_get (d k dflt : pyval) : exc pyval :=
  match d, k with
  | VDict d, VStr k => Ok (match dict_get k d with Some v => v | None => dflt end)
  | VDict _, _ => Raise NotTranslated
  | _, _ => Raise AttributeError end.
(* d.pop(k[, default]) -> (value, the dict afterwards) *)
Definition py_pop (d k : pyval) (dflt : option pyval) : exc (pyval * pyval) :=
  match d, k with
  | VDict d, VStr k => match dict_get k d, dflt with
                       | Some v, _ => Ok (v, VDict (dict_del k d))
                       | None, Some v => Ok (v, VDict d)
                       | None, None => Raise KeyError end
  | _, _ => Raise NotTranslated end.
Definition py_update (d d2 : pyval) : exc pyval :=
  match d, d2 with VDict a, VDict b => Ok (VDict (dict_update a b)) | VDict _, _ => Raise NotTranslated | _, _ => Raise AttributeError end.
Definition py_items (d : pyval) : exc pyval :=
  match d with VDict d => Ok (VList (map (fun kv => VTuple [VStr (fst kv); snd kv]) d)) | _ => Raise AttributeError end.
Definition py_keys (d : pyval) : exc pyval :=
  match d with VDict d => Ok (VList (map (fun kv => VStr (fst kv)) d)) | _ => Raise AttributeError end.
Definition py_iter (v : pyval) : exc (list pyval) :=
  match v with
  | VList l | VTuple l => Ok l
  | VDict d => Ok (map (fun kv => VStr (fst kv)) d)
  | VStr _ => Raise NotTranslated
  | _ => Raise TypeError end.
Definition py_list (v : pyval) : exc pyval := l <- py_iter v ;; Ok (VList l).
Definition py_len (v : pyval) : exc pyval :=
  match v with
  | VList l | VTuple l => Ok (VInt (Z.of_nat (List.length l)))
  | VDict d => Ok (VInt (Z.of_nat (List.length d)))
  | VStr s => Ok (VInt (Z.of_nat (String.length s)))
  | _ => Raise TypeError end.
Definition nth_py (l : list pyval) (i : Z) : exc pyval :=
  let n := Z.of_nat (List.length l) in
  let j := if (i <? 0)%Z then (i + n)%Z else i in
  if ((j <? 0) || (n <=? j))%Z then Raise IndexError
  else match nth_error l (Z.to_nat j) with Some v => Ok v | None => Raise IndexError end.
Definition py_getitem (c k : pyval) : exc pyval :=
  match c, k with
  | VDict d, VStr k => match dict_get k d with Some v => Ok v | None => Raise KeyError end
  | VDict _, _ => Raise NotTranslated
  | VList l, VInt i | VTuple l, VInt i => nth_py l i
  | VList _, _ | VTuple _, _ => Raise NotTranslated
  | VStr _, _ => Raise NotTranslated
  | _, _ => Raise TypeError end.
Definition py_setitem (c k v : pyval) : exc pyval :=
  match c, k with
  | VDict d, VStr k => Ok (VDict (dict_set k v d))
  | VDict _, _ | VList _, _ => Raise NotTranslated
  | _, _ => Raise TypeError end.
(* TimePoint( **d, k1=v1, .. ): a keyword given twice is a TypeError *)
Fixpoint kw_merge (d : dict) (kws : list (string * pyval)) : exc pyval :=
  match kws with
  | [] => Ok (VDict d)
  | (k, v) :: r => if dict_has k d then Raise TypeError else kw_merge (dict_set k v d) r end.
Definition py_kwargs (d : pyval) (kws : list (string * pyval)) : exc pyval :=
  match d with VDict d => kw_merge d kws | _ => Raise TypeError end.

(* ---- lists ---- *)
Fixpoint in_list (x : pyval) (l : list pyval) : exc bool :=
  match l with [] => Ok false | y :: r => b <- py_eq x y ;; if b then Ok true else in_list x r end.
Fixpoint remove_first (x : pyval) (l : list pyval) : exc (list pyval) :=
  match l with
  | [] => Raise ValueError
  | y :: r => b <- py_eq y x ;; if b then Ok r else (r' <- remove_first x r ;; Ok (y :: r')) end.
Definition py_remove (l x : pyval) : exc pyval :=
  match l with VList l => (r <- remove_first x l ;; Ok (VList r)) | _ => Raise AttributeError end.
Definition py_append (l x : pyval) : exc pyval :=
  match l with VList l => Ok (VList (l ++ [x])%list) | _ => Raise AttributeError end.

(* ---- strings ---- *)
Fixpoint is_substr (p s : string) : bool :=
  match str_prefix p s with
  | Some _ => true
  | None => match s with String _ r => is_substr p r | EmptyString => false end end.
Fixpoint str_rev_acc (s acc : string) : string :=
  match s with EmptyString => acc | String c r => str_rev_acc r (String c acc) end.
Definition ends_with (p s : string) : bool :=
  match str_prefix (str_rev_acc p "") (str_rev_acc s "") with Some _ => true | None => false end.
Definition starts_with (p s : string) : bool := match str_prefix p s with Some _ => true | None => false end.
Fixpoint str_init (s : string) : string :=       (* s[:-1] *)
  match s with
  | EmptyString => "" | String c EmptyString => "" | String c r => String c (str_init r) end.
(* s.rsplit(c, 1) *)
Fixpoint rsplit_char (c : ascii) (s : string) : string * string :=
  match s with
  | EmptyString => ("", "")
  | String a r => if contains_char c r then let '(x, y) := rsplit_char c r in (String a x, y)
                  else if Ascii.eqb a c then ("", r) else let '(x, y) := rsplit_char c r in (String a x, y)
  end.
Definition py_in (x c : pyval) : exc bool :=
  match c with
  | VStr s => match x with VStr p => Ok (is_substr p s) | _ => Raise TypeError end
  | VList l | VTuple l => in_list x l
  | VDict d => match x with VStr k => Ok (dict_has k d) | _ => if is_container x then Raise NotTranslated else Ok false end
  | _ => Raise TypeError end.
Definition py_split (s sep : pyval) : exc pyval :=
  match s, sep with
  | VStr s, VStr (String c EmptyString) => Ok (VList (map VStr (split_str c s)))
  | VStr _, _ => Raise NotTranslated
  | _, _ => Raise AttributeError end.
Definition py_rsplit1 (s sep : pyval) : exc pyval :=
  match s, sep with
  | VStr s, VStr (String c EmptyString) =>
    if contains_char c s then let '(a, b) := rsplit_char c s in Ok (VList [VStr a; VStr b]) else Ok (VList [VStr s])
  | VStr _, _ => Raise NotTranslated
  | _, _ => Raise AttributeError end.
Definition py_endswith (s p : pyval) : exc pyval :=
  match s, p with
  | VStr s, VStr p => Ok (VBool (ends_with p s))
  | VStr _, _ => Raise NotTranslated
  | _, _ => Raise AttributeError end.
Definition py_startswith (s p : pyval) : exc pyval :=
  match s, p with
  | VStr s, VStr p => Ok (VBool (starts_with p s))
  | VStr _, _ => Raise NotTranslated
  | _, _ => Raise AttributeError end.
Definition py_drop_last (s : pyval) : exc pyval :=
  match s with VStr s => Ok (VStr (str_init s)) | VList _ | VTuple _ => Raise NotTranslated | _ => Raise TypeError end.

(* ---- numbers.  Convention (DESIGN.md section 3): floats are exact rationals;
   int(str) / float(str) are exact on ASCII digit strings with an optional
   leading "-" and on "0." ++ digits; every other string is taken to raise
   ValueError (Python also accepts blanks, "_", "+", exponents, inf/nan and
   non-ASCII digits: no group of the generated token language binds such a
   text, except non-ASCII digits -- the model's EUnmodelled guard). ---- *)
Fixpoint all_digits8 (s : string) : bool :=
  match s with EmptyString => true | String c r => is_digit c && all_digits8 r end.
Definition py_int_str (s : string) : exc pyval :=
  match read_Z s with Some z => Ok (VInt z) | None => Raise ValueError end.
Definition frac8 (s : string) : Q :=
  match read_Z s with
  | Some n => Qred (Qmake n (Pos.pow 10%positive (Pos.of_nat (String.length s))))
  | None => 0%Q end.
Definition py_float_str (s : string) : exc pyval :=
  match str_prefix "0." s with
  | Some r => if all_digits8 r then Ok (VFloat (frac8 r)) else Raise ValueError
  | None => match read_Z s with Some z => Ok (VFloat (qz z)) | None => Raise ValueError end
  end.
Definition py_int (v : pyval) : exc pyval :=
  match v with
  | VBool b => Ok (VInt (if b then 1 else 0)) | VInt z => Ok (VInt z) | VFloat q => Ok (VInt (qtrunc q))
  | VStr s => py_int_str s | _ => Raise TypeError end.
Definition py_float (v : pyval) : exc pyval :=
  match v with
  | VBool b => Ok (VFloat (if b then 1 else 0)%Q) | VInt z => Ok (VFloat (qz z)) | VFloat q => Ok (VFloat q)
  | VStr s => py_float_str s | _ => Raise TypeError end.
Definition py_add (a b : pyval) : exc pyval :=
  match a, b with
  | VStr s, VStr t => Ok (VStr (s ++ t)%string)
  | VList s, VList t => Ok (VList (s ++ t)%list)
  | _, _ => match is_intlike a, is_intlike b with
            | Some x, Some y => Ok (VInt (x + y))
            | _, _ => match num_of a, num_of b with
                      | Some x, Some y => Ok (VFloat (x + y)%Q) | _, _ => Raise TypeError end end
  end.
Definition py_sub (a b : pyval) : exc pyval :=
  match is_intlike a, is_intlike b with
  | Some x, Some y => Ok (VInt (x - y))
  | _, _ => match num_of a, num_of b with Some x, Some y => Ok (VFloat (x - y)%Q) | _, _ => Raise TypeError end end.
Definition py_mul (a b : pyval) : exc pyval :=
  match is_intlike a, is_intlike b with
  | Some x, Some y => Ok (VInt (x * y))
  | _, _ => match num_of a, num_of b with
            | Some x, Some y => Ok (VFloat (x * y)%Q)
            | _, _ => if is_container a || is_container b then Raise TypeError else Raise NotTranslated end end.
Definition py_pow (a b : pyval) : exc pyval :=
  match is_intlike a, is_intlike b with
  | Some x, Some y => if (y <? 0)%Z then Raise NotTranslated else Ok (VInt (x ^ y))
  | _, _ => Raise NotTranslated end.
Definition py_neg (a : pyval) : exc pyval :=
  match a with
  | VBool b => Ok (VInt (if b then -1 else 0)) | VInt z => Ok (VInt (- z)) | VFloat q => Ok (VFloat (- q)%Q)
  | _ => Raise TypeError end.

(* ---- unpacking, iteration ---- *)
Definition seq_of (v : pyval) : exc (list pyval) :=
  match v with VList l | VTuple l => Ok l | VStr _ | VDict _ => Raise NotTranslated | _ => Raise TypeError end.
Definition py_unpack2 (v : pyval) : exc (pyval * pyval) :=
  l <- seq_of v ;; match l with [a; b] => Ok (a, b) | _ => Raise ValueError end.
Definition py_unpack3 (v : pyval) : exc (pyval * pyval * pyval) :=
  l <- seq_of v ;; match l with [a; b; c] => Ok (a, b, c) | _ => Raise ValueError end.
Definition py_unpack4 (v : pyval) : exc (pyval * pyval * pyval * pyval) :=
  l <- seq_of v ;; match l with [a; b; c; d] => Ok (a, b, c, d) | _ => Raise ValueError end.

Inductive lctl := LNext (s : dict) | LBreak (s : dict) | LReturn (v : pyval).
Inductive lres := LDone (s : dict) | LRet (v : pyval).
(* for x in items: body  -- the loop state is the association list of the
   locals the body assigns *)
Fixpoint py_for (items : list pyval) (body : pyval -> dict -> exc lctl) (s : dict) : exc lres :=
  match items with
  | [] => Ok (LDone s)
  | x :: r => match body x s with
              | Ok (LNext s') => py_for r body s'
              | Ok (LBreak s') => Ok (LDone s')
              | Ok (LReturn v) => Ok (LRet v)
              | Raise e => Raise e end
  end.
Fixpoint py_any (items : list pyval) (f : pyval -> exc pyval) : exc pyval :=
  match items with
  | [] => Ok (VBool false)
  | x :: r => v <- f x ;; if py_truthy v then Ok (VBool true) else py_any r f end.
Fixpoint py_all (items : list pyval) (f : pyval -> exc pyval) : exc pyval :=
  match items with
  | [] => Ok (VBool true)
  | x :: r => v <- f x ;; if py_truthy v then py_all r f else Ok (VBool false) end.

(* ---- regular expressions: a compiled pattern is its token list ---- *)
Definition py_re_match (r s : pyval) : exc pyval :=
  match r, s with
  | VRegex ts, VStr s => Ok (match pmatch ts s [] with Some e => VMatch e | None => VNone end)
  | VRegex _, _ => Raise TypeError
  | _, _ => Raise AttributeError end.
Definition py_groupdict (m : pyval) : exc pyval :=
  match m with VMatch e => Ok (VDict (map (fun kv => (fst kv, VStr (snd kv))) e)) | _ => Raise AttributeError end.
'''


def ident(name):
    return "v_" + name


class Cont:
    """What follows a block: gen(env) -> term."""

    def __init__(self, gen, cheap):
        self.gen, self.cheap = gen, cheap


class Ctx:
    """Where return / break / continue go."""

    def __init__(self, on_return, on_break=None, on_continue=None, in_loop=False, in_try=False, top=False):
        self.on_return, self.on_break, self.on_continue = on_return, on_break, on_continue
        self.in_loop, self.in_try, self.top = in_loop, in_try, top

    def inner(self):
        """The same context for the body of a compound statement."""
        if not self.top:
            return self
        return Ctx(self.on_return, self.on_break, self.on_continue, self.in_loop, self.in_try, False)


def assigned_names(stmts):
    """Names stored or mutated (rebound) somewhere in stmts."""
    out = set()
    for s in stmts:
        for n in ast.walk(s):
            if isinstance(n, ast.Name) and isinstance(n.ctx, ast.Store):
                out.add(n.id)
            elif isinstance(n, ast.Subscript) and isinstance(n.ctx, ast.Store):
                if isinstance(n.value, ast.Name):
                    out.add(n.value.id)
            elif (isinstance(n, ast.Call) and isinstance(n.func, ast.Attribute)
                  and n.func.attr in MUTATORS and isinstance(n.func.value, ast.Name)):
                out.add(n.func.value.id)
    return out


def mutated_names(stmts):
    out = set()
    for s in stmts:
        for n in ast.walk(s):
            if isinstance(n, ast.Subscript) and isinstance(n.ctx, ast.Store) and isinstance(n.value, ast.Name):
                out.add(n.value.id)
            elif (isinstance(n, ast.Call) and isinstance(n.func, ast.Attribute)
                  and n.func.attr in MUTATORS and isinstance(n.func.value, ast.Name)):
                out.add(n.func.value.id)
    return out



class Unit:
    def __init__(self):
        path = os.path.join(SRC, "parsers.py")
        with open(path) as fh:
            self.tree = pyimports.canonicalise(ast.parse(fh.read()))
        self.cls = None
        for n in self.tree.body:
            if isinstance(n, ast.ClassDef) and n.name == CLS:
                if self.cls is not None:
                    raise Reject("class %s defined twice" % CLS)
                self.cls = n
        if self.cls is None:
            raise Reject("class %s not found" % CLS)
        self.check_module()
        self.check_class()
        self.methods = {}
        for n in self.cls.body:
            if isinstance(n, ast.FunctionDef):
                if n.name in self.methods:
                    raise Reject("method %s defined twice" % n.name)
                self.methods[n.name] = n
        self.fields = self.collect_fields()
        self.time_designator = self.read_time_designator()
        self.valueerror_subs = self.read_exception_bases()
        self.done = {}        # method -> Coq definition text
        self.order = []
        self.sigs = {}        # method -> list of (param, default-node or None)
        self.mut_params = {}  # method -> set of parameter indexes it mutates
        self.inprogress = []
        self.used_ops = set()
        self.segs = {}

    # ---- module / class level checks ----
    def check_module(self):
        self.module_names = {}
        for n in self.tree.body:
            if isinstance(n, ast.ImportFrom):
                for a in n.names:
                    self.module_names[a.asname or a.name] = ("from", n.module, a.name, n.level)
            elif isinstance(n, ast.Import):
                for a in n.names:
                    self.module_names[a.asname or a.name] = ("import", a.name)
            elif isinstance(n, (ast.FunctionDef, ast.ClassDef)):
                if n.name in BUILTINS or n.name in self.module_names:
                    raise Reject("module-level name %s is rebound" % n.name)
                self.module_names[n.name] = ("def",)
            elif isinstance(n, ast.Expr) and isinstance(n.value, ast.Constant):
                pass
            else:
                for t in ast.walk(n):
                    if isinstance(t, ast.Name) and isinstance(t.ctx, ast.Store):
                        if t.id in BUILTINS or t.id in ("timezone", "data", "parser_spec",
                                                        "ISO8601SyntaxError"):
                            raise Reject("module-level name %s is rebound" % t.id)
        for b in BUILTINS:
            if b in self.module_names:
                raise Reject("builtin %s is rebound at module level" % b)
        want = {"data": ("from", None, "data", 1), "parser_spec": ("from", None, "parser_spec", 1),
                "timezone": ("from", None, "timezone", 1),
                "ISO8601SyntaxError": ("from", "metomi.isodatetime.exceptions", "ISO8601SyntaxError", 0)}
        for k, v in want.items():
            if self.module_names.get(k) != v:
                raise Reject("module-level name %s is not the expected import (%r)" % (k, self.module_names.get(k)))

    def check_class(self):
        c = self.cls
        if c.decorator_list or c.keywords:
            raise Reject("class %s has decorators / keywords" % CLS)
        if [ast.dump(b) for b in c.bases] != [ast.dump(ast.Name(id="object", ctx=ast.Load()))]:
            raise Reject("class %s has bases other than object" % CLS)
        for n in c.body:
            if isinstance(n, ast.FunctionDef):
                if n.name in ("__getattr__", "__getattribute__", "__setattr__", "__new__", "__call__"):
                    raise Reject("class defines %s" % n.name)
                continue
            if isinstance(n, ast.Expr) and isinstance(n.value, ast.Constant) and isinstance(n.value.value, str):
                continue
            raise Reject("class-level statement other than a method: %s" % clean(ast.unparse(n))[:60])

    def collect_fields(self):
        fields = []
        for m in self.cls.body:
            if not isinstance(m, ast.FunctionDef):
                continue
            for n in ast.walk(m):
                if (isinstance(n, ast.Attribute) and isinstance(n.ctx, ast.Store)
                        and isinstance(n.value, ast.Name) and n.value.id == "self"):
                    if n.attr not in fields:
                        fields.append(n.attr)
        want = ["num_expanded_year_digits", "allow_truncated", "allow_only_basic", "assumed_time_zone",
                "default_to_unknown_time_zone", "dump_format", "_date_regex_map", "_time_regex_map",
                "_time_zone_regex_map"]
        if sorted(fields) != sorted(want):
            raise Reject("attributes assigned by the class are %s, expected %s" % (fields, want))
        # who may store them: __init__ and _generate_regexes only
        for m in self.cls.body:
            if isinstance(m, ast.FunctionDef) and m.name not in ("__init__", "_generate_regexes"):
                for n in ast.walk(m):
                    if (isinstance(n, ast.Attribute) and isinstance(n.ctx, (ast.Store, ast.Del))
                            and isinstance(n.value, ast.Name) and n.value.id == "self"):
                        raise Reject("method %s stores self.%s" % (m.name, n.attr))
        return want   # fixed order: the proofs build the record positionally

    def read_time_designator(self):
        with open(os.path.join(SRC, "parser_spec.py")) as fh:
            tree = ast.parse(fh.read())
        vals = []
        for n in ast.walk(tree):
            if isinstance(n, ast.Name) and isinstance(n.ctx, ast.Store) and n.id == "TIME_DESIGNATOR":
                vals.append(n)
        found = [n for n in tree.body if isinstance(n, ast.Assign) and len(n.targets) == 1
                 and isinstance(n.targets[0], ast.Name) and n.targets[0].id == "TIME_DESIGNATOR"]
        if len(vals) != 1 or len(found) != 1 or not (isinstance(found[0].value, ast.Constant)
                                                     and isinstance(found[0].value.value, str)):
            raise Reject("parser_spec.TIME_DESIGNATOR is not one module-level string constant")
        return found[0].value.value

    def read_exception_bases(self):
        """Which of our exception constructors are subclasses of ValueError."""
        with open(os.path.join(SRC, "exceptions.py")) as fh:
            tree = ast.parse(fh.read())
        bases = {}
        for n in tree.body:
            if isinstance(n, ast.ClassDef):
                bases[n.name] = [b.id for b in n.bases if isinstance(b, ast.Name)]
                if len(bases[n.name]) != len(n.bases):
                    raise Reject("exceptions.py: base of %s is not a plain name" % n.name)
        subs = []
        for e in ("ISO8601SyntaxError", "BadInputError"):
            if e not in bases:
                raise Reject("exceptions.py does not define %s" % e)
            seen, todo = set(), [e]
            while todo:
                x = todo.pop()
                if x in seen:
                    continue
                seen.add(x)
                todo.extend(bases.get(x, []))
            for other in ("TypeError", "KeyError", "IndexError", "AttributeError", "LookupError",
                          "NameError", "OSError", "IOError"):
                if other in seen:
                    raise Reject("%s derives from %s" % (e, other))
            if "ValueError" in seen:
                subs.append(e)
        return subs

    # ---- methods ----
    def method(self, name):
        if name in self.done:
            return
        if name in self.inprogress:
            raise Reject("recursive method %s" % name)
        if name not in self.methods:
            raise Reject("no method %s in the class" % name)
        self.inprogress.append(name)
        try:
            Fn(self, self.methods[name]).translate()
        finally:
            self.inprogress.pop()


class Fn:
    def __init__(self, unit, node):
        self.u, self.node, self.name = unit, node, node.name
        self.n = 0
        static = False
        for d in node.decorator_list:
            if isinstance(d, ast.Name) and d.id == "staticmethod":
                static = True
            else:
                raise Reject("%s: decorator %s" % (self.name, clean(ast.unparse(d))))
        a = node.args
        if a.vararg or a.kwarg or a.kwonlyargs or a.posonlyargs:
            raise Reject("%s: *args / **kwargs / keyword-only parameters" % self.name)
        params = [x.arg for x in a.args]
        self.static = static
        if not static:
            if not params or params[0] != "self":
                raise Reject("%s: first parameter is not self" % self.name)
            params = params[1:]
        defaults = [None] * (len(params) - len(a.defaults)) + list(a.defaults)
        for d in defaults:
            if d is not None and not (isinstance(d, ast.Constant) and (d.value is None or isinstance(d.value, (bool, int, str)))):
                raise Reject("%s: default value %s" % (self.name, clean(ast.unparse(d))))
        self.params = params
        unit.sigs[self.name] = list(zip(params, defaults))
        self.mutated = mutated_names(node.body)
        unit.mut_params[self.name] = {i for i, p in enumerate(params) if p in self.mutated}
        for n in ast.walk(node):
            if isinstance(n, (ast.FunctionDef, ast.AsyncFunctionDef, ast.Lambda, ast.ClassDef)) and n is not node:
                raise Reject("%s: nested def / lambda / class" % self.name)
            if isinstance(n, (ast.Global, ast.Nonlocal, ast.Yield, ast.YieldFrom, ast.Await, ast.With,
                              ast.While, ast.Delete, ast.Assert, ast.NamedExpr, ast.Starred)):
                raise Reject("%s: %s" % (self.name, type(n).__name__))
            if isinstance(n, ast.Name) and isinstance(n.ctx, ast.Store):
                if n.id in BUILTINS or n.id in unit.module_names or n.id == "self":
                    raise Reject("%s: local name %s shadows a builtin / module-level name" % (self.name, n.id))
        for p in params:
            if p in BUILTINS or p in unit.module_names:
                raise Reject("%s: parameter %s shadows a builtin / module-level name" % (self.name, p))
        self.check_aliasing()

    def fresh(self, base):
        self.n += 1
        return "%s%d" % (base, self.n)

    # ---- aliasing discipline for mutated containers ----
    def check_aliasing(self):
        M = self.mutated
        # textual order of every Name load (for the dead-after-call test)
        self.loads = [(n.lineno, n.col_offset, n.id) for n in ast.walk(self.node)
                      if isinstance(n, ast.Name) and isinstance(n.ctx, ast.Load)]
        for s in ast.walk(self.node):
            if isinstance(s, ast.Assign):
                if len(s.targets) != 1:
                    raise Reject("%s: chained assignment" % self.name)
                t, v = s.targets[0], s.value
                if isinstance(t, ast.Name) and isinstance(v, ast.Name) and (t.id in M or v.id in M):
                    raise Reject("%s: a second name (%s = %s) for a mutated container" % (self.name, t.id, v.id))
                if isinstance(t, ast.Name) and t.id in M and not isinstance(v, (ast.Dict, ast.List, ast.Call)):
                    raise Reject("%s: mutated container %s bound from %s" % (self.name, t.id, clean(ast.unparse(v))))
                if isinstance(t, ast.Tuple):
                    for e in t.elts:
                        if isinstance(e, ast.Name) and e.id in M and not isinstance(v, ast.Call):
                            raise Reject("%s: mutated container %s unpacked from %s" % (self.name, e.id, clean(ast.unparse(v))))
            if isinstance(s, ast.For):
                for e in ast.walk(s.target):
                    if isinstance(e, ast.Name) and e.id in M:
                        raise Reject("%s: loop variable %s is mutated" % (self.name, e.id))
            if isinstance(s, (ast.List, ast.Dict, ast.Set)):
                for e in ast.walk(s):
                    if isinstance(e, ast.Name) and e.id in M:
                        raise Reject("%s: mutated container %s stored inside a literal" % (self.name, e.id))
        for s in ast.walk(self.node):
            if isinstance(s, ast.Tuple) and isinstance(s.ctx, ast.Load):
                for e in s.elts:
                    if isinstance(e, ast.Name) and e.id in M and not self.is_return_value(s):
                        raise Reject("%s: mutated container %s stored inside a tuple" % (self.name, e.id))

    def is_return_value(self, tup):
        for s in ast.walk(self.node):
            if isinstance(s, ast.Return) and s.value is tup:
                return True
        return False

    def dead_after(self, name, call, stmt):
        """name is not loaded after `call` (textual order), or stmt rebinds it."""
        if isinstance(stmt, ast.Assign):
            for t in ast.walk(stmt.targets[0]):
                if isinstance(t, ast.Name) and t.id == name:
                    return True
        end = (call.end_lineno, call.end_col_offset)
        for (ln, co, nm) in self.loads:
            if nm == name and (ln, co) >= end:
                return False
        return True

    # ---- translation ----
    def translate(self):
        env = {p: "def" for p in self.params}
        ctx = Ctx(on_return=lambda v: "Ok %s" % v, top=True)
        self.segments = []
        self.nseg = 0
        body = self.block(self.node.body, env, ctx, Cont(lambda e: "Ok VNone", True), [])
        ps = "".join(" (%s : pyval)" % ident(p) for p in self.params)
        txt = ("Definition py_%s (ops : parser_ops) (self : pyParser)%s : exc pyval :=\n%s.\n"
               % (self.name, ps, body))
        self.u.segs[self.name] = [n for n, _ in self.segments]
        self.u.done[self.name] = "\n".join(t for _, t in self.segments) + ("\n" if self.segments else "") + txt
        self.u.order.append(self.name)

    def read(self, name, env):
        st = env.get(name)
        if st == "def":
            return ident(name)
        if st == "maybe":
            raise Reject("%s: local %s may be unbound (or hold a value the translation does not track) when it is read" % (self.name, name))
        raise Reject("%s: unknown name %s" % (self.name, name))

    def pack(self, env, names):
        return "[" + "; ".join("(%s, %s)" % (coq_str(v), ident(v) if env.get(v) == "def" else "VNone")
                               for v in names) + "]"

    def unpack(self, names, sigma):
        return "".join("let %s := sget %s %s in\n" % (ident(v), coq_str(v), sigma) for v in names)

    # statements ---------------------------------------------------------
    def block(self, stmts, env, ctx, k, loopstack):
        if not stmts:
            return k.gen(env)
        s, rest = stmts[0], stmts[1:]
        out = []

        def go():
            return "".join(out) + self.block(rest, env, ctx, k, loopstack)

        if isinstance(s, ast.Pass):
            return go()
        if isinstance(s, ast.Expr):
            if isinstance(s.value, ast.Constant):
                return go()
            self.expr(s.value, env, out, s)
            return go()
        if isinstance(s, ast.Return):
            v = "VNone" if s.value is None else self.expr(s.value, env, out, s)
            if ctx.in_try:
                raise Reject("%s: return inside try" % self.name)
            return "".join(out) + ctx.on_return(v)
        if isinstance(s, ast.Raise):
            if s.cause is not None or s.exc is None:
                raise Reject("%s: bare raise / raise from" % self.name)
            return "".join(out) + "Raise %s" % self.exn_value(s.exc, env)
        if isinstance(s, ast.Break) or isinstance(s, ast.Continue):
            if ctx.in_try or ctx.on_break is None:
                raise Reject("%s: break / continue here" % self.name)
            return (ctx.on_break if isinstance(s, ast.Break) else ctx.on_continue)(env)
        if isinstance(s, ast.Assign):
            self.assign(s, env, out)
            return go()
        if isinstance(s, ast.AugAssign):
            if not isinstance(s.target, ast.Name):
                raise Reject("%s: augmented assignment to %s" % (self.name, clean(ast.unparse(s.target))))
            op = self.binop(s.op)
            a = self.read(s.target.id, env)
            b = self.expr(s.value, env, out, s)
            out.append("%s <- %s %s %s ;;\n" % (ident(s.target.id), op, a, b))
            env[s.target.id] = "def"
            return go()
        if isinstance(s, ast.If):
            return self.stmt_if(s, rest, env, ctx, k, loopstack)
        if isinstance(s, ast.For):
            if ctx.top and not loopstack:
                # a loop that is a top-level statement of the method: the code from here on is a
                # definition of its own (py_<method>__L<n>), so that proofs can be cut there
                self.nseg += 1
                nm = "py_%s__L%d" % (self.name, self.nseg)
                live = sorted(v for v in env if env[v] == "def")
                senv = {v: "def" for v in live}
                sctx = Ctx(on_return=lambda v: "Ok %s" % v, top=True)
                sbody = self.stmt_for(s, rest, senv, sctx, Cont(lambda e: "Ok VNone", True), [])
                ps = "".join(" (%s : pyval)" % ident(p) for p in live)
                self.segments.append((nm, "Definition %s (ops : parser_ops) (self : pyParser)%s : exc pyval :=\n%s.\n"
                                      % (nm, ps, sbody)))
                if not k.cheap and False:
                    pass
                return "%s ops self %s" % (nm, " ".join(ident(v) for v in live))
            return self.stmt_for(s, rest, env, ctx, k, loopstack)
        if isinstance(s, ast.Try):
            return self.stmt_try(s, rest, env, ctx, k, loopstack)
        raise Reject("%s: statement %s" % (self.name, type(s).__name__))

    def join(self, names, rest, env, ctx, k, loopstack, build):
        """build(kj) -> term using kj(env2) at every fall-through; then `rest`."""
        if not rest and k.cheap:
            return build(k)
        jn = self.fresh("k")
        seen = []

        def kj(env2):
            seen.append(dict(env2))
            args = " ".join(ident(v) if env2.get(v) == "def" else "VNone" for v in names)
            return "%s %s" % (jn, args if names else "tt")

        term = build(Cont(kj, True))
        if not seen:            # nothing falls through: the rest is unreachable
            return term
        envj = {}
        for v in set().union(*[set(e) for e in seen]):
            envj[v] = "def" if all(e.get(v) == "def" for e in seen) else "maybe"
        for v in names:
            if v not in envj:
                envj[v] = "maybe"
        rest_t = self.block(rest, envj, ctx, k, loopstack)
        ps = " ".join(ident(v) for v in names) if names else "(_ : unit)"
        return "let %s := fun %s =>\n%s in\n%s" % (jn, ps, rest_t, term)

    def stmt_if(self, s, rest, env, ctx, k, loopstack):
        out = []
        c = self.cond(s.test, env, out)
        names = sorted(assigned_names(s.body) | assigned_names(s.orelse))

        def build(kk):
            a = self.block(s.body, dict(env), ctx.inner(), kk, loopstack)
            b = self.block(s.orelse, dict(env), ctx.inner(), kk, loopstack)
            return "(if %s then\n%s\nelse\n%s)" % (c, a, b)

        return "".join(out) + self.join(names, rest, env, ctx, k, loopstack, build)

    def stmt_try(self, s, rest, env, ctx, k, loopstack):
        if s.orelse or s.finalbody or len(s.handlers) != 1:
            raise Reject("%s: try with else / finally / several handlers" % self.name)
        h = s.handlers[0]
        if h.name is not None:
            raise Reject("%s: except .. as name" % self.name)
        classes = []
        tnode = h.type
        if tnode is None:
            raise Reject("%s: bare except" % self.name)
        for e in (tnode.elts if isinstance(tnode, ast.Tuple) else [tnode]):
            if not isinstance(e, ast.Name):
                raise Reject("%s: except %s" % (self.name, clean(ast.unparse(e))))
            if e.id in EXNS and e.id != "NotTranslated":
                classes.append("exn_isa e %s" % e.id)
            elif e.id in ("IOError", "OSError"):
                classes.append("false")     # none of the modelled exceptions is an OSError
            else:
                raise Reject("%s: except %s" % (self.name, e.id))
        catches = "(fun e => %s)" % " || ".join(classes)
        bnames = sorted(assigned_names(s.body))
        names = sorted(assigned_names(s.body) | assigned_names(h.body))
        simple = len(s.body) == 1 and isinstance(s.body[0], (ast.Assign, ast.AugAssign, ast.Expr))
        tctx = Ctx(on_return=None, in_try=True)

        def build(kk):
            benv = dict(env)
            holder = {}

            def kb(env2):
                holder["env"] = dict(env2)
                return "Ok %s" % self.pack(env2, bnames)

            body = self.block(s.body, benv, tctx, Cont(kb, True), loopstack)
            if "env" not in holder:
                raise Reject("%s: try body never falls through" % self.name)
            sg = self.fresh("st")
            okenv = holder["env"]
            ok = "(fun %s =>\n%s%s)" % (sg, self.unpack(bnames, sg), kk.gen(okenv))
            henv = dict(env)
            if not simple:
                for v in bnames:
                    henv[v] = "maybe"
            hterm = self.block(h.body, henv, ctx.inner(), kk, loopstack)
            return "py_try (%s)\n%s\n%s\n(%s)" % (body, ok, catches, hterm)

        return self.join(names, rest, env, ctx, k, loopstack, build)

    def stmt_for(self, s, rest, env, ctx, k, loopstack):
        if s.orelse:
            raise Reject("%s: for .. else" % self.name)
        if ctx.in_try:
            raise Reject("%s: loop inside try" % self.name)
        out = []
        tnames = [n.id for n in ast.walk(s.target) if isinstance(n, ast.Name)]
        bmut = mutated_names(s.body)
        # iterating a live view of a container the body mutates
        it = s.iter
        live = None
        if isinstance(it, ast.Name):
            live = it.id
        elif (isinstance(it, ast.Call) and isinstance(it.func, ast.Attribute) and it.func.attr in ("items", "keys", "values")
              and isinstance(it.func.value, ast.Name)):
            live = it.func.value.id
        if live is not None and live in bmut:
            keyvar = None
            if isinstance(it, ast.Call) and it.func.attr == "items" and isinstance(s.target, ast.Tuple) \
                    and len(s.target.elts) == 2 and isinstance(s.target.elts[0], ast.Name):
                keyvar = s.target.elts[0].id
            elif isinstance(s.target, ast.Name) and (isinstance(it, ast.Name) or it.func.attr == "keys"):
                keyvar = s.target.id
            for n in ast.walk(ast.Module(body=s.body, type_ignores=[])):
                if (isinstance(n, ast.Call) and isinstance(n.func, ast.Attribute) and n.func.attr in MUTATORS
                        and isinstance(n.func.value, ast.Name) and n.func.value.id == live):
                    raise Reject("%s: %s changes size while it is iterated" % (self.name, live))
                if (isinstance(n, ast.Subscript) and isinstance(n.ctx, ast.Store) and isinstance(n.value, ast.Name)
                        and n.value.id == live):
                    if not (keyvar and isinstance(n.slice, ast.Name) and n.slice.id == keyvar):
                        raise Reject("%s: %s is stored at a key other than the current one while it is iterated" % (self.name, live))
            if keyvar is None or keyvar in (assigned_names(s.body) - set()):
                if keyvar is None or any(isinstance(n, ast.Name) and isinstance(n.ctx, ast.Store) and n.id == keyvar
                                         for b in s.body for n in ast.walk(b)):
                    raise Reject("%s: iteration over the live container %s" % (self.name, live))
        itv = self.expr(it, env, out, s)
        items = self.fresh("items")
        out.append("%s <- py_iter %s ;;\n" % (items, itv))
        names = sorted(assigned_names(s.body) | set(tnames))
        benv = dict(env)
        for v in names:
            if benv.get(v) != "def":
                benv[v] = "maybe"
        x, sg = self.fresh("x"), self.fresh("st")
        lctx = Ctx(on_return=lambda v: "Ok (LReturn %s)" % v,
                   on_break=lambda e: "Ok (LBreak %s)" % self.pack(e, names),
                   on_continue=lambda e: "Ok (LNext %s)" % self.pack(e, names), in_loop=True)
        bout = []
        self.bind_target(s.target, x, benv, bout)
        body = self.block(s.body, benv, lctx, Cont(lambda e: "Ok (LNext %s)" % self.pack(e, names), True),
                          loopstack + [s])
        bodyf = "(fun %s %s =>\n%s%s%s)" % (x, sg, self.unpack([v for v in names if env.get(v) == "def"], sg),
                                            "".join(bout), body)
        init = self.pack(env, names)
        aenv = dict(env)
        for v in names:
            if aenv.get(v) != "def":
                aenv[v] = "maybe"
        r, sg2 = self.fresh("r"), self.fresh("st")
        after = self.block(rest, aenv, ctx, k, loopstack)
        if ctx.on_return is None:
            raise Reject("%s: loop inside try" % self.name)
        return ("".join(out) + "%s <- py_for %s\n%s\n%s ;;\nmatch %s with\n| LDone %s =>\n%s%s\n| LRet v => %s\nend"
                % (r, items, bodyf, init, r, sg2,
                   self.unpack([v for v in names if env.get(v) == "def"], sg2), after, ctx.on_return("v")))

    def bind_target(self, t, v, env, out):
        if isinstance(t, ast.Name):
            out.append("let %s := %s in\n" % (ident(t.id), v))
            env[t.id] = "def"
            return
        if isinstance(t, ast.Tuple) and all(isinstance(e, ast.Name) for e in t.elts) and 2 <= len(t.elts) <= 4:
            n = len(t.elts)
            pat = ", ".join(ident(e.id) for e in t.elts)
            out.append("'(%s) <- py_unpack%d %s ;;\n" % (pat, n, v))
            for e in t.elts:
                env[e.id] = "def"
            return
        raise Reject("%s: assignment target %s" % (self.name, clean(ast.unparse(t))))

    def assign(self, s, env, out):
        t = s.targets[0]
        if isinstance(t, ast.Subscript):
            if not isinstance(t.value, ast.Name):
                raise Reject("%s: store into %s" % (self.name, clean(ast.unparse(t.value))))
            v = self.expr(s.value, env, out, s)
            c = self.read(t.value.id, env)
            kx = self.expr(t.slice, env, out, s)
            out.append("%s <- py_setitem %s %s %s ;;\n" % (ident(t.value.id), c, kx, v))
            return
        if isinstance(t, ast.Tuple) and isinstance(s.value, ast.Tuple) and len(t.elts) == len(s.value.elts) \
                and all(isinstance(e, ast.Name) for e in t.elts):
            vs = [self.expr(e, env, out, s) for e in s.value.elts]
            tmp = [self.fresh("t") for _ in vs]
            for a, b in zip(tmp, vs):
                out.append("let %s := %s in\n" % (a, b))
            for e, a in zip(t.elts, tmp):
                out.append("let %s := %s in\n" % (ident(e.id), a))
                env[e.id] = "def"
            return
        v = self.expr(s.value, env, out, s)
        self.bind_target(t, v, env, out)

    def exn_value(self, e, env):
        if isinstance(e, ast.Call) and isinstance(e.func, ast.Name) and e.func.id in EXNS and e.func.id != "NotTranslated":
            if e.func.id == "ISO8601SyntaxError" and self.u.module_names.get(e.func.id, (None,))[0] != "from":
                raise Reject("ISO8601SyntaxError is not the imported class")
            for a in e.args:
                if isinstance(a, ast.Constant):
                    continue
                if isinstance(a, ast.Name):
                    self.read(a.id, env)
                    continue
                raise Reject("%s: exception argument %s" % (self.name, clean(ast.unparse(a))))
            if e.keywords:
                raise Reject("%s: exception keywords" % self.name)
            return e.func.id
        raise Reject("%s: raise %s" % (self.name, clean(ast.unparse(e))))

    # expressions --------------------------------------------------------
    def binop(self, op):
        for cls, f in ((ast.Add, "py_add"), (ast.Sub, "py_sub"), (ast.Mult, "py_mul"), (ast.Pow, "py_pow")):
            if isinstance(op, cls):
                return f
        raise Reject("%s: operator %s" % (self.name, type(op).__name__))

    def cond(self, e, env, out):
        """A Coq bool for the truth value of e."""
        if isinstance(e, ast.UnaryOp) and isinstance(e.op, ast.Not):
            return "negb (%s)" % self.cond(e.operand, env, out)
        if isinstance(e, ast.Compare):
            return self.compare(e, env, out)
        v = self.expr(e, env, out, None)
        return "py_truthy %s" % v

    def compare(self, e, env, out):
        if len(e.ops) != 1:
            raise Reject("%s: chained comparison" % self.name)
        op, a, b = e.ops[0], e.left, e.comparators[0]
        if isinstance(op, (ast.Is, ast.IsNot)):
            if not (isinstance(b, ast.Constant) and b.value is None):
                raise Reject("%s: `is` with something other than None" % self.name)
            x = self.expr(a, env, out, None)
            t = "py_is_none %s" % x
            return t if isinstance(op, ast.Is) else "negb (%s)" % t
        x = self.expr(a, env, out, None)
        y = self.expr(b, env, out, None)
        r = self.fresh("b")
        if isinstance(op, (ast.Eq, ast.NotEq)):
            out.append("%s <- py_eq %s %s ;;\n" % (r, x, y))
            return r if isinstance(op, ast.Eq) else "negb %s" % r
        if isinstance(op, (ast.In, ast.NotIn)):
            out.append("%s <- py_in %s %s ;;\n" % (r, x, y))
            return r if isinstance(op, ast.In) else "negb %s" % r
        raise Reject("%s: comparison %s" % (self.name, type(op).__name__))

    def lazy(self, e, env):
        """e as a self-contained term of type exc pyval (env must not change)."""
        out = []
        before = dict(env)
        v = self.expr(e, env, out, None)
        if env != before:
            raise Reject("%s: a lazily evaluated operand rebinds a local" % self.name)
        return "(%sOk %s)" % ("".join(out), v)

    def const(self, v):
        if v is None:
            return "VNone"
        if v is True or v is False:
            return "(VBool %s)" % ("true" if v else "false")
        if isinstance(v, int):
            return "(VInt %s)" % ("(%d)" % v if v < 0 else "%d" % v)
        if isinstance(v, str):
            if any(ord(c) > 126 or ord(c) < 32 for c in v):
                raise Reject("%s: string constant with a non-printable / non-ASCII character" % self.name)
            return "(VStr %s)" % coq_str(v)
        raise Reject("%s: constant %r" % (self.name, v))

    def expr(self, e, env, out, stmt):
        """Emit bindings into out, return an atom of type pyval."""
        if isinstance(e, ast.Constant):
            return self.const(e.value)
        if isinstance(e, ast.Name):
            return self.read(e.id, env)
        if isinstance(e, (ast.List, ast.Tuple)):
            vs = [self.expr(x, env, out, stmt) for x in e.elts]
            return "(%s [%s])" % ("VList" if isinstance(e, ast.List) else "VTuple", "; ".join(vs))
        if isinstance(e, ast.Dict):
            items = []
            for kx, vx in zip(e.keys, e.values):
                if not (isinstance(kx, ast.Constant) and isinstance(kx.value, str)):
                    raise Reject("%s: dict literal with a key that is not a string constant" % self.name)
                items.append((kx.value, self.expr(vx, env, out, stmt)))
            if len({k for k, _ in items}) != len(items):
                raise Reject("%s: dict literal with a repeated key" % self.name)
            return "(VDict [%s])" % "; ".join("(%s, %s)" % (coq_str(k), v) for k, v in items)
        if isinstance(e, ast.Attribute):
            if isinstance(e.value, ast.Name) and e.value.id == "self" and "self" not in env:
                if self.static:
                    raise Reject("%s: self in a staticmethod" % self.name)
                if e.attr in self.u.fields:
                    return "(f_%s self)" % e.attr
                raise Reject("%s: self.%s is not a data attribute" % (self.name, e.attr))
            if isinstance(e.value, ast.Name) and e.value.id == "parser_spec" and e.attr == "TIME_DESIGNATOR":
                return self.const(self.u.time_designator)
            raise Reject("%s: attribute %s" % (self.name, clean(ast.unparse(e))))
        if isinstance(e, ast.UnaryOp):
            if isinstance(e.op, ast.Not):
                c = self.cond(e, env, out)
                return "(VBool (%s))" % c
            if isinstance(e.op, ast.USub):
                if isinstance(e.operand, ast.Constant) and isinstance(e.operand.value, int) \
                        and not isinstance(e.operand.value, bool):
                    return self.const(-e.operand.value)
                v = self.expr(e.operand, env, out, stmt)
                r = self.fresh("t")
                out.append("%s <- py_neg %s ;;\n" % (r, v))
                return r
            raise Reject("%s: unary %s" % (self.name, type(e.op).__name__))
        if isinstance(e, ast.BinOp):
            f = self.binop(e.op)
            a = self.expr(e.left, env, out, stmt)
            b = self.expr(e.right, env, out, stmt)
            r = self.fresh("t")
            out.append("%s <- %s %s %s ;;\n" % (r, f, a, b))
            return r
        if isinstance(e, ast.Compare):
            c = self.compare(e, env, out)
            return "(VBool (%s))" % c
        if isinstance(e, ast.BoolOp):
            a = self.expr(e.values[0], env, out, stmt)
            for nxt in e.values[1:]:
                b = self.lazy(nxt, env)
                r = self.fresh("t")
                if isinstance(e.op, ast.And):
                    out.append("%s <- (if py_truthy %s then %s else Ok %s) ;;\n" % (r, a, b, a))
                else:
                    out.append("%s <- (if py_truthy %s then Ok %s else %s) ;;\n" % (r, a, a, b))
                a = r
            return a
        if isinstance(e, ast.IfExp):
            c = self.cond(e.test, env, out)
            r = self.fresh("t")
            out.append("%s <- (if %s then %s else %s) ;;\n" % (r, c, self.lazy(e.body, env), self.lazy(e.orelse, env)))
            return r
        if isinstance(e, ast.Subscript):
            if isinstance(e.slice, ast.Slice):
                sl = e.slice
                if sl.lower is None and sl.step is None and isinstance(sl.upper, ast.UnaryOp) \
                        and isinstance(sl.upper.op, ast.USub) and isinstance(sl.upper.operand, ast.Constant) \
                        and sl.upper.operand.value == 1:
                    v = self.expr(e.value, env, out, stmt)
                    r = self.fresh("t")
                    out.append("%s <- py_drop_last %s ;;\n" % (r, v))
                    return r
                raise Reject("%s: slice %s" % (self.name, clean(ast.unparse(e))))
            c = self.expr(e.value, env, out, stmt)
            kx = self.expr(e.slice, env, out, stmt)
            r = self.fresh("t")
            out.append("%s <- py_getitem %s %s ;;\n" % (r, c, kx))
            return r
        if isinstance(e, ast.Call):
            return self.call(e, env, out, stmt)
        raise Reject("%s: expression %s" % (self.name, type(e).__name__))

    def genexp_fun(self, g, env):
        if len(g.generators) != 1:
            raise Reject("%s: nested generator expression" % self.name)
        c = g.generators[0]
        if c.ifs or c.is_async or not isinstance(c.target, ast.Name):
            raise Reject("%s: generator expression with a filter / a pattern" % self.name)
        if c.target.id in env or c.target.id in BUILTINS or c.target.id in self.u.module_names:
            # the comprehension variable has its own scope in Python 3; keep it simple
            raise Reject("%s: comprehension variable %s shadows another name" % (self.name, c.target.id))
        out = []
        itv = self.expr(c.iter, env, out, None)
        env2 = dict(env)
        env2[c.target.id] = "def"
        body = self.lazy(g.elt, env2)
        return out, itv, "(fun %s => %s)" % (ident(c.target.id), body)

    def call(self, e, env, out, stmt):
        f = e.func
        r = self.fresh("t")
        # builtins
        if isinstance(f, ast.Name):
            if f.id in ("any", "all"):
                if len(e.args) != 1 or e.keywords or not isinstance(e.args[0], ast.GeneratorExp):
                    raise Reject("%s: %s(..) of something other than one generator expression" % (self.name, f.id))
                pre, itv, fn = self.genexp_fun(e.args[0], env)
                out.extend(pre)
                items = self.fresh("items")
                out.append("%s <- py_iter %s ;;\n" % (items, itv))
                out.append("%s <- py_%s %s %s ;;\n" % (r, f.id, items, fn))
                return r
            if f.id in ("int", "float", "len", "list"):
                if len(e.args) != 1 or e.keywords:
                    raise Reject("%s: %s with other than one argument" % (self.name, f.id))
                v = self.expr(e.args[0], env, out, stmt)
                out.append("%s <- py_%s %s ;;\n" % (r, f.id, v))
                return r
            if f.id == "bool" and len(e.args) == 1 and not e.keywords:
                v = self.expr(e.args[0], env, out, stmt)
                return "(VBool (py_truthy %s))" % v
            raise Reject("%s: call of %s" % (self.name, f.id))
        if not isinstance(f, ast.Attribute):
            raise Reject("%s: call of %s" % (self.name, clean(ast.unparse(f))))
        # the two abstract operations
        if isinstance(f.value, ast.Name) and f.value.id == "timezone" and f.attr == "get_local_time_zone":
            if e.args or e.keywords:
                raise Reject("%s: get_local_time_zone with arguments" % self.name)
            self.u.used_ops.add("op_get_local_time_zone")
            out.append("%s <- op_get_local_time_zone ops ;;\n" % r)
            return r
        if isinstance(f.value, ast.Name) and f.value.id == "data" and f.attr == "TimePoint":
            if e.args or not e.keywords or e.keywords[0].arg is not None:
                raise Reject("%s: data.TimePoint call is not of the form TimePoint(**info, k=v, ..)" % self.name)
            d = self.expr(e.keywords[0].value, env, out, stmt)
            kws = []
            for kw in e.keywords[1:]:
                if kw.arg is None:
                    raise Reject("%s: second ** in the TimePoint call" % self.name)
                kws.append("(%s, %s)" % (coq_str(kw.arg), self.expr(kw.value, env, out, stmt)))
            kd = self.fresh("kw")
            out.append("%s <- py_kwargs %s [%s] ;;\n" % (kd, d, "; ".join(kws)))
            self.u.used_ops.add("op_TimePoint")
            out.append("%s <- op_TimePoint ops %s ;;\n" % (r, kd))
            return r
        # methods of the class
        if isinstance(f.value, ast.Name) and f.value.id == "self" and "self" not in env:
            return self.self_call(e, f.attr, env, out, stmt, r)
        # methods of values
        m = f.attr
        if e.keywords:
            raise Reject("%s: keyword arguments in .%s(..)" % (self.name, m))
        if m in MUTATORS:
            if not isinstance(f.value, ast.Name):
                raise Reject("%s: .%s on something other than a local" % (self.name, m))
            nm = f.value.id
            recv = self.read(nm, env)
            args = [self.expr(a, env, out, stmt) for a in e.args]
            if m == "pop" and len(args) in (1, 2):
                d = "(Some %s)" % args[1] if len(args) == 2 else "None"
                out.append("'(%s, %s) <- py_pop %s %s %s ;;\n" % (r, ident(nm), recv, args[0], d))
                return r
            if m in ("update", "remove", "append") and len(args) == 1:
                out.append("%s <- py_%s %s %s ;;\n" % (ident(nm), m, recv, args[0]))
                return "VNone"
            raise Reject("%s: .%s with %d arguments" % (self.name, m, len(args)))
        recv = self.expr(f.value, env, out, stmt)
        args = [self.expr(a, env, out, stmt) for a in e.args]
        table = {("get", 1): "py_get %s %s VNone", ("get", 2): "py_get %s %s %s", ("items", 0): "py_items %s",
                 ("keys", 0): "py_keys %s", ("split", 1): "py_split %s %s", ("endswith", 1): "py_endswith %s %s",
                 ("startswith", 1): "py_startswith %s %s", ("match", 1): "py_re_match %s %s",
                 ("groupdict", 0): "py_groupdict %s"}
        if (m, len(args)) in table:
            out.append("%s <- %s ;;\n" % (r, table[(m, len(args))] % tuple([recv] + args)))
            return r
        if m == "rsplit" and len(e.args) == 2 and isinstance(e.args[1], ast.Constant) and e.args[1].value == 1:
            out.append("%s <- py_rsplit1 %s %s ;;\n" % (r, recv, args[0]))
            return r
        raise Reject("%s: method .%s with %d arguments" % (self.name, m, len(args)))

    def self_call(self, e, m, env, out, stmt, r):
        if m in OUT_OF_SCOPE:
            raise Reject("%s: call of self.%s (out of scope)" % (self.name, m))
        self.u.method(m)
        sig = self.u.sigs[m]
        if len(e.args) > len(sig):
            raise Reject("%s: too many arguments for %s" % (self.name, m))
        given = {}
        nodes = {}
        for (p, _), a in zip(sig, e.args):
            nodes[p] = a
        for kw in e.keywords:
            if kw.arg is None or kw.arg in nodes or kw.arg not in [p for p, _ in sig]:
                raise Reject("%s: keyword %s in the call of %s" % (self.name, kw.arg, m))
            nodes[kw.arg] = kw
        # evaluation order: positional then keywords, in source order
        for p, _ in sig:
            if p in nodes and not isinstance(nodes[p], ast.keyword):
                given[p] = self.expr(nodes[p], env, out, stmt)
        for kw in e.keywords:
            given[kw.arg] = self.expr(kw.value, env, out, stmt)
        args = []
        for i, (p, d) in enumerate(sig):
            if p in given:
                args.append(given[p])
                node = nodes[p].value if isinstance(nodes[p], ast.keyword) else nodes[p]
                if i in self.u.mut_params[m] and isinstance(node, ast.Name):
                    if stmt is None or not self.dead_after(node.id, e, stmt):
                        raise Reject("%s: %s is passed to %s, which mutates it, and is read again afterwards"
                                     % (self.name, node.id, m))
                    if self.in_loop_stmt(e):
                        raise Reject("%s: %s is passed to a mutating method inside a loop" % (self.name, node.id))
                elif i in self.u.mut_params[m] and not isinstance(node, (ast.Dict, ast.List, ast.Call)):
                    raise Reject("%s: argument %s of %s (mutated by the callee)" % (self.name, clean(ast.unparse(node)), m))
            elif d is not None:
                args.append(self.const(d.value))
            else:
                raise Reject("%s: missing argument %s of %s" % (self.name, p, m))
        out.append("%s <- py_%s ops self %s ;;\n" % (r, m, " ".join(args)) if args else "%s <- py_%s ops self ;;\n" % (r, m))
        return r

    def in_loop_stmt(self, call):
        for n in ast.walk(self.node):
            if isinstance(n, ast.For):
                for b in n.body:
                    if call in ast.walk(b):
                        return True
        return False


# --------------------------------------------------------------------------
def build_text():
    rejected = []      # (name, reason)
    covered = []
    body = []
    wholesale = None
    try:
        u = Unit()
    except Reject as ex:
        u, wholesale = None, clean(ex)
    except Exception as ex:  # fail closed
        u, wholesale = None, "translator error: " + clean(repr(ex))
    fields = ["num_expanded_year_digits", "allow_truncated", "allow_only_basic", "assumed_time_zone",
              "default_to_unknown_time_zone", "dump_format", "_date_regex_map", "_time_regex_map",
              "_time_zone_regex_map"]
    subs = u.valueerror_subs if u else []
    hdr = ["(* GENERATED by tools/translate_code8.py from the method bodies of class TimePointParser",
           "   (metomi/isodatetime/parsers.py).  Do not edit.  See notes/GENCODE8_REPORT.md. *)",
           "From Coq Require Import ZArith QArith Qround List Bool String Ascii.",
           "From Iso Require Import Model.Num Model.Forms Model.Parse.",
           "Import ListNotations.",
           "Local Open Scope string_scope.",
           "Local Open Scope Z_scope.",
           "",
           "Definition VALUEERROR_SUBCLASSES_names : list string := [%s]." % "; ".join(coq_str(s) for s in subs),
           ]
    prelude = PRELUDE.replace("VALUEERROR_SUBCLASSES", "[%s]" % "; ".join(subs))
    rec = ("Record pyParser := mkParser {\n"
           + ";\n".join("  f_%s : pyval" % f for f in fields) + " }.\n")
    entry_ok = {}
    if u is not None:
        for m in ENTRIES:
            try:
                u.method(m)
                entry_ok[m] = True
            except Reject as ex:
                entry_ok[m] = False
                rejected.append((m, clean(ex)))
            except Exception as ex:  # fail closed
                entry_ok[m] = False
                rejected.append((m, "translator error: " + clean(repr(ex))))
        for m in u.order:
            body.append(u.done[m])
        covered = [m for m in ENTRIES if entry_ok[m]]
        helpers = [m for m in u.order if m not in ENTRIES]
        for m in u.methods:
            if m in OUT_OF_SCOPE:
                rejected.append((m, "out of scope: " + OUT_OF_SCOPE[m]))
            elif m not in u.done and m not in ENTRIES:
                rejected.append((m, "not reachable from the entry points; not attempted"))
    else:
        helpers = []
        for m in ENTRIES:
            entry_ok[m] = False
            rejected.append((m, wholesale))
    dummies = []
    for m in ENTRIES:
        if not entry_ok[m]:
            dummies.append("(* REJECTED: %s *)\nDefinition py_%s : unit := tt.\n" % (dict(rejected)[m], m))
    ok = all(entry_ok.values())
    tail = [
        "Definition COVERED_code8 : list string := [%s]." % "; ".join(coq_str(m) for m in covered),
        "Definition HELPERS_code8 : list string := [%s]." % "; ".join(coq_str(m) for m in helpers),
        "Definition USED_OPS_code8 : list string := [%s]." % "; ".join(coq_str(m) for m in sorted(u.used_ops if u else [])),
        "Definition TIME_DESIGNATOR_code8 : string := %s." % coq_str(u.time_designator if u else ""),
        "Definition REJECTED_code8 : list (string * string) :=\n  [%s]."
        % ";\n   ".join("(%s, %s)" % (coq_str(a), coq_str(b)) for a, b in rejected),
        "Definition translator_ok_code8 : bool := %s." % ("true" if ok else "false"),
        "Ltac code8_helpers_unfold := %s." % ("unfold " + ", ".join("py_" + h for h in helpers) if helpers else "idtac"),
        "Ltac code8_helpers_unfold_in H := %s." % ("unfold " + ", ".join("py_" + h for h in helpers) + " in H" if helpers else "idtac"),
    ]
    text = "\n".join(hdr) + "\n" + prelude + "\n" + rec + "\n" + "\n".join(body) + "\n" + "\n".join(dummies) + "\n" + "\n".join(tail) + "\n"
    import re
    text = re.sub(r"\b(Admitted|admit|Axiom|Axioms|Parameter|Parameters|Conjecture)\b", lambda mm: mm.group(0)[0] + "_" + mm.group(0)[1:], text)
    return text, ok, rejected


def gen_code8():
    text, ok, rejected = build_text()
    ch = write_if_changed("GenCode8.v", text)
    return ok, rejected, ch


if __name__ == "__main__":
    ok, rejected, ch = gen_code8()
    print("GenCode8.v:", "translator_ok_code8 =", ok, "|", "changed" if ch else "nothing changed")
    for a, b in rejected:
        if not b.startswith("out of scope") and not b.startswith("not reachable"):
            print("  REJECTED", a, ":", b)
