#!/venv/bin/python
"""GenCode7.v generator: the constructor and validity check of class TimePoint -> Gallina.

Phase 4 (translate_code4.py) translates the arithmetic methods of class TimePoint
over the state record pyTimePoint and takes the states "as __init__ leaves them"
for granted.  This generator translates what property C09 rests on:

  * TimePoint._check_bounds          (with _bounds_checker and the calendar helpers
                                      of phases 1-2 it calls),
  * TimeZone.__init__                (with _int_caster, _bounds_checker),
  * TimePoint.__init__               (type checks, decimal parts, conflicts,
                                      defaulting, time zone, _check_bounds()).

It is a subclass of phase 4's ClassUnit (same state records, same expression and
statement translation, same ownership / definite-assignment discipline) with:

  * the exception BadInputError (`raise BadInputError(...)`; the arguments of the
    exception must be of shapes known not to raise and are not evaluated), and
    `try: ... except (TypeError, ValueError): raise ...`  (py_try; BadInputError
    is a ValueError, read from exceptions.py on every run);
  * module-level helpers outside phases 1-2 (_bounds_checker, _int_caster, and
    whatever a refactor extracts, e.g. _decimal_caster) translated here, once per
    type signature of their arguments (None-able ints / int-or-floats, static
    None / bool defaults, strings passed along opaquely);
  * an `if` whose branches raise but do not return is translated as a monadic
    conditional (the rest of the block is NOT duplicated);
  * TimeZone(...) with dynamic arguments through the translated TimeZone.__init__;
    __init__ methods as functions returning the state they leave, starting from
    an instance none of whose slots is assigned (definite assignment checked);
  * staticmethods, bool(), isinstance(x, str), `x [not] in [<str constants>]`;
  * the set_mode-assigned attributes MAX_DAYS_IN_MONTH and MAX_WEEKS_IN_YEAR
    (record pyCalendar7).
_type_checker is read semantically: its body only looks at the class of a value, so it
is executed at translation time on an abstract value of every run-time class the static
type of a listed parameter admits (ClassInterp); the call is a no-op for the typed entry
point iff none of these runs raises.  Methods that store to slots of self
(_set_date_defaults after a refactor) are state transformers as in phase 4.
Fail closed: see notes/GENCODE7_REPORT.md.
"""
import ast
import os
import re
import sys

sys.path.insert(0, os.path.dirname(os.path.abspath(__file__)))
import translate  # noqa: E402
from translate import Reject, write_if_changed, coq_str  # noqa: E402
import translate_code  # noqa: E402,F401  (redirects translate.OUT for VERIF_GEN_OUT)
from translate_code import zlit, clean  # noqa: E402
import translate_code2 as tc2  # noqa: E402
import translate_code4 as tc4  # noqa: E402
from translate_code4 import (  # noqa: E402
    Z, Q, B, NONE, OPQ, OPT, TP, TZ, Val, Env, Ctx, Fn, Static,
    is_opt, is_obj, is_static, join, coerce, contains, always_returns, fld, setter)

SRC = tc4.SRC
S = "S"                       # a Python str, passed along opaquely (Coq: string)

# CALENDAR attributes assigned by Calendar.set_mode: the fields of pyCalendar7
CAL7_FIELDS = list(tc4.CAL_FIELDS) + [("MAX_DAYS_IN_MONTH", Z), ("MAX_WEEKS_IN_YEAR", Z)]
CAL7_TY = dict(CAL7_FIELDS)
CLASS_CONSTS7 = ["SECONDS_IN_MINUTE", "MINUTES_IN_HOUR", "HOURS_IN_DAY", "DAYS_IN_WEEK",
                 "ROUGH_DAYS_IN_MONTH"]

# TimeZone.__init__: the slots of the value record, and the Duration slots that must
# receive exactly these constants (GenCode4.tz_duration is written against them)
TZ_FIXED = {"_years": 0, "_months": 0, "_days": 0, "_seconds": 0, "_weeks": None}
TZ_ALL = frozenset(list(tc4.TZ_SLOTS) + list(TZ_FIXED))

# the typed entry point of TimePoint.__init__ (the keyword arguments the model's
# `construct` takes); the parameter list must be exactly this
INIT_PARAMS = [
    ("num_expanded_year_digits", Z), ("year", OPT(Z)), ("month_of_year", OPT(Z)),
    ("week_of_year", OPT(Z)), ("day_of_year", OPT(Z)), ("day_of_month", OPT(Z)),
    ("day_of_week", OPT(Z)), ("hour_of_day", OPT(Q)), ("hour_of_day_decimal", OPT(Q)),
    ("minute_of_hour", OPT(Q)), ("minute_of_hour_decimal", OPT(Q)),
    ("second_of_minute", OPT(Q)), ("second_of_minute_decimal", OPT(Q)),
    ("time_zone_hour", OPT(Z)), ("time_zone_minute", OPT(Z)), ("dump_format", OPQ),
    ("truncated", B), ("truncated_dump_format", OPQ), ("truncated_property", OPQ),
    ("is_empty_instance", ("SB", False)), ("is_duration", B),
]
TZ_INIT_PARAMS = [("hours", OPT(Z)), ("minutes", OPT(Z)), ("unknown", B),
                  ("_is_empty_instance", ("SB", False))]

# ---------------------------------------------------------------------------
# _type_checker: read semantically.  The helper only ever looks at the *class* of the value it is
# given (`value is None`, isinstance, type()); for a parameter whose static type admits the run-time
# classes C1..Cn its body is executed here, at translation time, on an abstract value of each class
# (everything else it handles -- the tuple of allowed types -- is static).  The call is a no-op for
# the typed entry point iff every such run ends its loop iteration without raising, returning or
# calling anything; whatever is outside this little language is a rejection.
class _Abs:
    """a run-time value of which only the class is known"""

    def __init__(self, cls):
        self.cls = cls


class _Continue(Exception):
    pass


class _Return(Exception):
    pass


NONETYPE = type(None)


def runtime_classes(ty):
    """the classes of the Python values a static type of an entry point stands for"""
    if ty == Z:
        return [int]
    if ty == Q:
        return [int, float]
    if ty == S:
        return [str]
    if ty == B:
        return [bool]
    if ty == OPQ:
        return [NONETYPE, str]
    if is_opt(ty) and ty[1] in (Z, Q):
        return [NONETYPE] + runtime_classes(ty[1])
    raise Reject("_type_checker on a value of static type %r" % (ty,))


class ClassInterp:
    """executes the body of a helper whose behaviour depends only on the classes of its arguments"""
    TYPES = {"int": int, "float": float, "str": str, "bool": bool}

    def __init__(self, node):
        a = node.args
        if node.decorator_list or a.posonlyargs or a.args or a.kwonlyargs or a.kwarg or a.vararg is None:
            raise Reject("_type_checker is not `def _type_checker(*<name>)`")
        self.node = node
        self.vararg = a.vararg.arg

    def run(self, objects):
        """the call _type_checker(*objects): returns normally, or Reject"""
        env = {self.vararg: tuple(objects)}
        body = [st for st in self.node.body
                if not (isinstance(st, ast.Expr) and isinstance(st.value, ast.Constant))]
        try:
            self.block(body, env)
        except _Return:
            pass
        except _Continue:
            raise Reject("_type_checker: continue outside a loop")

    def block(self, stmts, env):
        for st in stmts:
            self.stmt(st, env)

    def stmt(self, st, env):
        if isinstance(st, ast.For):
            if st.orelse or not isinstance(st.target, ast.Name):
                raise Reject("_type_checker: for/else or a loop target that is not a name")
            items = self.expr(st.iter, env)
            if not isinstance(items, (tuple, list)):
                raise Reject("_type_checker: loop over something that is not a static sequence")
            for n in ast.walk(ast.Module(body=st.body, type_ignores=[])):
                if isinstance(n, ast.Name) and n.id == self.vararg:
                    raise Reject("_type_checker: the loop body looks at the whole argument list")
                if isinstance(n, ast.Break):
                    raise Reject("_type_checker: break")
            for item in list(items):
                # every iteration starts from the environment at loop entry: a local of an earlier
                # iteration that is read before being assigned again is an unbound name here (rejected)
                it_env = dict(env)
                it_env[st.target.id] = item
                try:
                    self.block(st.body, it_env)
                except _Continue:
                    pass
            return
        if isinstance(st, ast.Assign):
            v = self.expr(st.value, env)
            for t in st.targets:
                self.assign(t, v, env)
            return
        if isinstance(st, ast.If):
            self.block(st.body if self.truth(self.expr(st.test, env)) else st.orelse, env)
            return
        if isinstance(st, ast.Continue):
            raise _Continue()
        if isinstance(st, ast.Pass):
            return
        if isinstance(st, ast.Return):
            if st.value is not None and not (isinstance(st.value, ast.Constant) and st.value.value is None):
                raise Reject("_type_checker returns a value")
            raise _Return()
        if isinstance(st, ast.Raise):
            raise Reject("_type_checker raises (%s)" % ast.unparse(st.exc)[:60])
        if isinstance(st, ast.Expr) and isinstance(st.value, ast.Call) \
                and isinstance(st.value.func, ast.Attribute) and st.value.func.attr in ("append", "remove") \
                and len(st.value.args) == 1 and not st.value.keywords:
            lst = self.expr(st.value.func.value, env)
            if not isinstance(lst, list):
                raise Reject("_type_checker: .%s on something that is not a local list" % st.value.func.attr)
            x = self.static(self.expr(st.value.args[0], env))
            if st.value.func.attr == "append":
                lst.append(x)
            elif x in lst:
                lst.remove(x)
            else:
                raise Reject("_type_checker: list.remove of a missing element (ValueError)")
            return
        raise Reject("_type_checker: statement `%s`" % ast.unparse(st)[:60])

    def assign(self, t, v, env):
        if isinstance(t, ast.Name):
            if t.id == self.vararg:
                raise Reject("_type_checker assigns its argument list")
            env[t.id] = v
        elif isinstance(t, ast.Tuple) and all(isinstance(e, ast.Name) for e in t.elts):
            if not isinstance(v, (tuple, list)) or len(v) != len(t.elts):
                raise Reject("_type_checker: unpacking")
            for e, x in zip(t.elts, v):
                self.assign(e, x, env)
        elif isinstance(t, ast.Tuple) and sum(isinstance(e, ast.Starred) for e in t.elts) == 1 \
                and all(isinstance(e.value if isinstance(e, ast.Starred) else e, ast.Name) for e in t.elts):
            # a, b, *rest = seq: rest is a fresh list of the items not taken by the other names
            i = [isinstance(e, ast.Starred) for e in t.elts].index(True)
            after = len(t.elts) - i - 1
            if not isinstance(v, (tuple, list)) or len(v) < len(t.elts) - 1:
                raise Reject("_type_checker: unpacking")
            v = list(v)
            for e, x in zip(t.elts[:i], v[:i]):
                self.assign(e, x, env)
            self.assign(t.elts[i].value, v[i:len(v) - after], env)
            for e, x in zip(t.elts[i + 1:], v[len(v) - after:]):
                self.assign(e, x, env)
        else:
            raise Reject("_type_checker: assignment target `%s`" % ast.unparse(t))

    @staticmethod
    def static(v):
        if isinstance(v, _Abs):
            raise Reject("_type_checker uses the value itself, not only its class")
        return v

    def truth(self, v):
        v = self.static(v)
        if isinstance(v, (bool, str, tuple, list)) or v is None:
            return bool(v)
        raise Reject("_type_checker: truth value of %r" % (v,))

    def expr(self, n, env):
        if isinstance(n, ast.Constant):
            if n.value is None or isinstance(n.value, (bool, str, int)):
                return n.value
            raise Reject("_type_checker: constant %r" % (n.value,))
        if isinstance(n, ast.Name):
            if n.id in env:
                return env[n.id]
            if n.id in self.TYPES:
                return self.TYPES[n.id]
            raise Reject("_type_checker: name %s is not bound here" % n.id)
        if isinstance(n, (ast.Tuple, ast.List)):
            vals = [self.expr(e, env) for e in n.elts]
            return tuple(vals) if isinstance(n, ast.Tuple) else vals
        if isinstance(n, ast.Subscript):
            seq = self.expr(n.value, env)
            if not isinstance(seq, (tuple, list)):
                raise Reject("_type_checker: subscript of something that is not a static sequence")

            def const(x):
                if x is None:
                    return None
                if isinstance(x, ast.Constant) and type(x.value) is int:
                    return x.value
                if isinstance(x, ast.UnaryOp) and isinstance(x.op, ast.USub) \
                        and isinstance(x.operand, ast.Constant) and type(x.operand.value) is int:
                    return -x.operand.value
                raise Reject("_type_checker: subscript that is not an int literal")
            if isinstance(n.slice, ast.Slice):
                if n.slice.step is not None:
                    raise Reject("_type_checker: slice step")
                return seq[const(n.slice.lower):const(n.slice.upper)]
            i = const(n.slice)
            if not -len(seq) <= i < len(seq):
                raise Reject("_type_checker: index out of range")
            return seq[i]
        if isinstance(n, ast.UnaryOp) and isinstance(n.op, ast.Not):
            return not self.truth(self.expr(n.operand, env))
        if isinstance(n, ast.BoolOp):
            v = None
            for e in n.values:
                v = self.expr(e, env)
                t = self.truth(v)
                if t != isinstance(n.op, ast.And):
                    return v
            return v
        if isinstance(n, ast.IfExp):
            return self.expr(n.body if self.truth(self.expr(n.test, env)) else n.orelse, env)
        if isinstance(n, ast.Compare) and len(n.ops) == 1:
            a, b = self.expr(n.left, env), self.expr(n.comparators[0], env)
            op = n.ops[0]
            if isinstance(op, (ast.Is, ast.IsNot)):
                if b is not None or isinstance(n.comparators[0], ast.Name):
                    if not (isinstance(n.comparators[0], ast.Constant) and n.comparators[0].value is None):
                        raise Reject("_type_checker: `is` with something other than None")
                r = (a.cls is NONETYPE) if isinstance(a, _Abs) else (a is None)
                return r if isinstance(op, ast.Is) else not r
            if isinstance(op, (ast.In, ast.NotIn)):
                a = self.static(a)
                if not isinstance(b, (tuple, list)) or any(isinstance(x, _Abs) for x in b):
                    raise Reject("_type_checker: `in` on something that is not a static sequence")
                if not (a is None or isinstance(a, type)) or not all(x is None or isinstance(x, type) for x in b):
                    raise Reject("_type_checker: `in` on values other than classes / None")
                r = any(x is a for x in b)      # classes and None: == is identity
                return r if isinstance(op, ast.In) else not r
            raise Reject("_type_checker: comparison `%s`" % ast.unparse(n))
        if isinstance(n, ast.Call) and isinstance(n.func, ast.Name) and n.func.id not in env:
            f = n.func.id
            if n.keywords and f in ("list", "tuple", "type", "isinstance", "any", "all"):
                raise Reject("_type_checker: keywords in %s()" % f)
            if f in ("list", "tuple") and len(n.args) == 1:
                v = self.expr(n.args[0], env)
                if not isinstance(v, (tuple, list)):
                    raise Reject("_type_checker: %s() of something that is not a static sequence" % f)
                return list(v) if f == "list" else tuple(v)
            if f == "type" and len(n.args) == 1:
                v = self.expr(n.args[0], env)
                if isinstance(v, _Abs):
                    return v.cls
                if v is None:
                    return NONETYPE
                raise Reject("_type_checker: type() of %r" % (v,))
            if f == "isinstance" and len(n.args) == 2:
                v, c = self.expr(n.args[0], env), self.expr(n.args[1], env)
                cs = c if isinstance(c, tuple) else (c,)
                if not isinstance(v, _Abs) or not cs or not all(isinstance(x, type) for x in cs):
                    raise Reject("_type_checker: isinstance(%s)" % ast.unparse(n)[:60])
                return any(issubclass(v.cls, x) for x in cs)
            if f in ("any", "all") and len(n.args) == 1 and isinstance(n.args[0], (ast.GeneratorExp, ast.ListComp)):
                g = n.args[0]
                if len(g.generators) != 1 or g.generators[0].ifs or g.generators[0].is_async \
                        or not isinstance(g.generators[0].target, ast.Name):
                    raise Reject("_type_checker: comprehension shape")
                seq = self.expr(g.generators[0].iter, env)
                if not isinstance(seq, (tuple, list)):
                    raise Reject("_type_checker: comprehension over something that is not a static sequence")
                for x in list(seq):       # any / all consume the generator lazily: short circuit
                    e2 = dict(env)
                    e2[g.generators[0].target.id] = x
                    t = self.truth(self.expr(g.elt, e2))
                    if t == (f == "any"):
                        return t
                return f == "all"
            raise Reject("_type_checker calls %s" % f)
        raise Reject("_type_checker: expression `%s`" % ast.unparse(n)[:60])


def coq_type(t):
    if t == S:
        return "string"
    return tc4.coq_type(t)


def sig_code(t):
    if t == Z:
        return "z"
    if t == Q:
        return "q"
    if t == B:
        return "b"
    if t == NONE:
        return "n"
    if t == S:
        return "s"
    if t == OPQ:
        return "os"
    if t == TP:
        return "P"
    if t == TZ:
        return "Y"
    if is_opt(t) and t[1] in (Z, Q):
        return "o" + sig_code(t[1])
    if isinstance(t, tuple) and t[0] == "SB":
        return "T" if t[1] else "F"
    if isinstance(t, tuple) and t[0] == "STR":
        return "k" + "".join(ch for ch in t[1] if ch.isalnum())
    raise Reject("argument of type %r" % (t,))


class Fn7(Fn):
    def __init__(self, name, proc, self_ty=TP):
        Fn.__init__(self, name, proc)
        self.self_ty = self_ty
        self.exc_names = set()     # names bound by `except ... as name`

    def ret_coq(self):
        if self.proc:
            return coq_type(self.self_ty)
        if self.ret_expect is None:
            return "unit"
        return coq_type(self.ret_expect)


class Unit7(tc4.ClassUnit):
    def __init__(self):
        tc4.ClassUnit.__init__(self)
        self.static_methods = set()
        for nm, node in self.methods.items():
            if node is not None and [ast.unparse(d) for d in node.decorator_list] == ["staticmethod"]:
                self.static_methods.add(nm)
        self.exc_info = self.read_exceptions()
        self.tz_methods = {st.name: st for st in self.classes["TimeZone"].body
                           if isinstance(st, ast.FunctionDef)}
        self.type_checker_ok = None

    # ------------------------------------------------------------ exceptions.py
    def read_exceptions(self):
        """class BadInputError: its string attributes and whether it is a ValueError"""
        with open(os.path.join(SRC, "exceptions.py")) as fh:
            tree = ast.parse(fh.read())
        found = [n for n in tree.body if isinstance(n, ast.ClassDef) and n.name == "BadInputError"]
        if len(found) != 1:
            raise Reject("exceptions.py: no unique class BadInputError")
        cls = found[0]
        attrs = set()
        for st in cls.body:
            if isinstance(st, ast.Assign) and len(st.targets) == 1 and isinstance(st.targets[0], ast.Name) \
                    and isinstance(st.value, ast.Constant) and isinstance(st.value.value, str):
                attrs.add(st.targets[0].id)
            elif isinstance(st, ast.FunctionDef) and st.name in ("__init__", "__new__"):
                raise Reject("BadInputError defines %s" % st.name)
        bases = [ast.unparse(b) for b in cls.bases]
        imported = False
        for st in self.tree.body:
            if isinstance(st, ast.ImportFrom) and st.module and st.module.endswith("exceptions") \
                    and any(a.name == "BadInputError" and a.asname is None for a in st.names):
                imported = True
        if not imported:
            raise Reject("data.py does not import BadInputError from the exceptions module")
        for st in self.tree.body:
            if isinstance(st, (ast.FunctionDef, ast.ClassDef)) and st.name == "BadInputError":
                raise Reject("data.py redefines BadInputError")
        return {"attrs": attrs, "is_value_error": "ValueError" in bases}

    # ------------------------------------------------------------ assigned names (with try)
    def assigned_names(self, stmts, env):
        # Try statements are flattened; everything else goes through phase 4's walker
        def flatten(ss):
            out = []
            for s in ss:
                if isinstance(s, Static):
                    out.append(s)
                elif isinstance(s, ast.Try):
                    out += flatten(s.body)
                    for h in s.handlers:
                        out += flatten(h.body)
                    out += flatten(s.orelse) + flatten(s.finalbody)
                elif isinstance(s, ast.If):
                    out.append(ast.If(test=s.test, body=flatten(s.body) or [ast.Pass()],
                                      orelse=flatten(s.orelse)))
                elif isinstance(s, ast.For):
                    out.append(ast.For(target=s.target, iter=s.iter, body=flatten(s.body) or [ast.Pass()],
                                       orelse=flatten(s.orelse)))
                elif isinstance(s, ast.While):
                    out.append(ast.While(test=s.test, body=flatten(s.body) or [ast.Pass()],
                                         orelse=flatten(s.orelse)))
                else:
                    out.append(s)
            return out
        return tc4.ClassUnit.assigned_names(self, flatten(stmts), env)

    # ------------------------------------------------------------ expressions
    def attribute(self, n, env, fx):
        if self.is_calendar(n, env):
            consts, mode_assigned = self.cal
            if n.attr in CAL7_TY:
                if n.attr not in mode_assigned:
                    raise Reject("CALENDAR.%s is not assigned by set_mode" % n.attr)
                return [], Val("(c_%s cal)" % n.attr, CAL7_TY[n.attr])
            if n.attr in CLASS_CONSTS7:
                if n.attr not in consts or n.attr in mode_assigned:
                    raise Reject("CALENDAR.%s is not a mode-independent class constant" % n.attr)
                return [], Val(n.attr, Z)
            raise Reject("CALENDAR.%s is outside the translated attributes" % n.attr)
        return tc4.ClassUnit.attribute(self, n, env, fx)

    def test(self, n, env, fx):
        """as phase 4, but operands after a statically deciding one are not even translated
        (`max_val is not None and value > max_val` with max_val the constant None)"""
        if isinstance(n, ast.BoolOp):
            is_and = isinstance(n.op, ast.And)
            ops = []
            for v in n.values:
                o = self.test(v, env, fx)
                ops.append(o)
                if o[2] is not None and o[2] == (not is_and):
                    break
            return self.shortcut(ops, is_and, fx)
        return tc4.ClassUnit.test(self, n, env, fx)

    def expr(self, n, env, fx):
        if isinstance(n, ast.BoolOp):
            is_and = isinstance(n.op, ast.And)
            ops = []
            for v in n.values:
                b, val = self.expr(v, env, fx)
                if val.ty != B:
                    raise Reject("and/or of a non-bool outside test position")
                ops.append((b, val.text, val.static))
                if val.static is not None and val.static == (not is_and):
                    break
            binds, t, c = self.shortcut(ops, is_and, fx)
            return binds, Val(t, B, static=c)
        return tc4.ClassUnit.expr(self, n, env, fx)

    def compare_vals(self, op, a, b, fx, binds):
        if op in (ast.In, ast.NotIn) and b.ty[0] == "STRLIST" and a.ty in (OPQ, S):
            lst = "[%s]%%string" % "; ".join(coq_str(x) for x in b.ty[1])
            t = "(%s %s %s)" % ("py_ostr_in" if a.ty == OPQ else "py_str_in", a.text, lst)
            return Val(t if op is ast.In else "(negb %s)" % t, B)
        return tc4.ClassUnit.compare_vals(self, op, a, b, fx, binds)

    def arg_val(self, v):
        """a value passed to a callee of this phase: static strings become dynamic ones"""
        if isinstance(v.ty, tuple) and v.ty[0] == "STR":
            return Val("%s%%string" % coq_str(v.ty[1]), S)
        if v.ty == ("SB", True) or v.ty == ("SB", False):
            return Val("true" if v.ty[1] else "false", v.ty)
        if v.text is None:
            raise Reject("argument of type %r" % (v.ty,))
        return v

    def call(self, n, env, fx):
        f = n.func
        if isinstance(f, ast.Name) and f.id not in env.ty:
            if f.id == "bool" and len(n.args) == 1 and not n.keywords:
                b, t, c = self.test(n.args[0], env, fx)
                return b, Val(t, B, static=c)
            if f.id == "isinstance" and len(n.args) == 2 and not n.keywords \
                    and ast.unparse(n.args[1]) == "str":
                b, v = self.expr(n.args[0], env, fx)
                if v.ty == OPQ:
                    return b, Val("(negb (is_none %s))" % v.text, B)
                if v.ty == S or (isinstance(v.ty, tuple) and v.ty[0] == "STR"):
                    return [], Val("true", B, static=True)
                if v.ty == NONE:
                    return [], Val("false", B, static=False)
                raise Reject("isinstance(%r, str)" % (v.ty,))
            if f.id == "TimeZone":
                return self.construct_tz7(n, env, fx)
            if f.id == "_type_checker":
                raise Reject("_type_checker in expression position")
            if f.id in self.u2.funcs:
                return self.modcall7(n, env, fx)
        if isinstance(f, ast.Attribute) and isinstance(f.value, ast.Name) \
                and env.ty.get(f.value.id) == TP and f.attr in self.static_methods:
            # a staticmethod called through an instance: the receiver is not passed (and may
            # still be under construction)
            binds, args = [], []
            if n.keywords or any(isinstance(a, ast.Starred) for a in n.args):
                raise Reject("keyword / starred arguments in a method call")
            for a in n.args:
                b, v = self.expr(a, env, fx)
                binds += b
                args.append(v)
            return binds, self.method_call(f.attr, None, args, fx, binds)
        return tc4.ClassUnit.call(self, n, env, fx)

    # -- module-level functions
    def call_args(self, node, n, env, fx, fname):
        """-> (params, binds, vals): the arguments of a call in Python evaluation order, defaults filled in"""
        a = node.args
        if a.posonlyargs or a.vararg or a.kwonlyargs or a.kwarg or a.kw_defaults:
            raise Reject("%s: parameters other than positional ones" % fname)
        params = [p.arg for p in a.args]
        if len(set(params)) != len(params):
            raise Reject("%s: parameter list" % fname)
        if any(isinstance(x, ast.Starred) for x in n.args) or any(k.arg is None for k in n.keywords):
            raise Reject("starred argument")
        return params, a

    @staticmethod
    def static_bool(node, v):
        """a literal True / False argument is static: the callee is specialised to it"""
        if isinstance(node, ast.Constant) and (node.value is True or node.value is False):
            return Val(v.text, ("SB", node.value), static=node.value)
        return v

    def modcall7(self, n, env, fx):
        f = n.func.id
        node = self.u2.funcs.get(f)
        if node is None:
            raise Reject("call of %s, which is not a unique module-level function" % f)
        params, a = self.call_args(node, n, env, fx, f)
        if len(n.args) > len(params):
            raise Reject("call of %s with %d arguments" % (f, len(n.args)))
        given = dict(zip(params, n.args))
        for k in n.keywords:
            if k.arg not in params or k.arg in given:
                raise Reject("keyword argument %s of %s" % (k.arg, f))
            given[k.arg] = k.value
        defaults = dict(zip(params[len(params) - len(a.defaults):], a.defaults))
        order = [p for p in params if p in given]
        order.sort(key=lambda p: (given[p].lineno, given[p].col_offset))
        binds, vals = [], {}
        for p in order:
            if p == "_":
                raise Reject("explicit cache-key argument of %s" % f)
            b, v = self.expr(given[p], env, fx)
            binds += b
            vals[p] = self.static_bool(given[p], v)
        for p in params:
            if p in vals:
                continue
            if p == "_":
                continue
            if p not in defaults:
                raise Reject("call of %s without %s" % (f, p))
            d = defaults[p]
            if not isinstance(d, ast.Constant):
                raise Reject("%s: default of %s is not a constant" % (f, p))
            b, v = self.expr(d, env, fx)
            vals[p] = self.static_bool(d, v)
        # phases 1-2 first (the calendar helpers): int arguments, constants specialised
        r = self.phase2_call(f, params, vals, fx, binds)
        if r is not None:
            return binds, r
        if "_" in params:
            raise Reject("%s takes the cache key: call its public wrapper" % f)
        args = [self.arg_val(vals[p]) for p in params]
        sig = tuple(v.ty for v in args)
        try:
            callee = self.module_function7(f, sig)
        except Reject as exc:
            raise Reject("call of %s, which is outside phases 1-2 and outside this one: %s" % (f, exc))
        dyn = [v.text for v in args if not (v.ty == NONE or (isinstance(v.ty, tuple) and v.ty[0] == "SB"))]
        head = [callee["coq"], "cal"] + dyn
        return binds, self.bind_call(fx, binds, " ".join(head), callee["ret"])

    def phase2_call(self, f, params, vals, fx, binds):
        """a calendar helper of phases 1-2 (gen/GenCode.v, GenCode2.v) -> Val, or None when the
        function is not in their subset at these argument types"""
        spec, dyn = {}, {}
        for p in params:
            if p == "_":
                continue
            v = vals[p]
            if v.ty == NONE:
                spec[p] = None
            elif isinstance(v.ty, tuple) and v.ty[0] in ("SB", "STR"):
                spec[p] = v.ty[1]
            elif v.ty in (Z, B):
                dyn[p] = v
            elif is_opt(v.ty) and v.ty[1] == Z:
                dyn[p] = v
            else:
                return None

        def variant(sp, extra_none=()):
            sp = dict(sp)
            for p in extra_none:
                sp[p] = None
            ptypes = {p: (dyn[p].ty[1] if is_opt(dyn[p].ty) else dyn[p].ty)
                      for p in params if p in dyn and p not in extra_none}
            return self.u2.function(f, sp, ptypes)
        try:
            callee = variant(spec)
        except Reject:
            return None
        self.note_extra2()

        def head(c, texts):
            for m in c["mode"]:
                if m not in CAL7_TY:
                    raise Reject("%s reads CALENDAR.%s, which is not a field of pyCalendar7" % (f, m))
            return "(%s)" % " ".join([c["coq"]] + ["(c_%s cal)" % m for m in c["mode"]] + texts)
        # None-able arguments: the helper specialised to None where phases 1-2 translate that
        # (get_days_in_month(m, None) is the non-leap table); otherwise None raises TypeError
        # (phase 4's reading: the helper uses the argument in arithmetic / an ordering first)
        texts, wrap = [], []
        for p in params:
            if p not in dyn:
                continue
            v = dyn[p]
            if not is_opt(v.ty):
                texts.append((p, v.text))
                continue
            try:
                alt = variant(spec, (p,))
                if alt["ret"] != callee["ret"] or any(is_opt(dyn[q].ty) for q in dyn if q != p and
                                                       params.index(q) > params.index(p)):
                    raise Reject("shape")
                self.note_extra2()
                wrap.append((p, v, alt))
                texts.append((p, "x_%s" % p))
            except Reject:
                t = fx.fresh()
                binds.append("%s <- need %s" % (t, v.text))
                texts.append((p, t))
        ret = callee["ret"]
        text = head(callee, [t for _, t in texts])
        for p, v, alt in wrap:
            text = "(match %s with Some x_%s => %s | None => %s end)" % (
                v.text, p, text, head(alt, [t for q, t in texts if q != p]))
        if tc2.is_res(ret):
            return self.bind_call(fx, binds, "lift2 %s" % text, ret[1])
        return Val(text, ret)

    def note_extra2(self):
        """variants of phase-2 functions that gen/GenCode2.v does not contain: emitted here"""
        for key in list(self.u2.order):
            r = self.u2.done[key]
            if r["text"] is not None and r["coq"] not in self.emitted2 \
                    and r["coq"] not in [c for c, _ in self.extra2]:
                self.extra2.append((r["coq"], "(* %s%s *)\n%s\n" % (r["src"], r["note"], r["text"])))

    def module_function7(self, name, sig):
        """a module-level def of data.py outside phases 1-2, at one type signature of its arguments"""
        key = ("def " + name, sig)
        if key in self.done:
            return self.done[key]
        if key in self.busy:
            raise Reject("recursion through %s" % name)
        node = self.u2.funcs.get(name)
        if node.decorator_list:
            raise Reject("%s: decorators" % name)
        params = [p.arg for p in node.args.args]
        if len(params) != len(sig):
            raise Reject("%s: parameter list" % name)
        self.busy.add(key)
        try:
            fx = Fn7(name, False)
            fx.top = tuple(node.body)
            fx.params = params
            env = Env()
            binders, pre = [], []
            for p, ty in zip(params, sig):
                if p in tc4.RESERVED or p in self.u2.funcs or p == "self":
                    raise Reject("parameter %s shadows a global" % p)
                env.ty[p] = ty
                if ty == NONE:
                    pre.append("  let v_%s := tt in\n" % p)
                elif isinstance(ty, tuple) and ty[0] == "SB":
                    pass
                else:
                    binders.append("(v_%s : %s)" % (p, coq_type(ty)))
            ctx = Ctx(lambda e, i: self.emit_return(Val("tt", NONE), ctx, fx, i),
                      lambda t, i: "  " * i + "Ok " + t)
            body = self.translate_body(fx, node, env, ctx)
        finally:
            self.busy.discard(key)
        coq = "py_fn_%s__%s" % (name, "_".join(sig_code(t) for t in sig))
        text = "Definition %s (cal : pyCalendar7) %s: exc %s :=\n%s%s." % (
            coq, "".join(b + " " for b in binders), coq_type(fx.ret), "".join(pre), body)
        res = {"coq": coq, "ret": fx.ret, "ret_kinds": [], "text": text, "src": "data.py: %s" % name,
               "sig": ", ".join("%s : %s" % (p, sig_code(t)) for p, t in zip(params, sig)), "proc": False,
               "static": True}
        self.done[key] = res
        self.order.append(key)
        return res

    # -- TimeZone(...)
    def construct_tz7(self, n, env, fx):
        """TimeZone(hours=.., minutes=.., unknown=..) through the translated TimeZone.__init__"""
        names = [p for p, _ in TZ_INIT_PARAMS]
        if len(n.args) > 3 or any(isinstance(x, ast.Starred) for x in n.args):
            raise Reject("TimeZone(...) arguments")
        given = dict(zip(names, n.args))
        for k in n.keywords:
            if k.arg not in names[:3] or k.arg in given:
                raise Reject("TimeZone(%s=...)" % k.arg)
            given[k.arg] = k.value
        order = sorted(given, key=lambda p: (given[p].lineno, given[p].col_offset))
        binds, vals = [], {}
        for p in order:
            b, v = self.expr(given[p], env, fx)
            binds += b
            vals[p] = v
        callee = self.tz_init()
        args = []
        for p, ty in TZ_INIT_PARAMS[:3]:
            if p in vals:
                args.append(coerce(self.arg_val(vals[p]) if vals[p].ty != NONE else vals[p], ty).text)
            else:
                args.append({"hours": "(Some 0)", "minutes": "(Some 0)", "unknown": "false"}[p])
        return binds, self.bind_call(fx, binds, "%s cal %s" % (callee["coq"], " ".join(args)), TZ)

    def tz_init(self):
        key = ("TimeZone.__init__", ())
        if key in self.done:
            return self.done[key]
        if key in self.busy:
            raise Reject("recursion through TimeZone.__init__")
        node = self.tz_methods.get("__init__")
        if node is None:
            raise Reject("TimeZone.__init__ not found")
        if node.decorator_list:
            raise Reject("TimeZone.__init__: decorators")
        names = [p.arg for p in node.args.args]
        if names != ["self"] + [p for p, _ in TZ_INIT_PARAMS]:
            raise Reject("TimeZone.__init__ parameters %r" % names)
        defaults = [ast.unparse(d) for d in node.args.defaults]
        if defaults != ["0", "0", "False", "False"]:
            raise Reject("TimeZone.__init__ defaults %r" % defaults)
        self.busy.add(key)
        try:
            fx = Fn7("__init__", True, TZ)
            fx.top = tuple(node.body)
            fx.params = names[1:]
            env = Env()
            env.ty["self"] = TZ
            env.owned.add("self")
            env.partial["self"] = frozenset()
            binders = []
            for p, ty in TZ_INIT_PARAMS:
                env.ty[p] = ty
                if not (isinstance(ty, tuple) and ty[0] == "SB"):
                    binders.append("(v_%s : %s)" % (p, coq_type(ty)))
            ctx = Ctx(lambda e, i: self.proc_end7(e, i, TZ), lambda t, i: "  " * i + "Ok " + t)
            body = self.translate_body(fx, node, env, ctx)
        finally:
            self.busy.discard(key)
        coq = "py_TimeZone___init__"
        text = ("Definition %s (cal : pyCalendar7) %s: exc pyTimeZone :=\n"
                "  let v_self := py_empty_tz in\n%s.") % (coq, "".join(b + " " for b in binders), body)
        res = {"coq": coq, "ret": TZ, "ret_kinds": ["fresh"], "text": text, "src": "TimeZone.__init__",
               "sig": "hours, minutes : None-able int; unknown : bool; _is_empty_instance = False",
               "proc": True, "static": True}
        self.done[key] = res
        self.order.append(key)
        return res

    @staticmethod
    def proc_end7(e, i, ty):
        if "self" not in e.owned or e.ty.get("self") != ty:
            raise Reject("internal: self at the end of __init__")
        if "self" in e.partial:
            full = frozenset(tc4.SLOT_TY) if ty == TP else TZ_ALL
            raise Reject("__init__ can end with the slots %s unassigned"
                         % sorted(full - e.partial["self"]))
        return "  " * i + "Ok v_self"

    # -- methods
    def method_call(self, name, recv, args, fx, binds):
        args = [self.arg_val(a) for a in args]
        sig = tuple(a.ty for a in args)
        try:
            callee = self.method(name, sig)
        except Reject as exc:
            raise Reject("call of %s.%s, which is outside the subset: %s" % (tc4.CLS, name, exc))
        dyn = [a.text for a in args if not (a.ty == NONE or (isinstance(a.ty, tuple) and a.ty[0] == "SB"))]
        head = [callee["coq"], "cal"]
        if not callee["static"]:
            if recv is None:
                raise Reject("internal: receiver of %s" % name)
            head.append(recv.text)
        head += dyn
        kind = None
        if callee["ret"] == TP:
            kind = {"alias"}
        return self.bind_call(fx, binds, " ".join(head), callee["ret"], kind=kind)

    def mutator_call(self, c, rest, env, ctx, fx, ind):
        """obj.m(...) as a statement, m a method that stores to slots of self: obj must be owned (a
        fresh copy, or self inside __init__ / a mutator) and fully assigned; its state is replaced"""
        obj = c.func.value.id
        if obj not in env.owned:
            raise Reject("call of the mutator %s on %s, which is not an owned (fresh) object"
                         % (c.func.attr, obj))
        if obj in env.partial:
            raise Reject("object %s used before all its slots are assigned" % obj)
        if c.keywords or any(isinstance(a, ast.Starred) for a in c.args):
            raise Reject("keyword / starred arguments in a method call")
        binds, args = [], []
        for a in c.args:
            b, v = self.expr(a, env, fx)
            binds += b
            if is_obj(v.ty):
                raise Reject("object passed to a mutator")
            args.append(self.arg_val(v))
        try:
            callee = self.method(c.func.attr, tuple(a.ty for a in args))
        except Reject as exc:
            raise Reject("call of %s.%s, which is outside the subset: %s" % (tc4.CLS, c.func.attr, exc))
        if not callee["proc"]:
            raise Reject("internal: %s is not a mutator" % c.func.attr)
        dyn = [a.text for a in args if not (a.ty == NONE or (isinstance(a.ty, tuple) and a.ty[0] == "SB"))]
        binds.append("v_%s <- %s" % (obj, " ".join([callee["coq"], "cal", "v_" + obj] + dyn)))
        env2 = env.copy()
        env2.nonnull = {(o, sl) for o, sl in env2.nonnull if o != obj}
        return self.lines(ind, binds, "") + self.block(rest, env2, ctx, fx, ind)

    def method_body(self, node, sig):
        a = node.args
        if a.posonlyargs or a.vararg or a.kwonlyargs or a.kwarg or a.kw_defaults:
            raise Reject("%s: parameters other than plain positional ones" % node.name)
        decos = [ast.unparse(d) for d in node.decorator_list]
        static = decos == ["staticmethod"]
        if decos not in ([], ["property"], ["staticmethod"]):
            raise Reject("%s: decorators %s" % (node.name, decos))
        names = [p.arg for p in a.args]
        if len(set(names)) != len(names):
            raise Reject("%s: parameter list" % node.name)
        if static:
            params = names
        else:
            if not names or names[0] != "self":
                raise Reject("%s: parameter list" % node.name)
            params = names[1:]
        if node.name == "__init__":
            return self.init_body(node, params)
        proc = node.name in self.mutators     # stores to slots of self: the result is its new state
        if proc and static:
            raise Reject("%s: a staticmethod that stores to self" % node.name)
        if len(sig) > len(params) or len(params) - len(sig) > len(a.defaults):
            raise Reject("%s called with %d arguments" % (node.name, len(sig)))
        defaults = dict(zip(params[len(params) - len(a.defaults):], a.defaults))
        fx = Fn7(node.name, proc, TP)
        fx.top = tuple(node.body)
        fx.params = params
        env = Env()
        if not static:
            env.ty["self"] = TP
        if proc:
            env.owned.add("self")
        pre, binders, sigtext, codes = [], [], [], []
        for i, p in enumerate(params):
            if p in tc4.RESERVED or p in self.u2.funcs:
                raise Reject("parameter %s shadows a global" % p)
            if i < len(sig):
                ty = sig[i]
            else:
                d = defaults[p]
                if not isinstance(d, ast.Constant):
                    raise Reject("%s: default of %s is not a constant" % (node.name, p))
                if d.value is True or d.value is False:
                    ty = ("SB", d.value)
                elif d.value is None:
                    ty = NONE
                elif type(d.value) is int:
                    ty = Z
                    pre.append("  let v_%s := %s in\n" % (p, zlit(d.value)))
                    env.ty[p] = Z
                    sigtext.append("%s = %r (default)" % (p, d.value))
                    continue
                else:
                    raise Reject("%s: default %r of %s" % (node.name, d.value, p))
            env.ty[p] = ty
            codes.append(sig_code(ty))
            if ty == NONE:
                pre.append("  let v_%s := tt in\n" % p)
            elif isinstance(ty, tuple) and ty[0] in ("SB", "STR"):
                pass
            else:
                binders.append("(v_%s : %s)" % (p, coq_type(ty)))
            sigtext.append("%s : %s" % (p, sig_code(ty)))
        if proc:
            ctx = Ctx(lambda e, i: self.proc_end7(e, i, TP), lambda t, i: "  " * i + "Ok " + t)
        else:
            ctx = Ctx(lambda e, i: self.emit_return(Val("tt", NONE), ctx, fx, i),
                      lambda t, i: "  " * i + "Ok " + t)
        body = self.translate_body(fx, node, env, ctx)
        ret = TP if proc else fx.ret
        coq = "py_%s_%s%s" % (tc4.CLS, node.name, ("__" + "_".join(codes)) if codes else "")
        text = "Definition %s (cal : pyCalendar7) %s%s: exc %s :=\n%s%s." % (
            coq, "" if static else "(v_self : pyTimePoint) ", "".join(b + " " for b in binders),
            coq_type(ret), "".join(pre), body)
        return {"coq": coq, "ret": ret, "ret_kinds": [] if proc else sorted(fx.ret_kinds), "text": text,
                "src": "%s.%s" % (tc4.CLS, node.name), "sig": ", ".join(sigtext), "proc": proc,
                "static": static}

    def init_body(self, node, params):
        """TimePoint.__init__ at the typed entry point INIT_PARAMS: the state it leaves"""
        if params != [p for p, _ in INIT_PARAMS]:
            raise Reject("TimePoint.__init__ parameters %r: the entry point is typed for %r"
                         % (params, [p for p, _ in INIT_PARAMS]))
        fx = Fn7("__init__", True, TP)
        fx.top = tuple(node.body)
        fx.params = params
        env = Env()
        env.ty["self"] = TP
        env.owned.add("self")
        env.partial["self"] = frozenset()
        binders = []
        for p, ty in INIT_PARAMS:
            if p in tc4.RESERVED or p in self.u2.funcs:
                raise Reject("parameter %s shadows a global" % p)
            env.ty[p] = ty
            if not (isinstance(ty, tuple) and ty[0] == "SB"):
                binders.append("(v_%s : %s)" % (p, coq_type(ty)))
        ctx = Ctx(lambda e, i: self.proc_end7(e, i, TP), lambda t, i: "  " * i + "Ok " + t)
        body = self.translate_body(fx, node, env, ctx)
        coq = "py_TimePoint___init__"
        text = ("Definition %s (cal : pyCalendar7)\n  %s\n  : exc pyTimePoint :=\n"
                "  let v_self := py_empty_instance in\n%s.") % (coq, " ".join(binders), body)
        return {"coq": coq, "ret": TP, "ret_kinds": ["fresh"], "text": text,
                "src": "TimePoint.__init__",
                "sig": "; ".join("%s : %s" % (p, sig_code(t)) for p, t in INIT_PARAMS),
                "proc": True, "static": True}

    # ------------------------------------------------------------ statements
    def store(self, obj, slot, v, env, fx):
        if env.ty.get(obj) == TZ:
            if obj not in env.owned:
                raise Reject("store to a slot of %s, which is not an owned (fresh) object" % obj)
            env2 = env.copy()
            if obj in env2.partial:
                got = env2.partial[obj] | {slot}
                if got == TZ_ALL:
                    del env2.partial[obj]
                else:
                    env2.partial[obj] = got
            if slot in tc4.TZ_SLOTS:
                if v.text is None or is_obj(v.ty):
                    raise Reject("store of a %r into a slot" % (v.ty,))
                v = coerce(v, tc4.TZ_SLOTS[slot])
                return "let v_%s := setz%s v_%s %s in\n" % (obj, slot, obj, v.text), env2
            if slot in TZ_FIXED:
                want = TZ_FIXED[slot]
                ok = (v.ty == NONE) if want is None else (v.ty == Z and v.text == zlit(want))
                if not ok:
                    raise Reject("TimeZone.%s must be assigned the constant %r (the record pyTimeZone "
                                 "and tz_duration are written against it)" % (slot, want))
                return "(* %s.%s = %r *)\n" % (obj, slot, want), env2
            raise Reject("store to %s, which is not a slot of a TimeZone" % slot)
        return tc4.ClassUnit.store(self, obj, slot, v, env, fx)

    def raised_exception(self, s, env, fx):
        """`raise E(args)`: the class, provided the arguments are of shapes that do not raise"""
        if s.cause is not None:
            raise Reject("raise ... from ...")
        e = s.exc
        if not (isinstance(e, ast.Call) and isinstance(e.func, ast.Name) and not e.keywords
                and e.func.id in ("TypeError", "ValueError", "BadInputError") and e.func.id not in env.ty):
            raise Reject("raise of something other than TypeError(...) / ValueError(...) / BadInputError(...)")
        for a in e.args:
            if isinstance(a, ast.Constant):
                continue
            if isinstance(a, ast.Name) and (a.id in env.ty or a.id in fx.exc_names):
                continue
            if isinstance(a, ast.Attribute) and isinstance(a.value, ast.Name) \
                    and a.value.id == "BadInputError" and "BadInputError" not in env.ty:
                if a.attr not in self.exc_info["attrs"]:
                    raise Reject("BadInputError.%s is not an attribute of the class (AttributeError)" % a.attr)
                continue
            if isinstance(a, ast.Call) and isinstance(a.func, ast.Name) and a.func.id in ("repr", "type") \
                    and a.func.id not in env.ty and len(a.args) == 1 and not a.keywords \
                    and isinstance(a.args[0], ast.Name) and a.args[0].id in env.ty:
                continue
            raise Reject("exception argument `%s` is outside the shapes known not to raise" % ast.unparse(a))
        return e.func.id

    def stmt(self, s, rest, env, ctx, fx, ind):
        pad = "  " * ind
        if isinstance(s, ast.Raise):
            if rest:
                raise Reject("statement after raise")
            return pad + "Raise " + self.raised_exception(s, env, fx)
        if isinstance(s, ast.Try):
            return self.try_stmt(s, rest, env, ctx, fx, ind)
        if isinstance(s, ast.While):
            raise Reject("while loop (no fuel in this phase)")
        if isinstance(s, ast.Expr) and isinstance(s.value, ast.Call) and isinstance(s.value.func, ast.Name) \
                and s.value.func.id == "_type_checker" and "_type_checker" not in env.ty:
            self.type_checker(s.value, env)
            return pad + "(* _type_checker(...): a no-op on every run-time class of these typed arguments *)\n" + \
                self.block(rest, env, ctx, fx, ind)
        return tc4.ClassUnit.stmt(self, s, rest, env, ctx, fx, ind)

    def type_checker(self, c, env):
        """_type_checker((value, name, *types), ...): a no-op for this typed entry point when the
        helper's own body, run on an abstract value of every run-time class a listed parameter's
        static type admits, neither raises nor does anything else (ClassInterp)"""
        if "_type_checker" in self.u2.globals or "_type_checker" in self.u2.modules:
            raise Reject("_type_checker is rebound at module level")
        node = self.u2.funcs.get("_type_checker")
        if node is None:
            raise Reject("no unique def _type_checker")
        if self.type_checker_ok is None:
            self.type_checker_ok = ClassInterp(node)
        interp = self.type_checker_ok
        if c.keywords or any(isinstance(a, ast.Starred) for a in c.args):
            raise Reject("_type_checker keywords / starred arguments")
        specs = []
        for a in c.args:
            if not (isinstance(a, ast.Tuple) and len(a.elts) >= 2 and isinstance(a.elts[0], ast.Name)
                    and isinstance(a.elts[1], ast.Constant) and isinstance(a.elts[1].value, str)):
                raise Reject("_type_checker argument shape")
            ty = env.ty.get(a.elts[0].id)
            if ty is None or is_static(ty):
                raise Reject("_type_checker on %s, which is not a typed local" % a.elts[0].id)
            allowed = []
            for e in a.elts[2:]:
                if isinstance(e, ast.Constant) and e.value is None:
                    allowed.append(None)
                elif isinstance(e, ast.Name) and e.id in ClassInterp.TYPES and e.id not in env.ty:
                    allowed.append(ClassInterp.TYPES[e.id])
                else:
                    raise Reject("_type_checker: allowed type `%s`" % ast.unparse(e))
            specs.append((a.elts[0].id, a.elts[1].value, tuple(allowed), runtime_classes(ty)))
        first = [(_Abs(cl[0]), nm) + al for _p, nm, al, cl in specs]
        for i, (p, nm, al, classes) in enumerate(specs):
            for cls in classes:
                objects = list(first)
                objects[i] = (_Abs(cls), nm) + al
                try:
                    interp.run(objects)
                except Reject as exc:
                    raise Reject("_type_checker is not a no-op for %s holding a %s (static type %r): %s"
                                 % (p, cls.__name__, env.ty[p], exc))

    def try_stmt(self, s, rest, env, ctx, fx, ind):
        """try: <simple statements> except (E1, E2) [as x]: <block that always raises>"""
        pad = "  " * ind
        if s.orelse or s.finalbody or len(s.handlers) != 1:
            raise Reject("try with else / finally / several handlers")
        h = s.handlers[0]
        if h.type is None:
            raise Reject("bare except")
        tys = h.type.elts if isinstance(h.type, ast.Tuple) else [h.type]
        caught = []
        for t in tys:
            if not (isinstance(t, ast.Name) and t.id in ("TypeError", "ValueError", "BadInputError")
                    and t.id not in env.ty):
                raise Reject("except %s" % ast.unparse(t))
            caught.append(t.id)
        if "ValueError" in caught and self.exc_info["is_value_error"] and "BadInputError" not in caught:
            caught.append("BadInputError")        # class BadInputError(IsodatetimeError, ValueError)
        if contains(s.body, (ast.Return, ast.Break, ast.Continue, ast.Raise, ast.Try)):
            raise Reject("return / break / continue / raise / try inside a try body")
        if not always_returns(h.body) or contains(h.body, (ast.Return, ast.Break, ast.Continue)):
            raise Reject("an except handler that does not end in raise")
        names = [nm for nm in self.assigned_names(s.body, env)]
        ends = []

        def probe(e, _i):
            ends.append(e)
            return "tt"

        def no(*_a):
            raise Reject("internal: control transfer out of a try body / handler")
        n0 = fx.n
        self.block(list(s.body), env, Ctx(probe, no), fx, 0)
        fx.n = n0
        if len(ends) != 1:
            raise Reject("internal: try body ends")
        end = ends[0]
        merged = [nm for nm in names if nm in end.ty and not is_static(end.ty[nm])]
        for nm in merged:
            if is_obj(end.ty[nm]):
                raise Reject("object %s assigned inside a try body" % nm)

        def out(e, i):
            tup = ", ".join("v_" + nm for nm in merged)
            return "  " * i + "Ok " + (("(" + tup + ")") if len(merged) != 1 else tup) if merged \
                else "  " * i + "Ok tt"
        body = self.block(list(s.body), env, Ctx(out, no), fx, ind + 2)
        saved = set(fx.exc_names)
        if h.name:
            if h.name in env.ty:
                raise Reject("except ... as %s rebinds a local" % h.name)
            fx.exc_names.add(h.name)
        try:
            handler = self.block(list(h.body), env, Ctx(no, no), fx, ind + 2)
        finally:
            fx.exc_names = saved
        pred = "(fun e_ => match e_ with %s => true | _ => false end)" % " | ".join(caught)
        env2 = env.copy()
        for nm in merged:
            env2.drop(nm)
            env2.ty[nm] = end.ty[nm]
        if len(merged) > 1:
            tmp = fx.fresh()
            head = "%s%s <- py_try (\n%s)\n%s  %s (\n%s) ;;\n%slet '(%s) := %s in\n" % (
                pad, tmp, body, pad, pred, handler, pad, ", ".join("v_" + nm for nm in merged), tmp)
        elif merged:
            head = "%sv_%s <- py_try (\n%s)\n%s  %s (\n%s) ;;\n" % (pad, merged[0], body, pad, pred, handler)
        else:
            head = "%s_ <- py_try (\n%s)\n%s  %s (\n%s) ;;\n" % (pad, body, pad, pred, handler)
        return head + self.block(rest, env2, ctx, fx, ind)

    def if_stmt(self, s, rest, env, ctx, fx, ind):
        """an `if` whose branches neither return nor break / continue: a conditional followed by the
        rest of the block (phase 4 duplicates the rest when a branch raises).  When both branches only
        bind locals / store slots (no call that can raise, no raise) the conditional is a pure `let`."""
        if contains([s], (ast.Return, ast.Break, ast.Continue)):
            return tc4.ClassUnit.if_stmt(self, s, rest, env, ctx, fx, ind)
        pad = "  " * ind
        cb, c, k = self.test(s.test, env, fx)
        if k is not None:
            br = s.body if k else s.orelse
            return self.block(list(br) + ([] if always_returns(br) else rest), env, ctx, fx, ind)
        ends_t, ends_f = [], []

        def probe(acc):
            def f(e, _i):
                acc.append(e)
                return "tt"
            return f
        n0 = fx.n
        _, env_t = self.refine_true(s.test, env, fx, ind + 2)
        self.block(list(s.body), env_t, ctx.with_fall(probe(ends_t)), fx, 0)
        self.block(list(s.orelse), env, ctx.with_fall(probe(ends_f)), fx, 0)
        fx.n = n0
        if len(ends_t) > 1 or len(ends_f) > 1:
            raise Reject("internal: branch ends")
        ends = ends_t + ends_f

        def dead(_e, _i):
            raise Reject("internal: a branch that was found not to fall through does")
        if not ends:        # both branches raise: the rest of the block is dead
            pre, env_t = self.refine_true(s.test, env, fx, ind + 1)
            a = pre + self.block(list(s.body), env_t, ctx.with_fall(dead), fx, ind + 1)
            b = self.block(list(s.orelse), env, ctx.with_fall(dead), fx, ind + 1)
            return self.lines(ind, cb, "%sif %s then\n%s\n%selse\n%s" % (pad, c, a, pad, b))
        names = self.assigned_names([s], env)
        env2, merged, types = self.merge_ends(env, ends, names)

        def tuple_of(e):
            vals = [coerce(Val("v_" + nm, e.ty[nm]), ty) for nm, ty in zip(merged, types)]
            tup = ", ".join(v.text for v in vals)
            if not merged:
                return "tt"
            return ("(" + tup + ")") if len(merged) > 1 else tup

        def out(e, i):
            return "  " * i + "Ok " + tuple_of(e)

        def out_pure(e, i):
            return "  " * i + tuple_of(e)
        n1 = fx.n
        pre, env_t = self.refine_true(s.test, env, fx, ind + 2)
        a = pre + self.block(list(s.body), env_t, ctx.with_fall(out), fx, ind + 2)
        b = self.block(list(s.orelse), env, ctx.with_fall(out), fx, ind + 2)
        if not any(mark in x for x in (a, b) for mark in ("<-", "Raise", "py_try")):
            # both branches are sequences of `let`s ending in the merged values: no effect, no exception
            fx.n = n1
            pre, env_t = self.refine_true(s.test, env, fx, ind + 2)
            if pre:
                raise Reject("internal: refinement in a pure conditional")
            a = self.block(list(s.body), env_t, ctx.with_fall(out_pure), fx, ind + 2)
            b = self.block(list(s.orelse), env, ctx.with_fall(out_pure), fx, ind + 2)
            if not merged:
                head = ""
            elif len(merged) > 1:
                head = "%slet '(%s) := (if %s then\n%s\n%s  else\n%s) in\n" % (
                    pad, ", ".join("v_" + nm for nm in merged), c, a, pad, b)
            elif is_obj(types[0]) and self.stored_slots(s, merged[0]) is not None:
                # an object whose slots the branches store to: merged slot by slot, so that the state
                # stays a record of values (`if c: o._x = e` is `o._x = e if c else o._x`, e being pure)
                nm, oty = merged[0], types[0]
                slots = self.stored_slots(s, nm)
                tt_, ff_ = fx.fresh(), fx.fresh()
                head = "%slet %s :=\n%s in\n%slet %s :=\n%s in\n" % (pad, tt_, a, pad, ff_, b)
                for slot in slots:
                    if oty == TP:
                        rd, wr = fld(slot), setter(slot)
                    else:
                        rd, wr = "z" + slot, "setz" + slot
                    head += "%slet v_%s := %s v_%s (if %s then %s %s else %s %s) in\n" % (
                        pad, nm, wr, nm, c, rd, tt_, rd, ff_)
            else:
                head = "%slet v_%s := (if %s then\n%s\n%s  else\n%s) in\n" % (pad, merged[0], c, a, pad, b)
            return self.lines(ind, cb, head) + self.block(rest, env2, ctx, fx, ind)
        if len(merged) > 1:
            tmp = fx.fresh()
            head = "%s%s <- (if %s then\n%s\n%s  else\n%s) ;;\n%slet '(%s) := %s in\n" % (
                pad, tmp, c, a, pad, b, pad, ", ".join("v_" + nm for nm in merged), tmp)
        elif merged:
            head = "%sv_%s <- (if %s then\n%s\n%s  else\n%s) ;;\n" % (pad, merged[0], c, a, pad, b)
        else:
            head = "%s_ <- (if %s then\n%s\n%s  else\n%s) ;;\n" % (pad, c, a, pad, b)
        return self.lines(ind, cb, head) + self.block(rest, env2, ctx, fx, ind)

    def stored_slots(self, s, obj):
        """the slots of the object local `obj` that the statement stores to (syntactically), in slot
        order; None when that cannot be read off (the caller then merges the object as a whole)"""
        found = set()
        for n in ast.walk(s):
            tgts = []
            if isinstance(n, ast.Assign):
                tgts = list(n.targets)
            elif isinstance(n, ast.AugAssign):
                tgts = [n.target]
            elif isinstance(n, ast.Call) and isinstance(n.func, ast.Name) and n.func.id == "setattr":
                return None
            elif isinstance(n, (ast.For, ast.While, ast.Try)):
                return None
            for t in tgts:
                for e in (list(t.elts) if isinstance(t, ast.Tuple) else [t]):
                    if isinstance(e, ast.Attribute) and isinstance(e.value, ast.Name) and e.value.id == obj:
                        found.add(e.attr)
                    elif isinstance(e, ast.Name) and e.id == obj:
                        return None
        order = [sl for sl, _ in tc4.SLOTS] + list(tc4.TZ_SLOTS)
        if not found or not found <= set(order):
            return None
        return [sl for sl in order if sl in found]

    def merge_ends(self, env, ends, names):
        """environment after an `if` from the (one or two) branch ends that fall through"""
        merged, types = [], []
        env2 = env.copy()
        for nm in names:
            env2.drop(nm)
        nn = env2.nonnull
        for e in ends:
            nn = nn & e.nonnull
        env2.nonnull = nn
        for nm in names:
            tys = [e.ty.get(nm) for e in ends]
            if any(t is None or is_static(t) for t in tys):
                continue
            ty = tys[0]
            for t in tys[1:]:
                ty = join(ty, t)
            merged.append(nm)
            types.append(ty)
            env2.ty[nm] = ty
            if is_obj(ty):
                if all(nm in e.owned for e in ends):
                    env2.owned.add(nm)
                full = frozenset(tc4.SLOT_TY) if ty == TP else TZ_ALL
                got = full
                for e in ends:
                    p = e.partial.get(nm)
                    got = got & (p if p is not None else full)
                if got != full:
                    env2.partial[nm] = got
        return env2, merged, types


# entry points
REQUIRED = [
    ("TimePoint._check_bounds", "py_TimePoint__check_bounds"),
    ("TimeZone.__init__", "py_TimeZone___init__"),
    ("TimePoint.__init__", "py_TimePoint___init__"),
]
OUT_OF_SCOPE = [
    ("_type_checker",
     "not emitted: its body is executed at translation time on an abstract value of every run-time class "
     "the static type of a listed parameter admits, and must neither raise nor call anything (then the call "
     "is a no-op for the typed entry point); wrongly typed arguments (strings, ...) are outside the model"),
    ("_int_caster / float() on strings and other non-numbers",
     "the entry points are typed: ints, None-able ints, None-able int-or-floats (exact rationals), strings"),
    ("TimePoint(is_empty_instance=True), TimeZone(_is_empty_instance=True)",
     "the copy protocol of phase 4 (py_empty_instance); the test is decided statically"),
    ("the arguments of the raised exceptions",
     "not evaluated: only shapes known not to raise are accepted (constants, locals, BadInputError.X with X "
     "checked against exceptions.py, repr(x), type(x))"),
]

HEAD = '''(* GENERATED by tools/translate_code7.py from the bodies of TimePoint.__init__,
   TimePoint._check_bounds, TimeZone.__init__ and the module-level helpers they call
   (metomi/isodatetime/data.py).  Do not edit.

   Object state: gen/GenCode4.v's records pyTimePoint (one field per entry of
   TimePoint.__slots__) and pyTimeZone (hours, minutes, unknown).  An __init__ is a
   function from its arguments to the state it leaves, starting from an instance none
   of whose slots is assigned; the translator accepts it only if every slot is
   assigned on every path before the object is read as a whole, passed on or returned.
   Numeric convention (the model's own, DESIGN.md section 3): int arguments are Z,
   int-or-float arguments exact rationals Q (an int meeting a Q is injected), float(x)
   is the injection, int(x) truncates toward zero, comparisons are exact.  None as an
   arithmetic / ordering operand or as the argument of int() / float() raises TypeError.
   Exceptions: exc A := Ok a | Raise e; BadInputError is its own constructor although
   the class derives from ValueError: `except ValueError` catches it (py_try).  The
   arguments of a raised exception are not evaluated.
   cal : pyCalendar7 holds the CALENDAR attributes assigned by Calendar.set_mode at call
   time; upper-case names are class constants from gen/CalTables.v.
   v_<name>: Python parameter/local; t<n>: temporaries in Python evaluation order. *)
From Coq Require Import ZArith QArith Qround Qabs List Bool String.
From Iso Require Import gen.CalTables gen.GenCode gen.GenCode2.
From Iso Require gen.GenCode3.
From Iso Require Import gen.GenCode4.
Import ListNotations.
Open Scope Z_scope.

Record pyCalendar7 : Type := mkCalendar7 {
%(calfields)s }.

Definition setz_hours (o : pyTimeZone) (v : Z) : pyTimeZone := mkTimeZone v (z_minutes o) (z_unknown o).
Definition setz_minutes (o : pyTimeZone) (v : Z) : pyTimeZone := mkTimeZone (z_hours o) v (z_unknown o).
Definition setz_unknown (o : pyTimeZone) (v : bool) : pyTimeZone := mkTimeZone (z_hours o) (z_minutes o) v.
(* TimeZone under construction: no slot assigned yet (never observed, see above) *)
Definition py_empty_tz : pyTimeZone := mkTimeZone 0 0 false.

(* the exception monad of this phase (shadows gen/GenCode4.v's: BadInputError added) *)
Inductive pyexn : Type :=
| TypeError | ZeroDivisionError | ValueError | IndexError | BadInputError
| NoneResult       (* a helper returned None where a value was needed: not followed further *)
| OutOfFuel | NotTranslated.   (* unused here *)
Inductive exc (A : Type) : Type := Ok (a : A) | Raise (e : pyexn).
Arguments Ok {A} a.
Arguments Raise {A} e.
Definition ebind {A B : Type} (m : exc A) (f : A -> exc B) : exc B :=
  match m with Ok a => f a | Raise e => Raise e end.
Set Warnings "-notation-overridden".
Notation "x <- m ;; k" := (ebind m (fun x => k)) (at level 61, m at next level, right associativity).
Set Warnings "+notation-overridden".
(* try: m  except <classes>: h   (h always raises here) *)
Definition py_try {A : Type} (m : exc A) (catches : pyexn -> bool) (h : exc A) : exc A :=
  match m with Ok a => Ok a | Raise e => if catches e then h else Raise e end.
Definition lift2 {A : Type} (r : res A) : exc A :=
  match r with
  | Ret a => Ok a
  | Abn RaiseValueError => Raise ValueError
  | Abn RaiseTypeError => Raise TypeError
  | Abn RetNone => Raise NoneResult
  | Abn NoneStored => Raise NoneResult
  end.
Definition need {A : Type} (v : option A) : exc A :=
  match v with Some a => Ok a | None => Raise TypeError end.
Definition py_floordiv_Z (a b : Z) : exc Z := if b =? 0 then Raise ZeroDivisionError else Ok (a / b).
Definition py_mod_Z (a b : Z) : exc Z := if b =? 0 then Raise ZeroDivisionError else Ok (a mod b).
Definition py_divmod_Z (a b : Z) : exc (Z * Z) :=
  if b =? 0 then Raise ZeroDivisionError else Ok (a / b, a mod b).
Definition py_truediv (a b : Q) : exc Q := if Qeq_bool b 0 then Raise ZeroDivisionError else Ok (a / b)%%Q.
Definition py_floordiv_Q (a b : Q) : exc Z :=
  if Qeq_bool b 0 then Raise ZeroDivisionError else Ok (Qfloor (a / b)).
Definition py_mod_Q (a b : Q) : exc Q :=
  if Qeq_bool b 0 then Raise ZeroDivisionError else Ok (a - b * inject_Z (Qfloor (a / b)))%%Q.
Definition py_divmod_Q (a b : Q) : exc (Z * Q) :=
  if Qeq_bool b 0 then Raise ZeroDivisionError
  else Ok (Qfloor (a / b), (a - b * inject_Z (Qfloor (a / b)))%%Q).
Definition py_getitem (l : list Z) (i : Z) : exc Z :=
  let n := Z.of_nat (List.length l) in
  if (0 <=? i) && (i <? n) then Ok (nth (Z.to_nat i) l 0)
  else if (- n <=? i) && (i <? 0) then Ok (nth (Z.to_nat (n + i)) l 0)
  else Raise IndexError.
(* x in [<str constants>]: == on strings; None is in no list of strings *)
Definition py_str_in (s : string) (l : list string) : bool := existsb (String.eqb s) l.
Definition py_ostr_in (s : option string) (l : list string) : bool :=
  match s with Some x => py_str_in x l | None => false end.

'''

PRELUDE_NAMES = ["ebind", "need", "is_none", "opt_eqb", "truthy_Z", "truthy_Q", "truthy_opt",
                 "py_empty_instance", "py_empty_tz", "lift2", "py_try", "py_str_in", "py_ostr_in",
                 "setz_hours", "setz_minutes", "setz_unknown"]


def head_text():
    calfields = ";\n".join("  c7_%s : %s" % (a, tc4.coq_type(t)) for a, t in CAL7_FIELDS)
    return HEAD % {"calfields": calfields}


CAL_RE = re.compile(r"\(c_([A-Z_]+) cal\)")


def cal7(text):
    """the calendar reads emitted by the phase-4 code, on the record of this phase"""
    return CAL_RE.sub(lambda m: "(c7_%s cal)" % m.group(1), text)


def build_text():
    failures, body, covered, emitted = [], [], [], []
    unit = Unit7()

    def flush():
        for coq, text in unit.extra2:
            if coq not in emitted:
                emitted.append(coq)
                body.append(text)
        for key in list(unit.order):   # callees first, each once
            r = unit.done[key]
            if r["coq"] not in emitted:
                emitted.append(r["coq"])
                note = (" [%s]" % r["sig"]) if r["sig"] else ""
                kind = ""
                if r["proc"]:
                    kind = " -- the result is the state __init__ leaves" if "__init__" in r["src"] \
                        else " -- mutator: the result is the new state of self"
                body.append("(* %s%s%s *)\n%s\n" % (r["src"], note, kind, cal7(r["text"])))

    for label, coq in REQUIRED:
        try:
            if label == "TimePoint._check_bounds":
                r = unit.method("_check_bounds", ())
            elif label == "TimeZone.__init__":
                r = unit.tz_init()
            else:
                r = unit.method("__init__", ())
            if r["coq"] != coq:
                raise Reject("internal: %s is named %s" % (label, r["coq"]))
            flush()
            covered.append(coq)
        except Exception as exc:  # fail closed on anything, translator bugs included
            failures.append((coq, "%s: %s" % (type(exc).__name__, exc)))
            if coq not in emitted:
                emitted.append(coq)
                body.append("(* %s: REJECTED: %s *)\nDefinition %s : unit := tt.\n" % (label, clean(exc), coq))
    names = PRELUDE_NAMES + [fld(s) for s, _ in tc4.SLOTS] + [setter(s) for s, _ in tc4.SLOTS] + \
        [c for c in emitted if c.startswith("py_" + tc4.CLS) or c.startswith("py_fn_")
         or c.startswith("py_TimeZone")]
    core = ("py_fn__bounds_checker__", "py_fn__int_caster__", "py_TimePoint__check_bounds",
            "py_TimeZone___init__")
    opened = [n for n in dict.fromkeys(names) if not n.startswith(core) and n not in ("py_str_in", "py_ostr_in", "is_none", "truthy_Z", "truthy_Q", "truthy_opt")]
    if not failures:
        body.append("(* unfold the generated code of this phase (not the calendar helpers of phases 1-2) *)\n"
                    "Ltac code7_unfold :=\n  cbv beta iota zeta delta [%s]." % " ".join(dict.fromkeys(names)))
        body.append("(* the same, except the functions the proofs have lemmas for: _bounds_checker, _int_caster\n"
                    "   (every variant), TimePoint._check_bounds, TimeZone.__init__; a helper that a refactor\n"
                    "   extracts is in this list and is seen through *)\n"
                    "Ltac code7_open :=\n  cbv beta iota zeta delta [%s]." % " ".join(opened))
    else:
        body.append("Ltac code7_unfold := idtac.\nLtac code7_open := idtac.")
    body.append("Definition COVERED_code7 : list string :=\n  [%s]%%string." % "; ".join(
        coq_str(c) for c in covered))
    body.append("(* deliberately out of scope, with the reason *)\n"
                "Definition REJECTED_code7 : list (string * string) :=\n  [%s]%%string." % ";\n   ".join(
                    "(%s, %s)" % (coq_str(a), coq_str(clean(b))) for a, b in OUT_OF_SCOPE))
    if failures:
        body.append("".join("(* REJECTED: %s: %s *)\n" % (c, clean(w)) for c, w in failures) +
                    "Definition translator_ok_code7 : bool := false.")
    else:
        body.append("Definition translator_ok_code7 : bool := true.")
    return head_text() + "\n".join(body) + "\n"


def gen_code7():
    try:
        text = build_text()
    except Exception as exc:  # fail closed
        text = head_text() + "(* REJECTED: %s: %s *)\n" % (type(exc).__name__, clean(exc)) + "".join(
            "Definition %s : unit := tt.\n" % c for _, c in REQUIRED) + \
            "Ltac code7_unfold := idtac.\nLtac code7_open := idtac.\n" \
            "Definition COVERED_code7 : list string := [].\n" \
            "Definition REJECTED_code7 : list (string * string) := [].\n" \
            "Definition translator_ok_code7 : bool := false.\n"
    return write_if_changed("GenCode7.v", text)


if __name__ == "__main__":
    os.makedirs(translate.OUT, exist_ok=True)
    print("translate_code7: %s" % ("regenerated GenCode7.v" if gen_code7() else "nothing changed"))
