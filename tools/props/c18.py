"""C18: Unix time and the system's local UTC offset are converted exactly."""
from fractions import Fraction
from harness import Case
from props.common import MODES, OFFSETS, rand_tp, rand_year
from props.tpcommon import is_tp, tp_form

RULE = ("zone configurations: standard offset every whole hour in +-24 h and +-{1,29,30,31,59} min around each (quick) "
        "or every whole minute in +-24 h (thorough), x daylight offset deltas {0,+60,+30,-60,+1,...} x daylight flag x is-dst "
        "flag, fed to timezone.py by replacing its view of the `time` module, plus 40 POSIX TZ strings through time.tzset(); "
        "epoch: second counts around every catalogue boundary up to +-1e11, integral and non-negative fractional, UTC and "
        "local; seconds_since_unix_epoch on catalogue points in all representations/offsets/modes. "
        "non-trivial = offset not zero / count not zero.")
EXPLANATION = ("oracle: 60*h+m = offset, |m|<60, signs agree (the proved split), Spec read_offset of each text form gives the pair, "
               "Spec instant of the built TimePoint = epoch + n, seconds_since_unix_epoch = floor(instant - epoch)")

POSIX_TZ = ["UTC0", "EST5EDT,M3.2.0,M11.1.0", "NST3:30NDT,M3.2.0,M11.1.0", "CET-1CEST,M3.5.0,M10.5.0/3",
            "IST-5:30", "NPT-5:45", "CHAST-12:45CHADT,M9.5.0/2:45,M4.1.0/3:45", "XXX2:15", "XXX0:30YYY0:40,0/0,365/23",
            "AAA-0:30", "AAA0:30", "ACST-9:30ACDT,M10.1.0,M4.1.0/3", "LHST-10:30LHDT-11,M10.1.0,M4.1.0", "HST10",
            "MART9:30", "WART4WARST,J1/0,J365/25", "GMT0BST,M3.5.0/1,M10.5.0", "XXX-14", "XXX12", "XXX-13:45",
            "AAA23:59", "AAA-23:59", "AAA0:01", "AAA-0:01", "AAA11:30BBB10:30,0/0,365/23", "AAA-3:07", "AAA3:07",
            "PST8PDT", "MST7", "AKST9AKDT,M3.2.0,M11.1.0", "WIB-7", "JST-9", "NZST-12NZDT,M9.5.0,M4.1.0/3",
            "AAA1BBB,0/0,365/23", "AAA-1BBB,0/0,365/23", "AAA0:59", "AAA-0:59", "AAA5:29", "AAA-5:31", "AAA24", "AAA-24"]


def zone_cases(tier):
    if tier == "quick":
        stds = sorted({h * 60 + d for h in range(-24, 25) for d in (0, 1, -1, 29, 30, 31, 59, -29, -30, -31, -59)
                       if -1440 <= h * 60 + d <= 1440})
        deltas = [0, 60, 30, -60, 1, -1, 45, 120]
    else:
        stds = list(range(-1440, 1441))
        deltas = [0, 60, 30, -60, 1, -1, 45, 120, -30, 59, -59, 61, 15, -15, 1440, -1440]
    out = []
    for o in stds:
        for dlt in deltas:
            for dl in (0, 1):
                for dst in (0, 1, -1):
                    tz, alt = -60 * o, -60 * (o + dlt)
                    args = "%d %d %d %d" % (tz, alt, dl, dst)
                    lines = ["localtz " + args, "localfmt normal " + args, "localfmt reduced " + args,
                             "localfmt extended " + args]
                    eff = o + dlt if (dst == 1 and dl) else o
                    out.append(Case(lines, ["zone", "sign:%s" % ("0" if eff == 0 else "+" if eff > 0 else "-"),
                                            "min:%s" % ("0" if eff % 60 == 0 else "nz"),
                                            "hour0" if abs(eff) < 60 else "hourN", "dst%d%d" % (dl, dst)],
                                    fam="Z", eff=eff))
    for tzs in POSIX_TZ:
        out.append(Case(["localtz_os " + tzs], ["posix-tz"], fam="OS"))
    return out


def epoch_cases(rng, tier):
    out = []
    n = 1500 if tier == "quick" else 15000
    counts = [0, 1, -1, 59, 60, 86399, 86400, 86401, -86399, -86400, -86401, 951782400, 951868800, 68169600, 68255999,
              10**9, 2**31 - 1, 2**31, -2**31, 10**10, -10**10, 951782400, 68255999, 4102444800, -2208988800]
    # the model walks month by month: counts of 1e11 s (three thousand years) cost ~0.5 s each, so only a few
    big = [10**11, -10**11, 253402300799, 253402300800, -62135596801]
    from props.common import day_number, year_len
    for i in range(n):
        md = MODES[i % 4]
        c = (rng.choice(big) if i % 100 == 0 else rng.choice(counts)) + rng.choice([0, 0, 1, -1, rng.randint(-10**5, 10**5)])
        if i % 5 == 4:
            # counts that land on the first/last days of a year (and around the end of February) of boundary years,
            # among them the years a whole number of 400-year cycles from 1970: the carries of the day walk
            y = rng.choice([1970 + 400 * k for k in (-2, -1, 1, 2)] + [1900, 2000, 2100, 1968, 1972, 1600, 2400, 1, 0, 1969, 1971, 2038, 9999])
            doy = rng.choice([1, 2, 59, 60, 61, year_len(md, y) - 1, year_len(md, y)])
            c = (day_number(md, y, doy) - day_number(md, 1970, 1)) * 86400 + rng.choice([0, 1, 43200, 86399, 3723])
        q = Fraction(c)
        if c >= 0 and rng.random() < 0.15:
            q += rng.choice([Fraction(1, 2), Fraction(1, 4), Fraction(3, 4)])
        qs = str(q.numerator) if q.denominator == 1 else "%d/%d" % (q.numerator, q.denominator)
        if rng.random() < 0.5:
            where, z = "utc", (0, 0)
        else:
            z = rng.choice(OFFSETS)
            where = "local %d %d" % z
        out.append(Case(["fromunix %s %s %s" % (md, qs, where)], ["fromunix", "mode:" + md, where.split()[0],
                                                               "frac" if q.denominator > 1 else "int"],
                        fam="F", md=md, n=qs, zone="%d %d" % z))
    for i in range(n):
        md = MODES[i % 4]
        p = rand_tp(rng, md, decimals=(rng.random() < 0.3), year=(rng.choice([1969, 1969, 1970, 1, 1900]) if rng.random() < 0.3 else None))
        out.append(Case(["tounix %s %s" % (md, p)], ["tounix", "mode:" + md, "rep:" + p[0]], fam="T", md=md, p=p))
    return out


def generate(rng, tier):
    return zone_cases(tier) + epoch_cases(rng, tier)


EPOCH = "C 1970 1 1 S 0 0 0 0 0"


def model_lines(c):
    fam = c.meta["fam"]
    if fam == "Z":
        mq = list(c.lines)
        for o in c.impl[1:]:
            mq.append("s_readoffset " + (o if o and " " not in o else "?"))
        return mq
    if fam == "OS":
        t = c.impl[0].split()
        return ["localtz " + " ".join(t[2:])] if len(t) == 6 else []
    md = c.meta["md"]
    if fam == "F":
        mq = list(c.lines) + ["s_instant %s %s" % (md, EPOCH)]
        if is_tp(c.impl[0]):
            mq += ["s_instant %s %s" % (md, c.impl[0]), "s_normal %s %s" % (md, c.impl[0])]
        return mq
    return list(c.lines) + ["s_instant %s %s" % (md, EPOCH), "s_instant %s %s" % (md, c.meta["p"])]


def judge(c):
    fam = c.meta["fam"]
    I, M = c.impl, c.model
    res = []
    if fam == "Z":
        for l, a, b in zip(c.lines, I, M):
            if a != b:
                res.append(("disagree", "%s: implementation %r, model %r" % (l, a, b)))
        eff = c.meta["eff"]
        try:
            h, m = [int(x) for x in I[0].split()]
        except ValueError:
            return res + [("violation", "%s -> %s" % (c.lines[0], I[0]))]
        ok = (60 * h + m == eff and abs(m) < 60 and (h >= 0 and m >= 0 if eff >= 0 else h <= 0 and m <= 0))
        if not ok:
            res.append(("violation", "offset of %d minutes reported as (hours, minutes) = (%d, %d)" % (eff, h, m)))
        want = "%d %d" % (h, m)
        for name, txt, rd in zip(("normal", "reduced", "extended"), I[1:], M[4:]):
            if eff == 0:
                if txt != "Z":
                    res.append(("violation", "zero offset rendered %r in %s form" % (txt, name)))
            elif rd != want:
                res.append(("violation", "offset (%d, %d): %s text form %r denotes %s" % (h, m, name, txt, rd)))
        if eff != 0 and m == 0 and len(I[2]) != 3:
            res.append(("violation", "reduced form of whole-hour offset is %r" % I[2]))
        return res
    if fam == "OS":
        t = I[0].split()
        if len(t) != 6:
            return [("violation", "%s -> %s" % (c.lines[0], I[0]))]
        if " ".join(t[:2]) != M[0]:
            res.append(("disagree", "%s: implementation (%s), model (%s) for time values %s" % (c.lines[0], " ".join(t[:2]), M[0], t[2:])))
        off = -int(t[3]) if (t[5] == "1" and t[4] != "0") else -int(t[2])
        if off % 60 == 0:
            h, m = int(t[0]), int(t[1])
            if 60 * h + m != off // 60 or abs(m) >= 60 or (h * m < 0):
                res.append(("violation", "system zone %s: offset %d s reported as (%d, %d)" % (c.lines[0], off, h, m)))
        return res
    if fam == "F":
        if I[0] != M[0]:
            res.append(("disagree", "%s: implementation %r, model %r" % (c.lines[0], I[0], M[0])))
        if not is_tp(I[0]):
            return res + [("violation", "%s -> %s" % (c.lines[0], I[0]))]
        got = Fraction(M[2]) - Fraction(M[1])
        if got != Fraction(c.meta["n"]):
            res.append(("violation", "%s = %s denotes epoch + %s s" % (c.lines[0], I[0], got)))
        if tp_form(I[0])[2] != c.meta["zone"]:
            res.append(("violation", "%s = %s is not in the requested zone" % (c.lines[0], I[0])))
        if M[3] != "1":
            res.append(("violation", "%s = %s has a field out of range" % (c.lines[0], I[0])))
        return res
    # tounix
    if I[0] != M[0]:
        res.append(("disagree", "%s: implementation %r, model %r" % (c.lines[0], I[0], M[0])))
    d = Fraction(M[2]) - Fraction(M[1])
    if True:      # the whole number of seconds from the epoch to the instant: its floor, also before the epoch (F14 fixed)
        want = d.numerator // d.denominator
        if I[0] != str(want):
            res.append(("violation", "%s = %s but the instant is epoch + %s s" % (c.lines[0], I[0], d)))
    return res


def nontrivial(c):
    fam = c.meta["fam"]
    if fam == "Z":
        return c.meta["eff"] != 0
    if fam == "F":
        return c.meta["n"] != "0"
    return True
