"""C12: a recurrence iterates exactly the series it denotes."""
from fractions import Fraction
from harness import Case
from props.common import MODES
from props.reccommon import rand_rec, rand_rec_fmt1, dur_is_nominal
from props.tpcommon import is_tp

RULE = ("seeded recurrences in 4 modes: notation (start/second point, start/duration, duration/end) x repetitions "
        "{unbounded, 1, 2, 3, 5, 12, 13, 40} x anchors (boundary-biased dates in 3 representations, any offset; month ends for "
        "nominal intervals) x exact intervals (1 s ... 365 days, weeks, mixed-sign positive totals), nominal intervals (months, "
        "years, mixed) and zero intervals; the first 12 points are compared. non-trivial = more than one point.")
EXPLANATION = ("oracle: for exact intervals the Spec instants of the points are anchor +- i*len(d), exactly min(12, n) of them, strictly "
               "monotone, bounded duration/end series end on the given end; for nominal intervals each point is the previous one "
               "plus/minus the interval (model tp_add, proved against the Spec); n = 1 or zero interval gives exactly the anchor; "
               "start_point/end_point/repetitions/duration and the points are compared with the model's constructor and iterator")


def generate(rng, tier):
    n = 8000 if tier == "quick" else 100000
    cases = []
    for i in range(n):
        md = MODES[i % 4]
        args, info = rand_rec_fmt1(rng, md) if rng.random() < 0.2 else rand_rec(rng, md)
        cases.append(Case(["rmake %s %s" % (md, args)],
                          ["mode:" + md, "fmt:%d" % info["fmt"], "kind:" + info["kind"],
                           "reps:" + ("inf" if info["n"] is None else "1" if info["n"] == 1 else "n")],
                          md=md, **info))
    return cases


def model_lines(c):
    md = c.meta["md"]
    mq = list(c.lines)
    parts = [x.strip() for x in c.impl[0].split(";")]
    c.meta["parts"] = parts
    if len(parts) < 5:
        return mq
    pts = parts[5:]
    mq += ["s_instant %s %s" % (md, p) for p in pts]
    mq += ["s_instant %s %s" % (md, c.meta["anchor"]), "s_len %s" % c.meta["d"]]
    d = c.meta["d"]
    for a in pts[:-1]:
        mq.append(("add %s %s %s" if (c.meta["fmt"] != 4 or c.meta["n"] is not None) else "subd %s %s %s") % (md, a, d))
    return mq


def judge(c):
    I, M = c.impl[0], c.model
    res = []
    if I != M[0]:
        res.append(("disagree", "%s: implementation %r, model %r" % (c.lines[0], I, M[0])))
    parts = c.meta["parts"]
    n, fmt, kind, d = c.meta["n"], c.meta["fmt"], c.meta["kind"], c.meta["d"]
    if len(parts) < 5:
        return res + [("violation", "%s -> %s (a valid recurrence was refused)" % (c.lines[0], I))]
    pts = parts[5:]
    k = len(pts)
    inst = [Fraction(x) for x in M[1:1 + k]]
    anchor, L = Fraction(M[1 + k]), Fraction(M[2 + k])
    steps = M[3 + k:]
    single = (n == 1) or kind == "zero"
    want_count = 1 if single else (12 if n is None else min(12, n))
    if single:
        if k != 1 or inst[0] != anchor:
            res.append(("violation", "%s: one repetition / zero interval must yield exactly the anchor, got %s" % (c.lines[0], pts)))
        return res
    if k != want_count:
        res.append(("violation", "%s yields %d points (first 12 listed), expected %d" % (c.lines[0], k, want_count)))
    reverse = (fmt == 4 and n is None)
    if kind == "exact":
        first = anchor if fmt != 4 or n is None else anchor - (n - 1) * L
        for i, x in enumerate(inst):
            want = first + (-i if reverse else i) * L
            if x != want:
                res.append(("violation", "%s: point %d is %s, expected instant anchor%+d*interval (off by %s s)" % (c.lines[0], i, pts[i], i, float(x - want))))
                break
        if fmt == 4 and n is not None and k == n and inst and inst[-1] != anchor:
            res.append(("violation", "%s: the series does not end on the given end point" % c.lines[0]))
    else:
        for i, st in enumerate(steps):
            if i + 1 < k and st != pts[i + 1]:
                res.append(("violation", "%s: point %d (%s) is not point %d %s the interval (%s)" % (
                    c.lines[0], i + 1, pts[i + 1], i, "minus" if reverse else "plus", st)))
                break
        mono = all((inst[i] > inst[i + 1]) if reverse else (inst[i] < inst[i + 1]) for i in range(k - 1))
        if not mono:
            res.append(("violation", "%s: points are not strictly monotone" % c.lines[0]))
        if n is not None and n <= 12:
            if fmt == 4 and (k != n or inst[-1] != anchor):
                res.append(("violation", "%s: bounded series with a nominal interval must yield %d points ending on the given end; got %d ending %s" % (c.lines[0], n, k, pts[-1] if pts else None)))
            if fmt != 4 and (k != n or inst[0] != anchor):
                res.append(("violation", "%s: bounded series with a nominal interval must yield %d points from the start; got %d" % (c.lines[0], n, k)))
    return res


def nontrivial(c):
    return len(c.meta.get("parts", [])) > 6
