"""C20: adding a truncated time point finds the next matching date-time."""
from fractions import Fraction
from harness import Case
from props.common import MODES, rand_tp, rand_zone, month_len, year_len
from props.tpcommon import is_tp, tp_form

RULE = ("truncated points: every subset of hour/minute/second (each value 0..23 / 0..59) combined with no day designator, a "
        "weekday, a day of month (incl. 29-31), a day of year (incl. 366), a week (incl. 53) with or without weekday; zone "
        "unknown (70%) or given; full points: whole-second, 3 representations, any offset, boundary-biased, incl. exactly "
        "matching and one second before/after a match (the time fields of the full point are derived from the truncated "
        "one half of the time). non-trivial = the result differs from the full point.")
EXPLANATION = ("oracle: Spec next_match (least (day, second-of-day) >= the full point, read in the reference zone, whose day satisfies "
               "the designator and whose time of day equals the given fields with lower fields zero) is compared with the "
               "implementation's result re-read in the reference zone; result keeps the full point's offset, is valid, t + result = "
               "result, t + p = p + t; per-call timeout maps to HANG; all compared with the model (explicit Hang at the loop bounds)")

TIMESHAPES = ["", "h", "hm", "hms", "m", "ms", "s", "hs"]
DAYSHAPES = ["", "", "dow", "dom", "doy", "wkdow", "wkdow"]   # a week alone is not among the property's shapes


def fmt_opt(v):
    return "-" if v is None else str(v)


def generate(rng, tier):
    n = 3000 if tier == "quick" else 60000
    cases = []
    for i in range(n):
        md = MODES[i % 4] if i % 3 == 0 else "G"
        ts = rng.choice(TIMESHAPES)
        dsh = rng.choice(DAYSHAPES)
        if not ts and not dsh:
            ts = "h"
        h = rng.choice([0, 0, 6, 12, 23, rng.randint(0, 23)]) if "h" in ts else None
        m = rng.choice([0, 30, 59, rng.randint(0, 59)]) if "m" in ts else None
        s = rng.choice([0, 15, 59, rng.randint(0, 59)]) if "s" in ts else None
        dow = rng.randint(1, 7) if "dow" in dsh else None
        maxdom = 30 if md == "360" else 31
        dom = rng.choice([1, 28, 29, 30, maxdom, rng.randint(1, maxdom)]) if dsh == "dom" else None
        maxdoy = {"360": 360, "365": 365}.get(md, 366)
        doy = rng.choice([1, 59, 60, 61, maxdoy - 1, maxdoy, rng.randint(1, maxdoy)]) if dsh == "doy" else None
        # the longest week-year: 52 weeks in the 360-day calendar; one value above it is generated too
        # (refused by the constructor since fix F15; before it, week 53 there never terminated)
        maxwk = 52 if md == "360" else 53
        wk = rng.choice([1, 2, maxwk - 1, maxwk, maxwk, maxwk + 1, rng.randint(1, maxwk)]) if "wk" in dsh else None
        z = rand_zone(rng) if rng.random() < 0.3 else None
        # the full point: half of the time close to a match of the time fields
        if ts and rng.random() < 0.5:
            hh = h if h is not None else rng.randint(0, 23)
            mm = m if m is not None else (0 if h is not None else rng.randint(0, 59))
            ss = s if s is not None else 0
            tot = (hh * 3600 + mm * 60 + ss + rng.choice([0, 0, 1, -1, 60, -60])) % 86400
            tod = "S %d %d %d" % (tot // 3600, tot // 60 % 60, tot % 60)
            p = rand_tp(rng, md, tod=tod, zone=(z if z and rng.random() < 0.5 else None))
        else:
            # hh:mm:ss forms only: fractional hour/minute forms are the float regime (known finding F11)
            # the 24:00 end-of-day form of the full point matters most when the truncated point names no time field
            if rng.random() < (0.3 if not ts else 0.1):
                p = rand_tp(rng, md, tod="S 24 0 0")
            else:
                p = rand_tp(rng, md, form="S", allow24=False, decimals=False)
        t = " ".join(fmt_opt(x) for x in (h, m, s, dow, dom, doy, wk)) + " " + ("%d %d" % z if z else "- -")
        cases.append(Case(["tadd %s %s %s" % (md, t, p)],
                          ["mode:" + md, "time:" + (ts or "none"), "day:" + (dsh or "none"), "tzone:" + ("given" if z else "unknown"),
                           "rep:" + p[0]], md=md, t=t, p=p, ts=ts, dsh=dsh, h=h, refzone="%d %d" % z if z else tp_form(p)[2]))
    return cases


def model_lines(c):
    md, t, p = c.meta["md"], c.meta["t"], c.meta["p"]
    mq = list(c.lines) + ["s_truncexpect %s %s %s" % (md, t, p)]
    parts = [x.strip() for x in c.impl[0].split(";")]
    c.meta["parts"] = parts
    if len(parts) == 2 and is_tp(parts[0]):
        mq += ["s_localds %s %s %s" % (md, parts[0], c.meta["refzone"]), "s_valid %s %s" % (md, parts[0])]
    return mq


def judge(c):
    I, M = c.impl[0], c.model
    md, t, p = c.meta["md"], c.meta["t"], c.meta["p"]
    res = []
    if I != M[0]:
        res.append(("disagree", "%s: implementation %r, model %r" % (c.lines[0], I, M[0])))
    parts = c.meta["parts"]
    if I == "ERR" and M[0] == "ERR":
        c.meta["skipped"] = True
        return res      # the truncated point itself is refused (e.g. day 31 in a 360-day calendar)
    if I == "HANG":
        return res + [("violation", "truncated (%s) + %s in mode %s does not terminate" % (t, p, md))]
    if len(parts) != 2 or not is_tp(parts[0]):
        return res + [("violation", "%s -> %s" % (c.lines[0], I))]
    r, r2 = parts
    exp = M[1]
    if exp in ("NOMATCH", "NONINT"):
        c.meta["skipped"] = True
        return res
    got = M[2].split()
    want = exp.split()
    if [got[0], got[1]] != want:
        d = (int(got[0]) - int(want[0])) * 86400 + (Fraction(got[1]) - int(want[1]))
        res.append(("violation", "truncated (%s) + %s = %s is not the earliest matching date-time not earlier than the full point: "
                    "off by %s s from the least match (local day %s second %s)" % (t, p, r, d, want[0], want[1])))
    if tp_form(r)[2] != tp_form(p)[2]:
        res.append(("violation", "truncated (%s) + %s = %s is not in the full point's UTC offset" % (t, p, r)))
    if M[3] != "1":
        res.append(("violation", "truncated (%s) + %s = %s is not a valid date-time" % (t, p, r)))
    if r2 != r:
        res.append(("violation", "applying the truncated point (%s) again to %s gives %s" % (t, r, r2)))
    return res


def nontrivial(c):
    return not c.meta.get("skipped")
