"""C06: changing the UTC offset never changes the instant."""
from fractions import Fraction
from harness import Case
from props.common import MODES, OFFSETS, rand_tp, rand_zone
from props.pairs import gen_pairs, pair_model_lines, pair_judge
from props.tpcommon import is_tp, tp_form, q
from props.textcommon import enc, dec

IMPL_MODULES = ("impl_text",)

RULE = ("each seeded point (3 representations, any source offset incl. +-99:59 and negative minutes with zero hours, time forms "
        "incl. 24:00, near every boundary, 4 modes) is re-zoned with to_time_zone to catalogue and random destination offsets, "
        "with to_utc and with to_local_time_zone (system zone faked); thorough sweeps every destination offset -99:59..+99:59 "
        "for 60 start points; plus same-instant pairs compared/hashed/subtracted. non-trivial = destination differs from source.")
EXPLANATION = ("oracle: Spec instant unchanged, requested offset carried exactly, representation and precision form kept, fields valid; "
               "re-zoned value == original, equal hash, zero difference; compared with the model's to_time_zone")


def generate(rng, tier):
    cases = []
    n = 3000 if tier == "quick" else 40000
    for i in range(n):
        md = MODES[i % 4]
        p = rand_tp(rng, md, decimals=(rng.random() < 0.15))
        z = rand_zone(rng)
        op = rng.choice(["tz", "tz", "tz", "tolocal", "toutc"])
        line = "%s %s %s" % (op, md, p) + ("" if op == "toutc" else " %d %d" % z)
        cases.append(Case([line], ["op:" + op, "mode:" + md, "rep:" + p[0], "tod:" + tp_form(p)[1]],
                          md=md, p=p, z="0 0" if op == "toutc" else "%d %d" % z, fam="Z", fl="/" in p or tp_form(p)[1] != "S"))
    # re-zonings that carry the local date across the end of a month or year, in the years where the leap rule
    # matters (century years, their neighbours, year 0): the carried date must be a real date of the calendar
    from props.common import month_len, year_len, weeks_in
    for i in range(800 if tier == "quick" else 8000):
        md = MODES[i % 4]
        y = rng.choice([1900, 2100, 2000, 2400, 1896, 1904, 2096, 2104, 0, -1, 4, 100, 400, 1999, 2001, 2020, 2023, 9999, 1])
        kind = rng.choice("CCOW")
        fwd = rng.random() < 0.5
        if kind == "C":
            mo = rng.choice([2, 2, 2, 12, 1, 3, rng.randint(1, 12)])
            d = month_len(md, y, mo) if fwd else 1
            date = "C %d %d %d" % (y, mo, d)
        elif kind == "O":
            doy = rng.choice([year_len(md, y), 59, 60]) if fwd else rng.choice([1, 60, 61])
            date = "O %d %d" % (y, min(doy, year_len(md, y)))
        else:
            date = "W %d %d 7" % (y, weeks_in(md, y)) if fwd else "W %d 1 1" % y
        hh = rng.choice([22, 23, 23]) if fwd else rng.choice([0, 0, 1])
        z = rand_zone(rng) if rng.random() < 0.3 else (rng.choice([0, 1, -5]), 0)
        dz = rng.choice([1, 2, 3, 5]) * (1 if fwd else -1)
        z2 = (z[0] + dz, z[1]) if -99 < z[0] + dz < 99 and ((z[0] + dz) * z[1] >= 0) else (z[0], z[1])
        p = "%s S %d %d %d %d %d" % (date, hh, rng.choice([0, 30, 59]), rng.choice([0, 59]), z[0], z[1])
        cases.append(Case(["tz %s %s %d %d" % (md, p, z2[0], z2[1])], ["op:tz", "date-carry", "mode:" + md, "rep:" + p[0]],
                          md=md, p=p, z="%d %d" % z2, fam="Z", fl=False))
    if tier == "thorough":
        for i in range(60):
            md = MODES[i % 4]
            p = rand_tp(rng, md, decimals=False)
            for h in range(-99, 100):
                for m in range(0, 60):
                    mm = -m if h < 0 else m
                    variants = [(h, mm)] if h != 0 else [(0, m), (0, -m)]
                    for z in variants:
                        cases.append(Case(["tz %s %s %d %d" % (md, p, z[0], z[1])], ["op:tz", "sweep", "mode:" + md],
                                          md=md, p=p, z="%d %d" % z, fam="Z", fl=tp_form(p)[1] != "S"))
    cases += gen_pairs(rng, 1500 if tier == "quick" else 20000, same_frac=1.0)
    # dumping with a format that spells out a literal zone: Z, +-hh, +-hhmm, +-hh:mm
    for i in range(1200 if tier == "quick" else 20000):
        md = MODES[i % 4]
        from props.common import rand_date
        y = rng.choice([1, 1999, 2000, 2004, 9998, rng.randint(1, 9998)])
        p = "%s S %d %d %d %d %d" % ((rand_date(rng, md, y), rng.randint(0, 23), rng.randint(0, 59), rng.randint(0, 59)) + rand_zone(rng))
        lz = rand_zone(rng)
        ext = rng.random() < 0.5
        sign = "-" if (lz[0] < 0 or lz[1] < 0) else "+"
        if lz == (0, 0):
            ztxt = "Z"
        elif lz[1] == 0 and rng.random() < 0.4:
            ztxt = "%s%02d" % (sign, abs(lz[0]))
        else:
            ztxt = ("%s%02d:%02d" if ext else "%s%02d%02d") % (sign, abs(lz[0]), abs(lz[1]))
        dexpr = rng.choice(["CCYY-MM-DD", "CCYY-DDD", "CCYY-Www-D"] if ext else ["CCYYMMDD", "CCYYDDD", "CCYYWwwD"])
        fmt = dexpr + ("Thh:mm:ss" if ext else "Thhmmss") + ztxt
        cases.append(Case(["dumpparse %s 0 %s %s" % (md, p, enc(fmt))], ["op:dump-literal-zone", "mode:" + md, "zone:" + ztxt[:1]],
                          md=md, p=p, fam="L", fmt=fmt, ztxt=ztxt))
    return cases


def model_lines(c):
    if c.meta.get("fam") == "L":
        return list(c.lines)
    if c.meta.get("fam") != "Z":
        return pair_model_lines(c)
    md = c.meta["md"]
    mq = list(c.lines) + ["s_instant %s %s" % (md, c.meta["p"])]
    if is_tp(c.impl[0]):
        mq += ["s_instant %s %s" % (md, c.impl[0]), "s_valid %s %s" % (md, c.impl[0])]
    return mq


def judge(c):
    if c.meta.get("fam") == "L":
        I, M = c.impl[0], c.model[0]
        res = []
        if I != M and M != "UNMODELLED":
            res.append(("disagree", "%s: implementation %r, model %r" % (c.lines[0], I, M)))
        if I == "ERR bounds":
            return res          # the conversion left the year range 0000-9999 of the format
        parts = [x.strip() for x in I.split(";")]
        if len(parts) != 2 or parts[1] != "EQ":
            res.append(("violation", "%s dumped with the literal-zone format %r gives %s: not equal to the original" % (c.meta["p"], c.meta["fmt"], I)))
        elif not dec(parts[0]).endswith(c.meta["ztxt"]):
            res.append(("violation", "%s dumped with %r gives %r: does not carry the requested zone text" % (c.meta["p"], c.meta["fmt"], dec(parts[0]))))
        return res
    if c.meta.get("fam") != "Z":
        return pair_judge(c)
    I, M = c.impl[0], c.model
    res = []
    p = c.meta["p"]
    if not is_tp(I):
        return [("violation", "%s -> %s" % (c.lines[0], I))]
    tol = Fraction(1, 10**6) if c.meta["fl"] else 0
    if abs(Fraction(M[2]) - Fraction(M[1])) > tol:
        res.append(("violation", "%s = %s moves the instant by %s s" % (c.lines[0], I, float(Fraction(M[2]) - Fraction(M[1])))))
    f, g = tp_form(I), tp_form(p)
    if f[2] != c.meta["z"]:
        res.append(("violation", "%s = %s does not carry the requested offset" % (c.lines[0], I)))
    if f[:2] != g[:2]:
        res.append(("violation", "%s = %s changes representation or precision form" % (c.lines[0], I)))
    if M[3] != "1":
        res.append(("violation", "%s = %s has an invalid local date or time field" % (c.lines[0], I)))
    if not c.meta["fl"] and M[0] != I:
        res.append(("disagree", "%s: implementation %r, model %r" % (c.lines[0], I, M[0])))
    return res


def nontrivial(c):
    if c.meta.get("fam") == "L":
        return True
    if c.meta.get("fam") == "Z":
        return tp_form(c.meta["p"])[2] != c.meta["z"]
    return True
