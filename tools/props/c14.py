"""C14: recurrences are values: shifting, equality, hashing and text round trip."""
from fractions import Fraction
from harness import Case
from props.common import MODES, rand_zone
from props.reccommon import rand_rec, rand_rec_fmt1, dur_is_nominal, EXACT
from props.tpcommon import is_tp, q, rand_exact_dur
from props.c11 import respell

IMPL_MODULES = ("impl_text", "impl_rectext")

RULE = ("recurrences as in C12 (all notations incl. single-point ones) x exact shift durations from the C01 catalogue, in either "
        "operand order, and back; pairs of recurrences differing in exactly one of repetitions/start/end/interval, and pairs "
        "spelling the same anchors and interval differently (other offset, other units); str/parse round trip of every "
        "constructed recurrence. non-trivial = more than one point or a non-empty shift.")
EXPLANATION = ("oracle: shifted recurrence keeps repetitions and interval, anchors and (exact intervals) every listed point move by len(d) "
               "in Spec instants, (r+d)-d == r with equal hash; == / hash on crafted pairs; parse(str(r)) == r with the same points and "
               "str a fixpoint; the text, the re-parsed recurrence and the hashed tuple are compared with the model (Props/C14Text.v); shift/equality compared with the model")


def rezone_same_instant(rng, tp):
    """Another spelling of the same instant: whole-hour offset change within the day (generator-side arithmetic)."""
    t = tp.split()
    i = {"C": 4, "O": 3, "W": 4}[t[0]]
    if t[i] != "S":
        return None
    h, zh, zm = int(Fraction(t[i + 1])), int(t[i + 4]), int(t[i + 5])
    for k in rng.sample([1, -1, 2, -2, 3, -3, 5, -5], 8):
        if 0 <= h + k <= 23 and -99 < zh + k < 99 and ((zh + k > 0) == (zh > 0) or zm == 0) and ((zh + k < 0) == (zh < 0) or zm == 0) and (zh + k != 0 or zm == 0 or zh == 0):
            if (zh + k > 0 and zm < 0) or (zh + k < 0 and zm > 0):
                continue
            t2 = list(t)
            t2[i + 1] = str(h + k)
            t2[i + 4] = str(zh + k)
            return " ".join(t2)
    return None


def change_one(rng, args, info):
    """args differing in exactly one component (and therefore unequal)."""
    t = args.split()
    which = rng.choice(["reps", "anchor", "dur"])
    a = info["anchor"].split()
    if which == "reps" and info["n"] is not None and info["n"] >= 2 and info["kind"] != "zero":
        return args.replace(str(info["n"]), str(info["n"] + 1), 1), "reps"
    if which == "dur" and info["kind"] == "exact" and info["fmt"] != 1 and info["n"] != 1:
        d = info["d"]
        dt = d.split()
        d2 = "DW %d" % (int(dt[1]) + 1) if dt[0] == "DW" else " ".join(dt[:6] + [q(Fraction(dt[6]) + 1)])
        return args.replace(d, d2, 1), "dur"
    # move the anchor by one second
    i = {"C": 4, "O": 3, "W": 4}[a[0]]
    if a[i] == "S":
        s = Fraction(a[i + 3])
        a2 = list(a)
        a2[i + 3] = q(s + 1 if s < 59 else s - 1)
        if Fraction(a[i + 1]) == 24:
            a2[i + 1:i + 4] = ["23", "59", "59"]       # 24:00:01 does not exist
        return args.replace(info["anchor"], " ".join(a2), 1), "anchor"
    return None, None


def generate(rng, tier):
    n = 6000 if tier == "quick" else 60000
    cases = []
    for i in range(n):
        md = MODES[i % 4]
        args, info = rand_rec_fmt1(rng, md) if rng.random() < 0.2 else rand_rec(rng, md, kind=rng.choice(["exact", "exact", "nominal", "zero"]))
        fam = rng.choice("AAAEETT")
        if fam == "A":
            d, _, _ = rand_exact_dur(rng, decimals=False)
            cases.append(Case(["rmake %s %s" % (md, args), "recadd %s %s %s" % (md, args, d)],
                              ["shift", "mode:" + md, "fmt:%d" % info["fmt"], "kind:" + info["kind"],
                               "reps:" + ("inf" if info["n"] is None else "1" if info["n"] == 1 else "n")],
                              md=md, fam="A", shift=d, **info))
        elif fam == "E":
            if rng.random() < 0.12 and info["fmt"] != 1:
                # anchors one year apart in years whose integers collide under CPython's hash (hash(-1) == hash(-2)),
                # and around year 0: equality must compare the points, not a digest of them
                ya, yb = rng.choice([(-1, -2), (-2, -1), (-1, 0), (0, 1), (-1, -2)])
                a = info["anchor"].split()
                a1, a2 = list(a), list(a)
                a1[1], a2[1] = str(ya), str(yb)
                base = args.replace(info["anchor"], " ".join(a1), 1)
                other = args.replace(info["anchor"], " ".join(a2), 1)
                cases.append(Case(["req %s %s %s" % (md, base, other), "rmake %s %s" % (md, base), "rmake %s %s" % (md, other),
                                   "rechash %s %s" % (md, base), "rechash %s %s" % (md, other)],
                                  ["equality", "mode:" + md, "diff:year-apart"], md=md, fam="E", want="0",
                                  **dict(info, anchor=" ".join(a1))))
                continue
            if rng.random() < 0.5:
                other, what = change_one(rng, args, info)
                want = "0"
            else:
                a2 = rezone_same_instant(rng, info["anchor"])
                if info["kind"] == "nominal" and info["n"] is not None:
                    a2 = None     # a derived far anchor of a month/year interval legitimately depends on the local date
                other = args.replace(info["anchor"], a2) if a2 else None
                if other and info["kind"] == "exact" and info["fmt"] != 1 and rng.random() < 0.5:
                    other = other.replace(info["d"], respell(rng, info["d"]), 1)
                want, what = "1", "respelled"
            if other is None:
                continue
            cases.append(Case(["req %s %s %s" % (md, args, other), "rmake %s %s" % (md, args), "rmake %s %s" % (md, other),
                               "rechash %s %s" % (md, args), "rechash %s %s" % (md, other)],
                              ["equality", "mode:" + md, "diff:" + what], md=md, fam="E", want=want, **info))
        else:
            if "-" in info["d"].replace("DU", "").replace("DW", "").strip() and any(x.startswith("-") for x in info["d"].split()[1:]):
                continue      # mixed-sign intervals are not parser-producible
            cases.append(Case(["rtext %s %s" % (md, args), "recrt %s %s" % (md, args), "rechash %s %s" % (md, args)],
                              ["text", "mode:" + md, "fmt:%d" % info["fmt"]], md=md, fam="T", **info))
    return cases


def model_lines(c):
    md, fam = c.meta["md"], c.meta["fam"]
    if fam == "T":
        return list(c.lines[1:])
    mq = list(c.lines)
    if fam == "A":
        a = [x.strip() for x in c.impl[0].split(";")]
        b = [x.strip() for x in c.impl[1].split(";")]
        c.meta["a"], c.meta["b"] = a, b
        if len(a) >= 5 and len(b) >= 6:
            for x in a[5:] + b[5:-1] + [a[1], a[3], b[1], b[3]]:
                mq.append("s_instant %s %s" % (md, x) if is_tp(x) else "leap 0")
            mq.append("s_len %s" % c.meta["shift"])
    return mq


def judge(c):
    I, M, fam = c.impl, c.model, c.meta["fam"]
    res = []
    if fam == "T":
        t = [x.strip() for x in I[0].split(";")]
        if len(t) != 5 or t[1:] != ["eq 1", "pts 1", "hash 1", "fix 1"]:
            nb = "nominal-bounded: " if (c.meta["kind"] == "nominal" and (c.meta["n"] or 0) >= 2) else ""
            res.append(("violation", nb + "%s: str/parse round trip gives %s" % (c.lines[0], I[0])))
        # the text, the re-parsed recurrence and the hashed tuple against the model (Props/C14Text.v)
        for l, x, y in zip(c.lines[1:], I[1:], M):
            if y != "UNMODELLED" and not close_rec(x, y):
                res.append(("disagree", "%s: implementation %r, model %r" % (l, x, y)))
        return res
    if fam == "E" and (I[1].startswith("ERR") or I[2].startswith("ERR")):
        if I[1].startswith("ERR") and M[1].startswith("ERR") or I[2].startswith("ERR") and M[2].startswith("ERR"):
            return res
        # an anchor the constructor refuses (the line protocol does not validate points on the model side)
        c.meta["skipped"] = True
        return res
    for l, x, y in zip(c.lines, I, M[:len(c.lines)]):
        if x != y and not (l.startswith("rechash") and close_rec(x, y)):
            res.append(("disagree", "%s: implementation %r, model %r" % (l, x, y)))
    if fam == "E":
        if I[0] == "1" and not I[3].startswith("ERR") and not close_rec(I[3], I[4]):
            res.append(("violation", "%s: equal recurrences hash different tuples: %s vs %s" % (c.lines[0], I[3], I[4])))
        if I[1].startswith("ERR") or I[2].startswith("ERR"):
            return res
        if I[0] != c.meta["want"]:
            res.append(("violation", "%s: == gives %s, expected %s" % (c.lines[0], I[0], c.meta["want"])))
        if c.meta["want"] == "1" and c.meta["kind"] != "nominal":
            pa = [x.strip() for x in I[1].split(";")][5:]
            pb = [x.strip() for x in I[2].split(";")][5:]
            if len(pa) != len(pb):
                res.append(("violation", "%s: equal recurrences iterate %d vs %d points" % (c.lines[0], len(pa), len(pb))))
        return res
    a, b = c.meta["a"], c.meta["b"]
    if len(a) < 5:
        return res
    nb = "nominal-bounded: " if (c.meta["kind"] == "nominal" and (c.meta["n"] or 0) >= 2) else ""
    if len(b) < 6:
        return res + [("violation", nb + "%s -> %s" % (c.lines[1], I[1]))]
    if b[-1] != "back 1":
        res.append(("violation", nb + "%s: (r + d) - d == r fails: %s" % (c.lines[1], b[-1])))
    if b[0] != a[0]:
        res.append(("violation", "%s: repetitions change from %s to %s" % (c.lines[1], a[0], b[0])))
    if c.meta["fmt"] != 1 and b[2] != a[2]:
        res.append(("violation", "%s: interval changes from %s to %s" % (c.lines[1], a[2], b[2])))
    pa, pb = a[5:], b[5:-1]
    sp = M[2:]
    ia = [Fraction(x) for x in sp[:len(pa)]]
    ib = [Fraction(x) for x in sp[len(pa):len(pa) + len(pb)]]
    rest = sp[len(pa) + len(pb):]
    L = Fraction(rest[4])
    for name, x, y, ox, oy in (("start", rest[0], rest[2], a[1], b[1]), ("end", rest[1], rest[3], a[3], b[3])):
        if is_tp(ox) != is_tp(oy):
            res.append(("violation", nb + "%s: %s point appears/disappears: %s -> %s" % (c.lines[1], name, ox, oy)))
        elif is_tp(ox) and Fraction(y) != Fraction(x) + L and not (c.meta["kind"] == "nominal" and name != ("end" if c.meta["fmt"] == 4 else "start")):
            res.append(("violation", nb + "%s: %s point %s -> %s is not moved by the shift" % (c.lines[1], name, ox, oy)))
    if c.meta["kind"] != "nominal":
        if len(pa) != len(pb) or any(y != x + L for x, y in zip(ia, ib)):
            res.append(("violation", "%s: the points of the series are not all moved by the shift: %s -> %s" % (c.lines[1], pa[:3], pb[:3])))
    return res


def close_rec(x, y):
    """token-wise equality, numbers within 1e-9 (decimal forms are floats on the implementation side)"""
    if x == y:
        return True
    a, b = x.split(), y.split()
    if len(a) != len(b):
        return False
    for u, v in zip(a, b):
        if u == v:
            continue
        try:
            if abs(Fraction(u) - Fraction(v)) > Fraction(1, 10 ** 9):
                return False
        except (ValueError, ZeroDivisionError):
            return False
    return True


def nontrivial(c):
    return True
