"""C09: impossible dates and malformed text are rejected, cleanly."""
import re
from fractions import Fraction
from harness import Case
from props.common import MODES, month_len, year_len
from props.textcommon import DATE, TIME, ZONE, enc, dec, render_date, render_time, render_zone

IMPL_MODULES = ("impl_text",)
RULE = ("constructor: for each mode and year type (common, leap, century, 400-multiple, 0, negative) every field tuple in and just outside "
        "its legal range: month 0-13, day 0-32 per month, ordinal day 0, 365-367, week 0, 52-54, weekday 0-8, hour 0-25, 24:xx, minute "
        "and second 59-60, zone hours +-99/100, minutes +-59/60 and sign conflicts; the same through the calendar/ordinal/week text "
        "notations; malformed text for the three parsers: valid expressions mutated by deletion, duplication, swap, splice, character "
        "substitution (incl. non-ASCII digits, control characters, signs, 'T', 'P', 'R', '/', ',', '.', ':'), and raw noise, in each "
        "parser configuration. non-trivial = the input lies just outside a legal range or is a mutation at distance 1-2 of a valid text.")
EXPLANATION = ("oracle: construction succeeds exactly when the Spec says the date is valid (valid_date) and the time/zone fields are in "
               "range; for arbitrary text each parser returns an object that the Spec accepts as valid, or raises a ValueError-derived "
               "error - never another exception, never a hang (10 s per call); constructor and time-point parser are compared with "
               "the model (strings outside ASCII are model-UNMODELLED and judged on the implementation only)")

YTYPES = [2001, 2004, 1900, 2000, 0, -1, -4, -100, -400, 99999]


def o(v):
    return "-" if v is None else str(v)


def mk(md, y=None, mo=None, d=None, doy=None, w=None, dow=None, h=None, mi=None, s=None, zh=None, zm=None):
    return "mk %s %s" % (md, " ".join(o(x) for x in (y, mo, d, doy, w, dow, h, mi, s, zh, zm)))


def ctor_cases(tier):
    cases = []
    for md in MODES:
        for y in YTYPES:
            for mo in range(0, 14):
                for d in (0, 1, 27, 28, 29, 30, 31, 32):
                    cases.append(Case([mk(md, y, mo, d)], ["ctor", "calendar", "mode:" + md], md=md, fam="K", date="C %d %d %d" % (y, mo, d)))
            for doy in (0, 1, 2, 359, 360, 361, 364, 365, 366, 367):
                cases.append(Case([mk(md, y, doy=doy)], ["ctor", "ordinal", "mode:" + md], md=md, fam="K", date="O %d %d" % (y, doy)))
            for w in (0, 1, 2, 50, 51, 52, 53, 54):
                for dow in (0, 1, 7, 8):
                    cases.append(Case([mk(md, y, w=w, dow=dow)], ["ctor", "week", "mode:" + md], md=md, fam="K", date="W %d %d %d" % (y, w, dow)))
        # time and zone fields
        for h, mi, s in [(0, 0, 0), (23, 59, 59), (24, 0, 0), (24, 0, 1), (24, 1, 0), (25, 0, 0), (-1, 0, 0), (12, 60, 0), (12, 0, 60),
                         (12, -1, 0), (12, 0, -1), (24, None, None), (23, 59, None), (24, 59, None)]:
            cases.append(Case([mk(md, 2000, 1, 1, h=h, mi=mi, s=s)], ["ctor", "time", "mode:" + md], md=md, fam="T", tod=(h, mi, s)))
        for zh, zm in [(0, 0), (99, 59), (-99, -59), (100, 0), (-100, 0), (0, 60), (0, -60), (0, -59), (0, 59), (1, -1), (-1, 1), (5, -30),
                       (-5, 30), (1, 60), (99, 0), (None, 30), (None, -30), (3, None)]:
            cases.append(Case([mk(md, 2000, 1, 1, zh=zh, zm=zm)], ["ctor", "zone", "mode:" + md], md=md, fam="Z", zone=(zh, zm)))
    return cases


def text_invalid_cases(rng, tier):
    """impossible dates through the text notations"""
    cases = []
    for md in MODES:
        for y in (2001, 2004, 1900, 2000):
            texts = []
            for mo, d in [(0, 1), (13, 1), (2, 30), (2, 29), (2, 28), (4, 31), (1, 31), (12, 32), (1, 0), (6, 30), (6, 31)]:
                texts += [("%04d-%02d-%02d" % (y, mo, d), "C %d %d %d" % (y, mo, d)), ("%04d%02d%02d" % (y, mo, d), "C %d %d %d" % (y, mo, d))]
            for doy in (0, 1, 360, 361, 365, 366, 367):
                texts += [("%04d-%03d" % (y, doy), "O %d %d" % (y, doy)), ("%04d%03d" % (y, doy), "O %d %d" % (y, doy))]
            for w, dow in [(0, 1), (1, 0), (1, 8), (52, 7), (53, 1), (54, 1), (51, 1)]:
                texts += [("%04d-W%02d-%d" % (y, w, dow), "W %d %d %d" % (y, w, dow)), ("%04dW%02d%d" % (y, w, dow), "W %d %d %d" % (y, w, dow))]
            for tx, date in texts:
                cases.append(Case(["parse %s 2 0 0 0 0 0 0 0 0 %s" % (md, enc(tx))], ["text-date", "mode:" + md], md=md, fam="X", date=date, text=tx))
        # fractions of seven and more digits at the two edges: 24:00 plus anything is impossible however small,
        # and a last unit just below its bound is in range however close
        for tt, ok in [("T24:00:00.0000001Z", False), ("T24:00,0000004Z", False), ("T24.00000049Z", False), ("T24:00:00.00000001", False),
                       ("T23:59:59.9999996", True), ("T12:59.99999951", True), ("T23,9999999", True), ("T23:59:59.99999999Z", True),
                       ("T00:00:00.0000001", True)]:
            for dd in ("2000-01-01", "2000-12-30"):
                cases.append(Case(["parse %s 2 0 0 0 0 0 0 0 0 %s" % (md, enc(dd + tt))], ["text-time", "long-fraction", "mode:" + md],
                                  md=md, fam="Y", ok=ok, text=dd + tt))
        for tt, ok in [("T24:00", True), ("T24:01", False), ("T24:00:01", False), ("T25", False), ("T23:60", False), ("T23:59:60", False),
                       ("T23:59:59", True), ("T00", True), ("T12:00+24:00", True), ("T12:00+99:59", True), ("T12:00-99:59", True),
                       ("T12:00+00:60", False), ("T12:00+2360", False), ("T24,5", False), ("T24:00,5", False), ("T24:00:00,5", False)]:
            cases.append(Case(["parse %s 2 0 0 0 0 0 0 0 0 %s" % (md, enc("2000-01-01" + tt))], ["text-time", "mode:" + md],
                              md=md, fam="Y", ok=ok, text="2000-01-01" + tt))
    return cases


ALPH = "0123456789TZPRWYMDHS+-:,./ \t\n%٠١३１²\x00\x7fabc"


def valid_texts(rng):
    y = rng.choice([0, 1999, 2000, 2004, 9999])
    pool = []
    fk = rng.choice(["basic", "extended"])
    dexpr = rng.choice(DATE[(fk, "complete")] + DATE[(fk, "reduced")])
    dv = dict(year=y, neg=False, month=rng.randint(1, 12), dom=rng.randint(1, 28), doy=rng.randint(1, 365), week=rng.randint(1, 52), dow=rng.randint(1, 7))
    t = render_date(dexpr, dv, 2)
    if rng.random() < 0.7 and dexpr in DATE[(fk, "complete")]:
        texpr = rng.choice(TIME[(fk, "complete")] + TIME[(fk, "reduced")])
        t += "T" + render_time(texpr, dict(h=rng.randint(0, 23), m=rng.randint(0, 59), s=rng.randint(0, 59), dec=str(rng.randint(0, 999))))
        if rng.random() < 0.6:
            z = rng.choice(ZONE[fk])
            zh = rng.randint(-12, 14)
            t += render_zone(z, zh, (30 if zh >= 0 else -30) if "mm" in z else 0)
    pool.append(("tp", t))
    d = "P" + "".join("%d%s" % (rng.randint(0, 99), u) for u in "YMD" if rng.random() < 0.5)
    tpart = "".join("%s%s" % (rng.choice(["1", "30", "1,5", "0.25", "59"]), u) for u in "HMS" if rng.random() < 0.5)
    d = d + ("T" + tpart if tpart else "") if len(d) > 1 or tpart else "P1W"
    if rng.random() < 0.2:
        d = "-" + d
    pool.append(("dur", d))
    r = rng.choice(["R%d/%s/%s" % (rng.randint(1, 9), t if "T" in t else "2000-01-01T00Z", d.lstrip("-")),
                    "R/%s/%s" % (d.lstrip("-"), "2000-01-01T00Z"), "R3/2000-01-01T00Z/2000-01-02T00Z"])
    pool.append(("rec", r))
    return pool


def mutate(rng, s):
    k = rng.choice([1, 1, 1, 2, 3])
    for _ in range(k):
        if not s:
            s = rng.choice(ALPH)
            continue
        i = rng.randrange(len(s))
        op = rng.random()
        if op < 0.25:
            s = s[:i] + s[i + 1:]
        elif op < 0.5:
            s = s[:i] + rng.choice(ALPH) + s[i:]
        elif op < 0.75:
            s = s[:i] + rng.choice(ALPH) + s[i + 1:]
        elif op < 0.85:
            s = s[:i] + s[i] + s[i:]
        else:
            j = rng.randrange(len(s))
            i, j = min(i, j), max(i, j)
            s = s[:i] + s[j:] + s[i:j]
    return s[:60]


def malformed_cases(rng, tier):
    n = 6000 if tier == "quick" else 300000
    cfgs = ["2 0 0 0 0 0 0 0", "2 1 0 - - 1 0 0", "2 0 1 - - 0 5 30", "0 0 0 0 0 0 0 0", "3 1 1 0 0 0 0 0"]
    cases = []
    for i in range(n):
        kind, text = rng.choice(valid_texts(rng))
        r = rng.random()
        if r < 0.75:
            text = mutate(rng, text)
            tag = "mutated"
        elif r < 0.85:
            text = "".join(rng.choice(ALPH) for _ in range(rng.randint(0, 12)))
            tag = "noise"
        else:
            tag = "valid"
        which = kind if rng.random() < 0.8 else rng.choice(["tp", "dur", "rec"])
        cfg = rng.choice(cfgs)
        lines = ["anyparse %s %s %s" % (which, cfg, enc(text))]
        if which == "tp":
            lines.append("parse G %s 0 %s" % (cfg, enc(text)))
        cases.append(Case(lines, ["malformed", "parser:" + which, tag], md="G", fam="M", which=which, text=text))
    return cases


def seq_cases(rng, tier):
    """one date checked under each calendar in turn, twice, inside ONE case (so in one process): the answer must
    depend on the calendar in force, not on what an earlier calendar left in a cache"""
    cases = []
    dates = [(y, 2, d) for y in (0, 4, 1900, 2000, 2004, 2023, 2024) for d in (28, 29, 30)] + \
            [(y, mo, d) for y in (2001, 2004) for mo in (1, 4, 12) for d in (30, 31)]
    for y, mo, d in dates:
        order = MODES[:]
        rng.shuffle(order)
        seq = order + order[::-1]
        cases.append(Case([mk(md, y, mo, d) for md in seq], ["ctor", "calendar", "mode-sequence"], md="*", fam="KS",
                          seq=seq, date="C %d %d %d" % (y, mo, d)))
    for y in (2001, 2004, 2100):
        for doy in (360, 361, 365, 366):
            order = MODES[:]
            rng.shuffle(order)
            seq = order + order[::-1]
            cases.append(Case([mk(md, y, doy=doy) for md in seq], ["ctor", "ordinal", "mode-sequence"], md="*", fam="KS",
                              seq=seq, date="O %d %d" % (y, doy)))
        for w in (51, 52, 53):
            order = MODES[:]
            rng.shuffle(order)
            seq = order + order[::-1]
            cases.append(Case([mk(md, y, w=w, dow=7) for md in seq], ["ctor", "week", "mode-sequence"], md="*", fam="KS",
                              seq=seq, date="W %d %d 7" % (y, w)))
    return cases


def trunc_cases(tier):
    """truncated date forms (no year): a day of month without a month is bounded by the longest month of the calendar,
    with a month by that month's length in a leap year, a day of year by the leap-year length, a week by the longest
    week-year; one value inside and one outside each bound, in every calendar"""
    from props.common import weeks_in
    cases = []
    for md in MODES:
        maxdom = 30 if md == "360" else 31
        leapdays = {"360": 360, "365": 365}.get(md, 366)
        maxweeks = max(weeks_in(md, y) for y in range(1995, 2030))
        items = []
        for d in (1, 28, 29, 30, 31, 32):
            items.append(("---%02d" % d, 1 <= d <= maxdom))
        for mo, d in [(2, 28), (2, 29), (2, 30), (4, 30), (4, 31), (1, 31), (12, 31), (13, 1), (0, 1)]:
            ml = (30 if md == "360" else (29 if md in ("G", "366") else 28) if mo == 2 else [31, 28, 31, 30, 31, 30, 31, 31, 30, 31, 30, 31][mo - 1]) \
                if 1 <= mo <= 12 else 0
            items.append(("--%02d-%02d" % (mo, d), 1 <= mo <= 12 and 1 <= d <= ml))
        for doy in (1, 360, 361, 365, 366, 367):
            items.append(("-%03d" % doy, 1 <= doy <= leapdays))
        for w in (1, 51, 52, 53, 54):
            for dow in (1, 7, 8):
                items.append(("-W%02d-%d" % (w, dow), 1 <= w <= maxweeks and 1 <= dow <= 7))
        for text, ok in items:
            cases.append(Case(["parse %s 2 1 0 - - 1 0 0 0 %s" % (md, enc(text))], ["truncated-bounds", "mode:" + md],
                              md=md, fam="Y", ok=ok, text=text + " (truncated, mode %s)" % md))
    return cases


def generate(rng, tier):
    return ctor_cases(tier) + trunc_cases(tier) + seq_cases(rng, tier) + text_invalid_cases(rng, tier) + malformed_cases(rng, tier)


def model_lines(c):
    fam, md = c.meta["fam"], c.meta["md"]
    if fam == "KS":
        return list(c.lines) + ["s_validdate %s %s" % (m, c.meta["date"]) for m in c.meta["seq"]]
    if fam in ("K", "X"):
        return [c.lines[0], "s_validdate %s %s" % (md, c.meta["date"])]
    if fam in ("T", "Z", "Y"):
        return [c.lines[0]]
    mq = []
    if len(c.lines) > 1:
        mq.append(c.lines[1])
    out = c.impl[0]
    if out.startswith("OK ") and c.meta["which"] == "tp":
        t = out.split()[1:]
        if len(t) == 15 and t[11] == "0":
            # a full point: hand it to the Spec validity predicate
            y, mo, d, doy, w, dow = t[:6]
            date = "C %s %s %s" % (y, mo, d) if mo != "-" else ("O %s %s" % (y, doy) if doy != "-" else "W %s %s %s" % (y, w, dow))
            tod = "S %s %s %s" % (t[6], t[7], t[8]) if t[8] != "-" else ("M %s %s" % (t[6], t[7]) if t[7] != "-" else "H %s" % t[6])
            if "-" not in (t[9], t[10]):
                mq.append("s_valid G %s %s %s %s" % (date, tod, t[9], t[10]))
    return mq


def judge(c):
    I, M, fam = c.impl, c.model, c.meta["fam"]
    res = []
    from props.c07 import close
    if fam == "KS":
        n = len(c.lines)
        for i, m in enumerate(c.meta["seq"]):
            if not close(I[i], M[i]) and M[i] != "UNMODELLED":
                res.append(("disagree", "%s (step %d of a mode sequence): implementation %r, model %r" % (c.lines[i], i, I[i], M[i])))
            accepted = not I[i].startswith("ERR")
            if I[i].startswith(("EXC", "HANG")):
                res.append(("violation", "%s -> %s" % (c.lines[i], I[i])))
            elif accepted != (M[n + i] == "1"):
                res.append(("violation", "%s in mode %s, after the modes %s in the same process, is %s but the calendar says it is %s" % (
                    c.meta["date"], m, ",".join(c.meta["seq"][:i]) or "-", "accepted" if accepted else "refused",
                    "valid" if M[n + i] == "1" else "impossible")))
        return res
    if fam in ("K", "X", "T", "Z", "Y"):
        if not close(I[0], M[0]) and M[0] != "UNMODELLED":
            res.append(("disagree", "%s: implementation %r, model %r" % (c.lines[0], I[0], M[0])))
        accepted = not I[0].startswith("ERR")
        if I[0].startswith(("EXC", "HANG")):
            res.append(("violation", "%s -> %s" % (c.lines[0], I[0])))
        if fam in ("K", "X"):
            want = M[1] == "1"
            if accepted != want:
                res.append(("violation", "%s (%s in mode %s) is %s but the calendar says it is %s" % (
                    c.meta.get("text", c.lines[0]), c.meta["date"], c.meta["md"], "accepted" if accepted else "refused", "valid" if want else "impossible")))
        elif fam == "T":
            h, mi, s = c.meta["tod"]
            want = (0 <= h <= 24) and (mi is None or 0 <= mi < 60) and (s is None or 0 <= s < 60) and \
                (h != 24 or ((mi or 0) == 0 and (s or 0) == 0))
            if accepted != want:
                res.append(("violation", "time of day %s is %s" % (c.meta["tod"], "accepted" if accepted else "refused")))
        elif fam == "Z":
            zh, zm = c.meta["zone"]
            h, m = zh or 0, zm or 0
            want = -99 <= h <= 99 and -59 <= m <= 59 and not (h > 0 and m < 0) and not (h < 0 and m > 0)
            if accepted != want:
                res.append(("violation", "zone %s is %s" % (c.meta["zone"], "accepted" if accepted else "refused")))
        elif fam == "Y":
            if accepted != c.meta["ok"]:
                res.append(("violation", "%r is %s" % (c.meta["text"], "accepted" if accepted else "refused")))
        return res
    # malformed stream
    out = I[0]
    k = 0
    if len(c.lines) > 1:
        if not close(I[1], M[0]) and M[0] != "UNMODELLED":
            res.append(("disagree", "%s: implementation %r, model %r" % (c.lines[1], I[1], M[0])))
        k = 1
    if out.startswith("EXC") or out == "HANG":
        res.append(("violation", "%s parser on %r: %s (must be a ValueError-derived error or a valid object)" % (c.meta["which"], c.meta["text"], out)))
    elif out.startswith("OK ") and len(M) > k:
        if M[k] != "1":
            res.append(("violation", "time point parser on %r returned an invalid point: %s" % (c.meta["text"], out)))
    return res


def nontrivial(c):
    return True
