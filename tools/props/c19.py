"""C19: the command line prints exactly what the library computes."""
from fractions import Fraction
from harness import Case
from props.common import MODES, rand_date, rand_zone, rand_year
from props.textcommon import DATE, TIME, ZONE, enc, dec, render_date, render_time, render_zone
from props.c09 import mutate

IMPL_MODULES = ("impl_text", "impl_cli")
RULE = ("argument vectors: a date-time in every complete/reduced notation (basic/extended, calendar/ordinal/week, with and without time and "
        "zone, expanded years) with 0-3 offsets of either sign (incl. the '-P...' spelling and month/year offsets); pairs of date-times "
        "with and without --as-total h/m/s; recurrences in the three notations with --max 0..12 and an optional print format; the four "
        "--calendar modes, --utc, ISODATETIMECALENDAR; the keyword ref with --ref / ISODATETIMEREF (option, variable, both); pairs with "
        "--offset1/--offset2; pairs with a duration --print-format; offsets in the date-time-like duration notation; malformed text in every positional slot. non-trivial = at least one offset, a "
        "pair, or a recurrence.")
EXPLANATION = ("the command-line model (Model/Cli.v: date_parse incl. the two ISO strptime formats, date_shift, date_diff, recurrence expansion) is compared with the real command line; oracle: main(argv) is run in-process with captured stdout/SystemExit and compared with the same computation through the "
               "library API (parse with dump_as_parsed, add the parsed offsets, dump in the same notation; first + printed d == second; "
               "total = seconds/unit; first N recurrence points one per line); malformed arguments must give a non-zero exit with a "
               "message, never a traceback")

OFFSETS = ["P1D", "-P1D", "PT1S", "-PT1S", "P1M", "-P1M", "P1Y", "PT36H", "P1W", "-P1W", "PT1M30S", "P1DT12H", "-PT0,5H", "+P2D", "P1Y1M1DT1H1M1S",
           # the date-time-like ("alternative") duration notation, which takes its sign only from the offset's own prefix
           "P0000-00-01T12:00:00", "-P0000-00-01T12:00:00", "-P00000001T12", "P0000-001T00", "-P0000-001T06:30", "+P0001-00-00T00",
           "-P0000-01-00", "P00010000T000000"]


def rand_text(rng, md, big=True):
    fk = rng.choice(["basic", "extended"])
    y = rng.choice([0, 1999, 2000, 2004, 2009, 9999, rng.randint(0, 9999)])
    from props.common import month_len, year_len
    dexpr = rng.choice([e for e in DATE[(fk, "complete")] + DATE[(fk, "reduced")] if "+X" not in e or rng.random() < 0.3])
    neg = False      # a leading '-' would be taken for an option by argparse (not modelled)
    if "+X" in dexpr and big and rng.random() < 0.5:
        y = rng.randint(10000, 999999)
    m = rng.randint(1, 12)
    dv = dict(year=y, neg=neg, month=m, dom=rng.randint(1, month_len(md, y, m)), doy=rng.randint(1, year_len(md, y)),
              week=rng.randint(1, 51), dow=rng.randint(1, 7))
    t = render_date(dexpr, dv, 2)
    if dexpr in DATE[(fk, "complete")] and rng.random() < 0.8:
        texpr = rng.choice([e for e in TIME[(fk, "complete")] + TIME[(fk, "reduced")] if big or not ("ii" in e or "nn" in e)])
        t += "T" + render_time(texpr, dict(h=rng.randint(0, 23), m=rng.randint(0, 59), s=rng.randint(0, 59), dec=rng.choice(["5", "25", "75"])))
        if rng.random() < 0.7:
            z = rng.choice(ZONE[fk])
            zh = rng.choice([0, 1, -1, 5, -5, 12])
            t += render_zone(z, zh, (30 if zh >= 0 else -30) if "mm" in z else 0)
    return t


def generate(rng, tier):
    n = 6000 if tier == "quick" else 60000
    cases = []
    for i in range(n):
        md = MODES[i % 4] if i % 2 else "G"
        r = rng.random()
        if r < 0.4:
            text = rand_text(rng, md)
            offs = [rng.choice(OFFSETS) for _ in range(rng.choice([0, 1, 1, 2, 3]))]
            utc = int(rng.random() < 0.3)
            if rng.random() < 0.12:
                # --utc with a zoned argument whose conversion crosses midnight next to a month end, then month/year
                # offsets: the conversion must happen before the shift (the clamped day depends on the date shifted)
                y = rng.choice([2019, 2020, 2021, 2024, 2100])
                mo, d = rng.choice([(1, 31), (2, 28), (2, 29), (3, 1), (3, 31), (4, 30), (5, 1), (12, 31), (1, 1), (8, 31), (10, 31)])
                if md == "360":
                    d = min(d, 30)
                if (mo, d) == (2, 29) and md in ("365",) or (mo, d) == (2, 29) and md == "G" and y in (2019, 2021, 2100):
                    d = 28
                text = "%04d-%02d-%02dT%02d:00%s" % (y, mo, d, rng.choice([22, 23, 0, 1]), rng.choice(["-02:00", "+02:00", "-05:30", "+05:30", "+13:00", "-11:00"]))
                offs = [rng.choice(["P1M", "-P1M", "P1Y", "-P1Y", "P1M1D", "P13M", "-P11M"]) for _ in range(rng.choice([1, 1, 2]))]
                utc = 1
            line = "cli_shift %s %d %s %d %s" % (md, utc, enc(text), len(offs), " ".join(enc(o) for o in offs))
            cases.append(Case([line.strip()], ["shift", "mode:" + md, "offsets:%d" % len(offs), "utc:%d" % utc], fam="S", text=text))
        elif r < 0.6:
            # adding back a difference of millions of days walks the calendar day by day: keep pairs within 0000-9999;
            # fractional hour/minute forms are the float regime (known finding F3): == is not exact there
            t1, t2 = rand_text(rng, md, big=False), rand_text(rng, md, big=False)
            unit = rng.choice([None, None, "h", "M", "s", "H"])
            cases.append(Case(["cli_diff %s %s %s%s" % (md, enc(t1), enc(t2), " " + unit if unit else "")],
                              ["diff", "mode:" + md, "total:%s" % unit], fam="D"))
        elif r < 0.8:
            start = "2000-01-%02dT%02dZ" % (rng.randint(1, 28), rng.randint(0, 23))
            rec = rng.choice(["R%d/%s/%s" % (rng.randint(1, 15), start, rng.choice(["P1D", "PT6H", "P1M", "P1W", "P1Y"])),
                              "R/%s/%s" % (start, rng.choice(["P1D", "P1M"])), "R/%s/%s" % (rng.choice(["P1D", "PT1H"]), start),
                              "R3/%s/2000-02-%02dT00Z" % (start, rng.randint(1, 28))])
            mx = rng.choice([0, 1, 2, 5, 10, 12])
            fmt = rng.choice([None, None, "%Y%m%dT%H%M%z", "%Y-%m-%d %H", "%Y-%j"])   # the recurrence path formats with strftime only
            cases.append(Case(["cli_rec %s %d %s%s" % (md, mx, enc(rec), " " + enc(fmt) if fmt else "")],
                              ["recurrence", "mode:" + md, "max:%d" % mx], fam="R"))
        elif r < 0.86:
            # --ref / ISODATETIMEREF and the keyword "ref"; pairs with --offset1/--offset2; pairs with a duration print format
            k = rng.choice(["ref", "ref", "off12", "off12", "dfmt", "pfmt", "pfmt", "pfmt", "alias", "alias", "now", "now", "total", "stdin"])
            if k == "ref":
                T, T2 = rand_text(rng, "G", big=False), rand_text(rng, "G", big=False)
                off = rng.choice(OFFSETS)
                which = rng.choice(["opt", "env", "both"])
                env = ["ISODATETIMEREF=" + (T if which == "env" else T2)] if which in ("env", "both") else []
                opt = ["--ref=" + T] if which in ("opt", "both") else []
                lines = ["cli " + " ".join(enc(e) for e in env) + " -- " + " ".join(enc(a) for a in opt + ["ref", "--offset=" + off]),
                         "cli -- " + " ".join(enc(a) for a in [T, "--offset=" + off])]
                cases.append(Case(lines, ["ref", "which:" + which], fam="Q", what="ref"))
            elif k == "off12":
                t1, t2 = rand_text(rng, md, big=False), rand_text(rng, md, big=False)
                o1, o2 = rng.choice(OFFSETS), rng.choice(OFFSETS)
                cases.append(Case(["cli_diff_off %s %s %s %s %s" % (md, enc(t1), enc(t2), enc(o1), enc(o2))],
                                  ["diff-offsets", "mode:" + md], fam="O"))
            elif k == "alias":
                # the documented short / alternative option spellings, intermixed with the positional arguments, select
                # what the long spellings select
                t1, t2 = rand_text(rng, md, big=False), rand_text(rng, md, big=False)
                o1, o2 = rng.choice(OFFSETS), rng.choice(OFFSETS)
                o1b = rng.choice(OFFSETS)
                fmt = rng.choice(["CCYY-MM-DDThh:mm:ssZ", "%Y/%m/%d %H:%M", "CCYYDDDThhmmZ"])
                shape = rng.choice(["s", "s", "12", "f", "u", "R"])
                cal = "--calendar=" + {"G": "gregorian", "360": "360day", "365": "365day", "366": "366day"}[md]
                if shape == "s":
                    sp = rng.choice(["-s", "-1", "--offset", "--offset1"])
                    a = [cal, sp, o1, t1, rng.choice(["-s", "-1", "--offset"]), o1b]
                    b = [cal, t1, "--offset1=" + o1, "--offset1=" + o1b]
                elif shape == "12":
                    a = [cal, "-2", o2, t1, "-1", o1, t2]
                    b = [cal, t1, t2, "--offset1=" + o1, "--offset2=" + o2]
                elif shape == "f":
                    sp = rng.choice(["-f", "--format"])
                    a = [cal, sp, fmt, t1, "-s", o1]
                    b = [cal, t1, "--offset1=" + o1, "--print-format=" + fmt]
                elif shape == "u":
                    a = [cal, t1, "-u", "-1", o1]
                    b = [cal, "--utc", t1, "--offset1=" + o1]
                else:
                    a = [cal, "-R", t1, "ref", "-s", o1]
                    b = [cal, "--ref=" + t1, "ref", "--offset1=" + o1]
                lines = ["cli -- " + " ".join(enc(x) for x in a), "cli -- " + " ".join(enc(x) for x in b)]
                cases.append(Case(lines, ["option-spelling", "shape:" + shape, "mode:" + md], fam="A"))
            elif k == "now":
                n = rng.choice([0, 1, 86399, 951782400, 1582934399, 1709164800, rng.randint(0, 2 * 10**9)])
                tz = rng.choice([0, 0, -3600, 3600, -19800, 20700, -45900, 43200, -50400, 12600])
                offs = [rng.choice(OFFSETS) for _ in range(rng.choice([0, 0, 1, 2]))]
                utc = int(rng.random() < 0.4)
                cases.append(Case(["cli_now %s %d %d %d %s %d %s" % (md, utc, n, tz, rng.choice(["now", "none"]), len(offs),
                                                                     " ".join(enc(o) for o in offs))],
                                  ["now", "mode:" + md, "utc:%d" % utc, "local-utc:%d" % (tz == 0)], fam="P"))
            elif k == "total":
                d = rng.choice(["PT1H", "PT90M", "P1D", "P1DT1H30M", "PT0,5H", "PT1.5S", "P1W", "PT36H", "-PT30M", "P2DT12H",
                                "PT%dS" % rng.randint(0, 10**6), "PT%dM%dS" % (rng.randint(0, 999), rng.randint(0, 59)),
                                "P1Y", "P1M", "P1Y2M3DT4H"])
                cases.append(Case(["cli_total %s %s" % (rng.choice("HMShms"), enc(d))], ["as-total-single"], fam="T"))
            elif k == "stdin":
                t1, t2 = rand_text(rng, md, big=False), rand_text(rng, md, big=False)
                items = rng.choice([[t1], [t1, t2], ["R3/" + t1 + "/P1D"]])
                opts = ["--calendar=" + {"G": "gregorian", "360": "360day", "365": "365day", "366": "366day"}[md]]
                if len(items) == 1 and not items[0].startswith("R"):
                    opts += ["--offset=" + rng.choice(OFFSETS)]
                cases.append(Case(["cli_stdin %d %s %s" % (len(items), " ".join(enc(x) for x in items), " ".join(enc(x) for x in opts))],
                                  ["stdin", "items:%d" % len(items)], fam="I"))
            elif k == "pfmt":
                # --parse-format (strptime notation), with and without --utc: the zone read by %z must be honoured and
                # converted, and the result is printed in the same notation
                y, mo, d = rng.choice([1999, 2000, 2020, 2024]), rng.randint(1, 12), rng.randint(1, 28)
                hh, mm, ss = rng.randint(0, 23), rng.randint(0, 59), rng.randint(0, 59)
                zs, zh, zm = rng.choice("+-"), rng.randint(0, 12), rng.choice([0, 0, 30, 45])
                fmt, text = rng.choice([
                    ("%Y%m%dT%H%M%z", "%04d%02d%02dT%02d%02d%s%02d%02d" % (y, mo, d, hh, mm, zs, zh, zm)),
                    ("%Y-%m-%dT%H:%M:%S%z", "%04d-%02d-%02dT%02d:%02d:%02d%s%02d%02d" % (y, mo, d, hh, mm, ss, zs, zh, zm)),
                    ("%d/%m/%Y %H:%M", "%02d/%02d/%04d %02d:%02d" % (d, mo, y, hh, mm)),
                    ("%Y%m%d%H", "%04d%02d%02d%02d" % (y, mo, d, hh)),
                    ("%FT%X%z", "%04d-%02d-%02dT%02d:%02d:%02d%s%02d%02d" % (y, mo, d, hh, mm, ss, zs, zh, zm)),
                    ("%s", str(rng.randint(0, 2 * 10**9)))])
                offs = [rng.choice(OFFSETS) for _ in range(rng.choice([0, 1, 1, 2]))]
                utc = int(rng.random() < 0.6)
                cases.append(Case(["cli_pf %s %d %s %s %d %s" % (md, utc, enc(fmt), enc(text), len(offs), " ".join(enc(o) for o in offs))],
                                  ["parse-format", "mode:" + md, "utc:%d" % utc], fam="P"))
            else:
                t1, t2 = rand_text(rng, md, big=False), rand_text(rng, md, big=False)
                cases.append(Case(["cli_diff_fmt %s %s %s" % (md, enc(t1), enc(t2))], ["diff-format", "mode:" + md], fam="F"))
        elif r < 0.91:
            # --calendar against ISODATETIMECALENDAR: the option wins; alone, each selects what it says
            flag = {"G": "gregorian", "360": "360day", "365": "365day", "366": "366day"}
            m_env, m_opt = rng.choice(MODES), rng.choice(MODES)
            y = rng.choice([2000, 2001, 2004, 2100])
            text = rng.choice(["%04d-02-28T00Z" % y, "%04d0228T12Z" % y, "%04d-12-30T00Z" % y, "%04d-059T00Z" % y])
            off = rng.choice(["P1D", "P2D", "P3D", "P1M", "-P60D", "P367D"])
            which = rng.choice(["both", "env", "opt"])
            env = ["ISODATETIMECALENDAR=" + flag[m_env]] if which in ("both", "env") else []
            opt = ["--calendar=" + flag[m_opt]] if which in ("both", "opt") else []
            eff = m_opt if which in ("both", "opt") else m_env
            lines = ["cli " + " ".join(enc(e) for e in env) + " -- " + " ".join(enc(a) for a in opt + [text, "--offset=" + off]),
                     "cli_shift %s 0 %s 1 %s" % (eff, enc(text), enc(off))]
            cases.append(Case(lines, ["calendar-select", "which:" + which, "env:" + m_env, "opt:" + m_opt], fam="E", eff=eff, which=which))
        else:
            good = rand_text(rng, md)
            if rng.random() < 0.4:
                # shapes on which the parsers raise a *plain* ValueError (tuple unpacking, float()), not their own error class
                bad = rng.choice(["2020T00T00", "20200101T00+01+02", "2020-01-01T00:00+01:00+02", "PT1.2.3S", "PT1,2,3H", "P1YT1.2M",
                                  "/2020T00T00/P1D", "3/2020/PT1.2.3S", "/PT1.2.3S/2020", "2020-01-01TT00", "T00T", "2020T0+0+0"])
            else:
                bad = mutate(rng, rng.choice([good, "P1D", "R3/2000-01-01T00Z/P1D"]))
            slot = rng.choice(["item", "second", "offset", "rec"])
            argv = {"item": [bad], "second": [good, bad], "offset": [good, "--offset=" + bad], "rec": ["R" + bad]}[slot]
            cases.append(Case(["cli -- " + " ".join(enc(a) for a in argv)], ["malformed", "slot:" + slot], fam="M", argv=argv))
    return cases


def model_lines(c):
    fam = c.meta["fam"]
    t = c.lines[0].split()
    if fam == "E":
        return []
    if fam == "S":
        return [c.lines[0]]
    if fam == "D":
        return [" ".join(t[:4])]            # the model prints the duration text; --as-total is judged on the implementation
    if fam == "R" and len(t) == 4:
        return [c.lines[0]]
    return []


def corr(c):
    """model vs implementation on the command line's own output"""
    if not c.model or c.meta["fam"] in ("E", "Q", "O", "F", "P", "A", "I", "T"):
        return []
    m = c.model[0]
    cli = c.impl[0].split(" ; ", 1)[0].strip()
    if m == "UNMODELLED":
        return []
    fam = c.meta["fam"]
    if fam == "D" and len(c.lines[0].split()) == 5:
        return []                             # with --as-total the printed text is a number
    if m == "EXIT":
        ok = cli.startswith("EXIT")
    else:
        ok = cli == m
    return [] if ok else [("disagree", "%s: command line %r, model %r" % (c.lines[0], cli, m))]


def judge(c):
    out = c.impl[0]
    fam = c.meta["fam"]
    res = corr(c)
    if out.startswith(("EXC", "HANG")) or " ; " not in out and fam not in ("M", "E", "Q", "A"):
        return res + [("violation", "%s -> %s (a traceback or hang would reach the user)" % (c.lines[0], out))]
    if fam == "Q":
        if out != c.impl[1]:
            res.append(("violation", "%s prints %s but %s prints %s (--ref / ISODATETIMEREF must select the reference the keyword ref stands for; the option wins)" % (
                c.lines[0], out, c.lines[1], c.impl[1])))
        return res
    if fam == "A":
        if out != c.impl[1]:
            res.append(("violation", "%s prints %s but %s prints %s (the short and alternative option spellings must select what the long ones select)" % (
                c.lines[0], out, c.lines[1], c.impl[1])))
        return res
    if fam == "T":
        cli, verdict = [x.strip() for x in out.split(" ; ", 1)]
        if verdict.startswith("NUMBAD") or (verdict.startswith("LIBERR") and not cli.startswith("EXIT")):
            res.append(("violation", "%s: prints %s; %s (--as-total of a duration is its length in that unit)" % (c.lines[0], cli, verdict)))
        return res
    if fam == "I":
        a, b = [x.strip() for x in out.split(" ; ", 1)]
        if a != b or a.startswith("EXC"):
            res.append(("violation", "%s: read from standard input the command prints %s, given as arguments %s" % (c.lines[0], a, b)))
        return res
    if fam == "O":
        cli, verdict = [x.strip() for x in out.split(" ; ", 1)]
        if verdict.startswith("NOTADDS") or (verdict.startswith("LIBERR") and not cli.startswith("EXIT")) or \
                (verdict == "NA" and not cli.startswith("EXIT")):
            res.append(("violation", "%s: prints %s; %s (first shifted by --offset1, plus the printed duration, must be second shifted by --offset2)" % (
                c.lines[0], cli, verdict)))
        return res
    if fam == "F":
        cli, verdict = [x.strip() for x in out.split(" ; ", 1)]
        if verdict.startswith(("FMTBAD", "DIFFERENT")):
            res.append(("violation", "%s: prints %s; %s" % (c.lines[0], cli, verdict)))
        return res
    if fam == "E":
        want = c.impl[1].split(" ; ", 1)[0].strip()
        if out != want:
            res.append(("violation", "%s prints %s; with calendar %s selected (%s) the command line prints %s" % (
                c.lines[0], out, c.meta["eff"], c.meta["which"], want)))
        return res
    if fam == "M":
        if out.startswith("EXC") or out == "HANG" or out in ("EXITCODE 2 %00", "EXITCODE 1 %00") or out.startswith("EXITCODE 0"):
            res.append(("violation", "%s -> %s: a malformed argument must give a message and a non-zero exit, not a traceback" % (c.lines[0], out)))
        return res
    back = None
    if fam == "S" and out.count(" ; ") == 2:
        out, back = out.rsplit(" ; ", 1)
    cli, lib = [x.strip() for x in out.split(" ; ", 1)]
    if back and back.startswith("YEARBAD"):
        res.append(("violation", "%s: prints %s, whose year is not the year %s of the shifted date-time" % (
            c.lines[0], dec(cli[4:]).strip() if cli.startswith("OUT ") else cli, back.split()[1])))
    if cli.startswith("EXC"):
        return res + [("violation", "%s -> %s" % (c.lines[0], cli))]
    if fam in ("S", "R", "P"):
        if lib.startswith("ERR"):
            if not cli.startswith("EXIT"):
                res.append(("violation", "%s: the library refuses the input (%s) but the command line prints %s" % (c.lines[0], lib, cli)))
        elif cli != lib:
            res.append(("violation", "%s: command line prints %s, the library computes %s" % (c.lines[0], dec(cli[4:]) if cli.startswith("OUT ") else cli, dec(lib[4:]))))
        return res
    # diff
    if lib.startswith("LIBERR"):
        if not cli.startswith("EXIT"):
            res.append(("violation", "%s: unparsable input but the command line prints %s" % (c.lines[0], cli)))
    elif cli.startswith("OUT"):
        if not lib.startswith("ADDS") or "TOTALBAD" in lib:
            res.append(("violation", "%s: printed %s; %s" % (c.lines[0], dec(cli[4:]).strip(), lib)))
    elif not cli.startswith("EXIT"):
        res.append(("violation", "%s -> %s" % (c.lines[0], cli)))
    return res


def nontrivial(c):
    return c.meta["fam"] != "M"
