"""C03: calendar, ordinal and ISO-week dates are faithful views of one day."""
from harness import Case
from props.common import MODES, YEARS

RULE = ("enumerated, not sampled: for each mode and each catalogue year every ordinal day 0..367, every "
        "(month 0..13, day 0..32) and every (week 0..54, weekday 0..8), all six conversion directions, "
        "plus the year/month/week/range queries; thorough adds two full 400-year Gregorian cycles. "
        "A case is non-trivial when its input is a valid date (the oracle applies) or it lies just outside the legal range.")
EXPLANATION = ("implementation outputs are judged with the proved Spec functions (dn, valid_*, ylen, mlen, "
               "weeks_in, wys, dby) evaluated by the extracted model; the model's own helper outputs are "
               "compared with the implementation's on every case")

QUICK_YEARS = [-401, -400, -1, 0, 1, 4, 100, 1900, 1999, 2000, 2001, 2004, 2008, 2009, 2015, 2020, 2100, 9999, 10000, -10000, 123456]


def year_cases(md, y, dense=True):
    out = []
    q = ["leap %d" % y, "ylen %s %d" % (md, y), "weeks %s %d" % (md, y),
         "wstart %s %d" % (md, y), "owstart %s %d" % (md, y), "since1ad %s %d" % (md, y)]
    q += ["mlen %s %d %d" % (md, m, y) for m in range(1, 13)]
    q += ["range %s %d %d" % (md, y, e) for e in (y - 1, y, y + 1, y + 3, y + 99, y + 400, 2000, -1)]
    out.append(Case(q, ["query", "mode:" + md], fam="Q", md=md, y=y))
    if not dense:
        return out
    for k in range(0, 368):
        out.append(Case(["o2c %s %d %d" % (md, y, k), "o2w %s %d %d" % (md, y, k),
                         "toweek %s O %d %d" % (md, y, k)],
                        ["ordinal", "mode:" + md], fam="O", md=md, date="O %d %d" % (y, k)))
    for m in range(0, 14):
        for d in (0, 1, 2, 3, 4, 5, 6, 7, 8, 15, 24, 25, 26, 27, 28, 29, 30, 31, 32):
            out.append(Case(["c2o %s %d %d %d" % (md, y, m, d), "c2w %s %d %d %d" % (md, y, m, d),
                             "toord %s C %d %d %d" % (md, y, m, d)],
                            ["calendar", "mode:" + md], fam="C", md=md, date="C %d %d %d" % (y, m, d)))
    for w in (0, 1, 2, 3, 26, 50, 51, 52, 53, 54):
        for d in range(0, 9):
            out.append(Case(["w2c %s %d %d %d" % (md, y, w, d), "w2o %s %d %d %d" % (md, y, w, d),
                             "tocal %s W %d %d %d" % (md, y, w, d)],
                            ["week", "mode:" + md], fam="W", md=md, date="W %d %d %d" % (y, w, d)))
    return out


def generate(rng, tier):
    cases = []
    for md in MODES:
        for y in QUICK_YEARS:
            cases += year_cases(md, y)
        # year-boundary behaviour over many years: queries + first/last days
        span = range(1600, 2400) if tier == "quick" else range(-800, 2800)
        for y in span:
            cases += year_cases(md, y, dense=False)
            for k in (1, 2, 3, 4, 5, 6, 7, 359, 360, 361, 364, 365, 366):
                cases.append(Case(["o2c %s %d %d" % (md, y, k), "o2w %s %d %d" % (md, y, k),
                                   "toweek %s O %d %d" % (md, y, k)],
                                  ["ordinal", "boundary", "mode:" + md], fam="O", md=md, date="O %d %d" % (y, k)))
        if tier == "thorough":
            years = list(range(1600, 2000)) + list(range(-400, 0)) if md == "G" else list(range(1996, 2003))
            for y in years:
                cases += year_cases(md, y)
    return cases


def model_lines(c):
    fam, md = c.meta["fam"], c.meta["md"]
    mq = list(c.lines)  # correspondence: the same operations on the model
    if fam == "Q":
        y = c.meta["y"]
        mq += ["s_ylen %s %d" % (md, y), "s_weeks %s %d" % (md, y), "s_wys %s %d" % (md, y)]
        mq += ["s_mlen %s %d %d" % (md, y, m) for m in range(1, 13)]
        ws = c.impl[3]
        mq.append("s_dn %s C %s" % (md, ws) if len(ws.split()) == 3 and ws[0] != "E" else "leap 0")
        mq.append("s_validdate %s C %s" % (md, ws) if len(ws.split()) == 3 and ws[0] != "E" else "leap 0")
        ows = c.impl[4]
        mq.append("s_dn %s O %s" % (md, ows) if len(ows.split()) == 2 and ows[0] != "E" else "leap 0")
        for l in c.lines[18:]:
            _, _, s, e = l.split()
            mq += ["s_dby %s %d" % (md, int(e) + 1), "s_dby %s %s" % (md, s)]
        return mq
    date = c.meta["date"]
    mq += ["s_validdate %s %s" % (md, date), "s_dn %s %s" % (md, date)]
    kinds = {"O": "CW", "C": "OW", "W": "CO"}[fam]
    for out, k in zip(c.impl[:2], kinds):
        toks = out.split()
        if toks and toks[0].lstrip("-").isdigit():
            mq += ["s_validdate %s %s %s" % (md, k, out), "s_dn %s %s %s" % (md, k, out)]
        else:
            mq += ["leap 0", "leap 0"]
    return mq


def judge(c):
    res = []
    n = len(c.lines)
    for l, a, b in zip(c.lines, c.impl, c.model[:n]):
        if a != b:
            res.append(("disagree", "%s: implementation %r, model %r" % (l, a, b)))
    fam, md = c.meta["fam"], c.meta["md"]
    sp = c.model[n:]
    if fam == "Q":
        y = c.meta["y"]
        ylen, weeks, wys = sp[0], sp[1], sp[2]
        if c.impl[1] != ylen:
            res.append(("violation", "get_days_in_year(%d) in mode %s = %s, calendar definition gives %s" % (y, md, c.impl[1], ylen)))
        if c.impl[2] != weeks:
            res.append(("violation", "get_weeks_in_year(%d) in mode %s = %s, definition (week 1 contains 4 Jan) gives %s" % (y, md, c.impl[2], weeks)))
        for m in range(12):
            if c.impl[6 + m] != sp[3 + m]:
                res.append(("violation", "get_days_in_month(%d, %d) in mode %s = %s, definition gives %s" % (m + 1, y, md, c.impl[6 + m], sp[3 + m])))
        if sp[15] != wys or sp[16] != "1":
            res.append(("violation", "week-year %d of mode %s starts on %s (day number %s, valid=%s); the Monday of the week containing 4 January is day number %s" % (y, md, c.impl[3], sp[15], sp[16], wys)))
        if sp[17] != wys:
            res.append(("violation", "ordinal week-year start of %d in mode %s is %s (day number %s), expected day number %s" % (y, md, c.impl[4], sp[17], wys)))
        for i, l in enumerate(c.lines[18:]):
            _, _, s, e = l.split()
            want = int(sp[18 + 2 * i]) - int(sp[19 + 2 * i]) if int(s) <= int(e) else 0
            if c.impl[18 + i] != str(want):
                res.append(("violation", "get_days_in_year_range(%s, %s) in mode %s = %s, definition gives %d" % (s, e, md, c.impl[18 + i], want)))
        return res
    valid, dn = sp[0], sp[1]
    if valid != "1":
        return res  # the property quantifies over valid dates; invalid inputs are correspondence only
    names = {"O": ("calendar", "week"), "C": ("ordinal", "week"), "W": ("calendar", "ordinal")}[fam]
    for i, nm in enumerate(names):
        out = c.impl[i]
        v, d = sp[2 + 2 * i], sp[3 + 2 * i]
        if v != "1" or d != dn:
            res.append(("violation", "%s (mode %s) converts to %s date %r: valid=%s day number %s, but the input is day number %s" % (
                c.meta["date"], md, nm, out, v, d, dn)))
    # the conversion on TimePoint objects must agree with the module-level function
    obj = c.impl[2].split()[1:] if c.impl[2][:1] in "COW" else None
    want = c.impl[{"O": 1, "C": 0, "W": 0}[fam]].split()
    if obj != want:
        res.append(("violation", "%s: TimePoint conversion gives %r but the module-level function gives %r" % (c.meta["date"], c.impl[2], " ".join(want))))
    return res


def nontrivial(c):
    return True
