"""Helpers shared by the time-point property modules."""
from fractions import Fraction

DAYS = [0, 1, -1, 27, 28, 29, 30, 31, 32, 59, 60, 61, 364, 365, 366, 367, 1461, 36524, 146097,
        -27, -28, -29, -30, -31, -59, -60, -61, -364, -365, -366, -367, -1461, -36524, -146097, 1000000, -1000000]
SECS = [0, 1, -1, 59, 60, -59, -60, 3599, 3600, -3599, -3600, 86399, 86400, 86401, -86399, -86400, -86401, 31536000]
WEEKS = [1, -1, 52, 53, -52, -53, 5218]
FRACS = [Fraction(1, 2), Fraction(1, 4), Fraction(3, 4), Fraction(-1, 2), Fraction(3, 2), Fraction(-5, 4)]


def q(x):
    f = Fraction(x)
    return str(f.numerator) if f.denominator == 1 else "%d/%d" % (f.numerator, f.denominator)


def rand_exact_dur(rng, decimals=True):
    """(token string, token string of the negation, is_decimal)"""
    r = rng.random()
    if r < 0.12:
        w = rng.choice(WEEKS + [rng.randint(-3000, 3000) or 1])
        return "DW %d" % w, "DW %d" % -w, False
    d = h = mi = s = Fraction(0)
    dec = False
    if r < 0.45:      # a single unit
        which = rng.choice("dhms")
        if which == "d":
            d = Fraction(rng.choice(DAYS))
        else:
            v = Fraction(rng.choice(SECS))
            if which == "h":
                h = Fraction(rng.choice([1, -1, 23, 24, 25, -23, -24, -25, 48, 8760, rng.randint(-100, 100)]))
            elif which == "m":
                mi = Fraction(rng.choice([1, -1, 59, 60, 61, -59, -60, 1439, 1440, 1441, -1440, rng.randint(-5000, 5000)]))
            else:
                s = v
    else:             # mixed, possibly mixed signs
        d = Fraction(rng.choice(DAYS + [rng.randint(-800, 800)]))
        h = Fraction(rng.choice([0, 0, 1, -1, 23, 24, -24, rng.randint(-50, 50)]))
        mi = Fraction(rng.choice([0, 0, 1, -1, 59, 60, -60, rng.randint(-200, 200)]))
        s = Fraction(rng.choice([0, 0] + SECS))
    if decimals and rng.random() < 0.15:
        fr = rng.choice(FRACS)
        which = rng.choice("hms")
        if which == "h":
            h += fr
        elif which == "m":
            mi += fr
        else:
            s += fr
        dec = True
    tok = "DU 0 0 %d %s %s %s" % (d, q(h), q(mi), q(s))
    neg = "DU 0 0 %d %s %s %s" % (-d, q(-h), q(-mi), q(-s))
    return tok, neg, dec


def tp_is_decimal(tp_tok):
    return "/" in tp_tok


def tp_form(tp_tok):
    """(rep letter, tod letter, zone string) of a time-point token string"""
    t = tp_tok.split()
    rep = t[0]
    i = {"C": 4, "O": 3, "W": 4}[rep]
    tod = t[i]
    n = {"S": 3, "M": 2, "H": 1}[tod]
    zone = " ".join(t[i + 1 + n:i + 3 + n])
    return rep, tod, zone


def is_tp(tok):
    return tok[:2] in ("C ", "O ", "W ")


def inexact_float_risk(p_tok, d_tok):
    """True when float arithmetic in the implementation may be inexact:
    fractional values, or seconds/minutes added to an hour- or minute-only form."""
    if "/" in p_tok or "/" in d_tok:
        return True
    _, tod, _ = tp_form(p_tok)
    d = d_tok.split()
    if d[0] == "DW":
        return False
    h, mi, s = d[4], d[5], d[6]
    if tod == "M" and s != "0":
        return True
    if tod == "H" and (s != "0" or mi != "0"):
        return True
    return False
