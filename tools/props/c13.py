"""C13: recurrence queries agree with iteration."""
from fractions import Fraction
from harness import Case
from props.common import MODES, rand_zone
from props.reccommon import rand_rec, rand_rec_fmt1, dur_is_nominal
from props.tpcommon import is_tp, q

RULE = ("recurrences as in C12; probes = anchor + j*interval + delta (j in -1..13, delta in {0, +-1 s, half an interval}), re-zoned "
        "and re-expressed by the implementation, so members appear in other offsets/representations and probes fall before, on, "
        "between, after and exactly on the last member; index i in 0..13. non-trivial = the probe is within the listed series.")
EXPLANATION = ("oracle from the iterated points (first 12, complete for n <= 12) and Spec instants: get_is_valid <=> some listed point has the "
               "probe's instant; r[i] = i-th point; get_next/get_prev of a member = adjacent member, none past the ends; get_first_after = "
               "earliest member strictly later / first member / none; all compared with the model")


def scale(d, j):
    t = d.split()
    if t[0] == "DW":
        return "DU 0 0 %d 0 0 0" % (7 * int(t[1]) * j)
    return "DU %d %d %d %s %s %s" % (int(t[1]) * j, int(t[2]) * j, int(t[3]) * j, q(Fraction(t[4]) * j), q(Fraction(t[5]) * j), q(Fraction(t[6]) * j))


def plus_secs(d, s):
    t = d.split()
    return " ".join(t[:6] + [q(Fraction(t[6]) + s)])


def generate(rng, tier):
    n = 8000 if tier == "quick" else 80000
    cases = []
    for i in range(n):
        md = MODES[i % 4]
        args, info = rand_rec_fmt1(rng, md) if rng.random() < 0.15 else rand_rec(rng, md, kind=rng.choice(["exact", "exact", "exact", "nominal", "zero"]))
        reverse = info["fmt"] == 4 and info["n"] is None
        j = rng.choice([-1, 0, 0, 1, 1, 2, 3, 4, 11, 12, 13] + ([info["n"] - 1, info["n"]] if info["n"] else []))
        if info["fmt"] == 4:
            j = -j if info["n"] is None else j - (info["n"] - 1)
        pd = scale(info["d"], j)
        delta = rng.choice([0, 0, 0, 1, -1, 1800])
        if delta:
            pd = plus_secs(pd, delta)
        z = rand_zone(rng) if rng.random() < 0.5 else tuple(int(x) for x in info["anchor"].split()[-2:])
        k = rng.choice("COW--")
        idx = rng.choice([0, 1, 2, 5, 11, 12, 13])
        lines = ["rmake %s %s" % (md, args), "rquery %s %s %s %s %d %d %s %d" % (md, args, info["anchor"], pd, z[0], z[1], k, idx)]
        cases.append(Case(lines, ["mode:" + md, "fmt:%d" % info["fmt"], "kind:" + info["kind"],
                                  "reps:" + ("inf" if info["n"] is None else "n"), "delta:%d" % delta, "j:%d" % max(-2, min(j, 14))],
                          md=md, idx=idx, reverse=reverse, delta=delta, **info))
    return cases


def model_lines(c):
    md = c.meta["md"]
    mq = list(c.lines)
    parts = [x.strip() for x in c.impl[0].split(";")]
    qp = [x.strip() for x in c.impl[1].split(";")]
    c.meta["parts"], c.meta["qp"] = parts, qp
    if len(parts) < 5 or len(qp) != 6:
        return mq
    pts = parts[5:]
    mq += ["s_instant %s %s" % (md, p) for p in pts]
    mq.append("s_instant %s %s" % (md, qp[0]))
    for x in (qp[2], qp[3], qp[4]):
        mq.append("s_instant %s %s" % (md, x) if is_tp(x) else "leap 0")
    return mq


def judge(c):
    I, M = c.impl, c.model
    res = []
    for l, a, b in zip(c.lines, I, M[:2]):
        if a != b:
            res.append(("disagree", "%s: implementation %r, model %r" % (l, a, b)))
    parts, qp = c.meta["parts"], c.meta["qp"]
    if len(parts) < 5:
        return res
    if len(qp) != 6:
        return res + [("violation", "%s -> %s" % (c.lines[1], I[1]))]
    pts = parts[5:]
    k = len(pts)
    inst = [Fraction(x) for x in M[2:2 + k]]
    probe = Fraction(M[2 + k])
    n, kind, fmt, reverse, idx = c.meta["n"], c.meta["kind"], c.meta["fmt"], c.meta["reverse"], c.meta["idx"]
    nominal_bounded = kind == "nominal" and n is not None and n >= 2
    tag = "nominal-bounded: " if nominal_bounded else ""
    complete = (n is not None and n <= 12) or kind == "zero" or n == 1 or k < 12
    lo, hi = (min(inst), max(inst)) if inst else (None, None)
    member = [i for i, x in enumerate(inst) if x == probe]
    within = inst and lo <= probe <= hi
    valid = qp[1]
    if complete or within:
        want = "1" if member else "0"
        if valid != want:
            res.append(("violation", tag + "%s: get_is_valid(%s) = %s but iteration %s a point at that instant" % (c.lines[0], qp[0], valid, "yields" if member else "does not yield")))
    # r[i]
    if idx < k:
        if qp[5] != pts[idx]:
            res.append(("violation", tag + "%s: r[%d] = %s but the %d-th iterated point is %s" % (c.lines[0], idx, qp[5], idx, pts[idx])))
    elif complete and qp[5] != "-":
        res.append(("violation", tag + "%s: r[%d] = %s but iteration yields only %d points" % (c.lines[0], idx, qp[5], k)))
    # neighbours of a member
    if member and kind != "zero" and n != 1:
        i = member[0]
        nxt_i, prv_i = (i - 1, i + 1) if reverse else (i + 1, i - 1)
        for name, val, sp, j in (("get_next", qp[3], M[4 + k], nxt_i), ("get_prev", qp[4], M[5 + k], prv_i)):
            if kind == "nominal" and ((name == "get_prev") != reverse):
                continue     # only in the direction of iteration for month/year intervals
            if kind == "nominal" and qp[0] != pts[i]:
                continue     # nominal steps depend on the spelling; members are compared as spelled
            if 0 <= j < k:
                if not is_tp(val) or Fraction(sp) != inst[j]:
                    res.append(("violation", tag + "%s: %s(%s) = %s, the adjacent member is %s" % (c.lines[0], name, qp[0], val, pts[j])))
            elif complete and val != "-":
                res.append(("violation", tag + "%s: %s(%s) = %s past the end of the series" % (c.lines[0], name, qp[0], val)))
    # get_first_after: recurrences with a start point, whole-second probes
    if qp[2] != "NOSTART" and probe.denominator == 1 and inst:
        later = [i for i, x in enumerate(inst) if x > probe]
        fa = qp[2]
        if later:
            j = min(later, key=lambda i: inst[i])
            if not is_tp(fa) or Fraction(M[3 + k]) != inst[j]:
                res.append(("violation", tag + "%s: get_first_after(%s) = %s, the earliest later member is %s" % (c.lines[0], qp[0], fa, pts[j])))
            elif probe < inst[0] and fa != pts[0]:
                res.append(("violation", tag + "%s: get_first_after(%s) = %s, expected the first member %s" % (c.lines[0], qp[0], fa, pts[0])))
        elif complete and fa != "None":
            res.append(("violation", tag + "%s: get_first_after(%s) = %s but no later member exists" % (c.lines[0], qp[0], fa)))
    return res


def nontrivial(c):
    return len(c.meta.get("qp", [])) == 6
