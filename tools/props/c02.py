"""C02: comparison and hashing of time points follow the timeline."""
from props.pairs import gen_pairs, pair_model_lines, pair_judge

RULE = ("seeded pairs: a base point (catalogue date x 3 representations x time form incl. 24:00 x offset, 4 modes); the "
        "partner is the same point (45%), the point +- a small exact step (35%: 1 s, 1 min, 1 h, 1 day, 24 h, 86399 s, "
        "1 week, 365/366 days) or an unrelated one (20%); each operand is then re-zoned to a random catalogue offset and "
        "re-expressed in a random representation by the implementation, so equal instants occur in many spellings. "
        "non-trivial = operands written differently (offset, representation or precision form differ).")
EXPLANATION = ("all six operators are evaluated and must be mutually coherent; the three-way outcome is compared with the order "
               "of the Spec instants of the two operands as the implementation printed them; == implies equal hashes; "
               "the model's tp_cmp / hash-key equality / tp_sub must agree with the implementation on every case")


def generate(rng, tier):
    return gen_pairs(rng, 5000 if tier == "quick" else 120000) + \
        gen_pairs(rng, 1000 if tier == "quick" else 20000, decimals=True)


model_lines = pair_model_lines


def judge(c):
    return pair_judge(c, want_sub=False) + [f for f in pair_judge(c, want_cmp=False, want_hash=False) if f[0] == "violation" and "instants say" in f[1]]


def nontrivial(c):
    p = [x.strip() for x in (c.impl[0] if c.impl else "").split(";")]
    return len(p) == 7 and p[0] != p[1]
