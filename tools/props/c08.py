"""C08: writing a time point out and reading it back is lossless."""
from fractions import Fraction
from harness import Case
from props.common import MODES, rand_date, rand_zone, rand_year
from props.textcommon import DATE, TIME, ZONE, enc, dec
from props.tpcommon import q, tp_form

IMPL_MODULES = ("impl_text",)
RULE = ("valid non-truncated points: 3 representations x precision forms (hh:mm:ss[,tt], hh:mm,nn, hh,ii, 24:00) with fractions d/10^k, "
        "k <= 6 (incl. 0.999999, 0.000001, 0.5) x every catalogue offset x expanded-digit settings 0/2/3 with years in range "
        "(0, 9999, +-999999, negative), 4 modes; custom formats: every complete date expression x a time expression down to seconds "
        "x every zone expression or a literal zone (Z, +-hh, +-hhmm, +-hh:mm) chosen so that the format is lossless after the "
        "conversion it implies. non-trivial = year outside 1000-9999, a fraction, 24:00 or a non-UTC offset.")
EXPLANATION = ("oracle: parse(str(p)) == p with the same representation, offset and field values, equal hash, str(parse(str(p))) == str(p); "
               "custom-format dump parses back to an equal instant; all compared with the model (dump over regenerated templates, "
               "then the model parser)")

FRACS = ["1/2", "1/4", "3/4", "1/8", "999999/1000000", "1/1000000", "1/10", "3/10", "123456/1000000", "1/1000"]


def rand_tod6(rng):
    form = rng.choice(["S", "S", "S", "M", "H"])
    if rng.random() < 0.07:
        return {"S": "S 24 0 0", "M": "M 24 0", "H": "H 24"}[form]
    h, m, s = rng.choice([0, 12, 23, rng.randint(0, 23)]), rng.choice([0, 59, rng.randint(0, 59)]), rng.choice([0, 59, rng.randint(0, 59)])
    fr = Fraction(rng.choice(FRACS)) if rng.random() < 0.5 else Fraction(0)
    if form == "S":
        return "S %d %d %s" % (h, m, q(s + fr))
    if form == "M":
        return "M %d %s" % (h, q(m + fr))
    return "H %s" % q(h + fr)


def generate(rng, tier):
    n = 12000 if tier == "quick" else 200000
    cases = []
    for i in range(n):
        md = MODES[i % 4]
        ned = rng.choice([0, 0, 2, 2, 3])
        if ned == 0:
            y = rng.choice([0, 1, 99, 100, 999, 1000, 1999, 2000, 2004, 9999, rng.randint(0, 9999)])
        else:
            lim = 10 ** (4 + ned) - 1
            y = rng.choice([0, -1, 9999, 10000, -10000, lim, -lim, 2000, -400, rng.randint(-lim, lim)])
        date = rand_date(rng, md, y)
        z = rand_zone(rng)
        p = "%s %s %d %d" % (date, rand_tod6(rng), z[0], z[1])
        if rng.random() < 0.6:
            cases.append(Case(["roundtrip %s %d %s" % (md, ned, p)],
                              ["str", "mode:" + md, "ned:%d" % ned, "rep:" + p[0], "tod:" + tp_form(p)[1],
                               "frac" if "/" in p else "int"], md=md, ned=ned, p=p, fam="R"))
        else:
            # custom format: complete date x time to the seconds (+fraction) x zone
            fk = rng.choice(["basic", "extended"])
            dexprs = [e for e in DATE[(fk, "complete")] if ("+X" in e) == (ned > 0)]
            dexpr = rng.choice(dexprs)
            s_tok = "S %d %d %s" % (rng.randint(0, 23), rng.randint(0, 59), q(rng.randint(0, 59) + (Fraction(rng.choice(FRACS)) if rng.random() < 0.4 else 0)))
            p = "%s %s %d %d" % (date, s_tok, z[0], z[1])
            frac = "/" in s_tok
            texpr = ("hhmmss" if fk == "basic" else "hh:mm:ss") + (rng.choice([",tt", ".tt"]) if frac else "")
            zk = rng.random()
            if zk < 0.4:
                zexpr = rng.choice([e for e in ZONE[fk] if e != "+hh" or z[1] == 0])
                if zexpr == "+hh" and z[1] != 0:
                    zexpr = "Z"
            else:
                lz = rand_zone(rng)
                sign = "-" if (lz[0] < 0 or lz[1] < 0) else "+"
                style = rng.choice(["hhmm", "hh:mm", "hh"]) if lz[1] == 0 else rng.choice(["hhmm", "hh:mm"])
                if fk == "basic" and style == "hh:mm":
                    style = "hhmm"
                if fk == "extended" and style == "hhmm":
                    style = "hh:mm"
                zexpr = sign + {"hhmm": "%02d%02d", "hh:mm": "%02d:%02d", "hh": "%02d"}[style] % ((abs(lz[0]), abs(lz[1])) if style != "hh" else (abs(lz[0]),))
                if lz == (0, 0):
                    zexpr = "Z"
            fmt = dexpr + "T" + texpr + zexpr
            cases.append(Case(["dumpparse %s %d %s %s" % (md, ned, p, enc(fmt))],
                              ["custom", "mode:" + md, "ned:%d" % ned, "date:" + dexpr, "zone:" + ("literal" if zk >= 0.4 else zexpr)],
                              md=md, ned=ned, p=p, fam="D", fmt=fmt))
    return cases


def model_lines(c):
    return list(c.lines)


def judge(c):
    I, M = c.impl[0], c.model[0]
    res = []
    from props.c07 import close
    if not close(I, M) and M != "UNMODELLED":
        res.append(("disagree", "%s: implementation %r, model %r" % (c.lines[0], I, M)))
    p = c.meta["p"]
    if c.meta["fam"] == "D":
        parts = [x.strip() for x in I.split(";")]
        if I == "ERR badinput" and M == "ERR badinput":
            c.meta["skipped"] = True   # the format spells a literal zone outside the zone bounds (+00:75): refusing is right
            return res
        if I == "ERR bounds":
            if M != "ERR bounds" and M != "UNMODELLED" and not M.startswith(("ERR", "EXC")):
                # the year of the converted point fits the agreed digits (the dump model, proved for these formats,
                # prints it): refusing it is a failure to dump a valid point
                res.append(("violation", "%s dumped with %r is refused (bounds) although its year fits: expected %s" % (
                    p, c.meta["fmt"], M.split(";")[0].strip())))
                return res
            c.meta["skipped"] = True   # the conversion carried the year outside the agreed digits: refusing is right
            return res
        if len(parts) != 2 or parts[1] != "EQ":
            res.append(("violation", "%s dumped with %r gives %s: does not parse back to an equal instant" % (p, c.meta["fmt"], I)))
        return res
    parts = [x.strip() for x in I.split(";")]
    if len(parts) < 2 or parts[1].startswith(("ERR", "EXC")):
        return res + [("violation", "str(%s) = %s does not parse back: %s" % (p, parts[0], I))]
    if len(parts) > 2:
        res.append(("violation", "parse(str(p)) differs from p=%s: %s" % (p, I)))
    # same representation, offset and field values
    t = parts[1].split()
    tp = p.split()
    i = {"C": 4, "O": 3, "W": 4}[tp[0]]
    want = {"C": [tp[1], tp[2], tp[3], "-", "-", "-"], "O": [tp[1], "-", "-", tp[2], "-", "-"], "W": [tp[1], "-", "-", "-", tp[2], tp[3]]}[tp[0]]
    tod = tp[i + 1:i + 1 + {"S": 3, "M": 2, "H": 1}[tp[i]]]
    want += tod + ["-"] * (3 - len(tod)) + tp[-2:]
    have = t[:11]
    for a, b in zip(want, have):
        if a != b:
            try:
                if abs(Fraction(a) - Fraction(b)) <= Fraction(1, 10**9):
                    continue
            except (ValueError, ZeroDivisionError):
                pass
            res.append(("violation", "parse(str(%s)) = %s: field values differ (%s vs %s)" % (p, parts[1], a, b)))
            break
    return res


def nontrivial(c):
    if c.meta.get("skipped"):
        return False
    p = c.meta["p"]
    y = int(p.split()[1])
    return not (1000 <= y <= 9999) or "/" in p or " 24 " in p or not p.endswith(" 0 0")
