"""C04: subtracting time points inverts addition."""
from fractions import Fraction
from harness import Case
from props.common import MODES, rand_tp
from props.pairs import gen_pairs, pair_model_lines, pair_judge
from props.tpcommon import rand_exact_dur, inexact_float_risk

RULE = ("pairs as for C02 (same / near / far, re-zoned and re-expressed), distances from 0 to +-1e6 days and across year 0; "
        "plus (p + d) - p == d for seeded exact d. non-trivial = distance not zero.")
EXPLANATION = ("a - b: only days/h/m/s, length = Spec instant difference, normalised with one sign; b + (a - b) compares equal to a "
               "and keeps b's representation and offset; (p + d) - p == d; compared with the model's tp_sub on every case")


def generate(rng, tier):
    n = 4000 if tier == "quick" else 100000
    cases = gen_pairs(rng, n, same_frac=0.15)
    for i in range(n // 2):
        md = MODES[i % 4]
        p = rand_tp(rng, md, decimals=False)
        d, _, _ = rand_exact_dur(rng, decimals=False)
        cases.append(Case(["addsub %s %s %s" % (md, p, d)], ["addsub", "mode:" + md], md=md, fam="AS",
                          fl=inexact_float_risk(p, d)))
    return cases


def model_lines(c):
    if c.meta.get("fam") == "AS":
        return list(c.lines)
    return pair_model_lines(c)


def judge(c):
    if c.meta.get("fam") == "AS":
        res = []
        if not c.impl[0].endswith("; 1") and not c.meta["fl"]:
            res.append(("violation", "%s: (p + d) - p = %s" % (c.lines[0], c.impl[0])))
        if c.impl[0] != c.model[0] and not c.meta["fl"]:
            res.append(("disagree", "%s: implementation %r, model %r" % (c.lines[0], c.impl[0], c.model[0])))
        return res
    return pair_judge(c, want_cmp=False, want_hash=False)


def nontrivial(c):
    return "DU 0 0 0 0 0 0 ;" not in (c.impl[0] if c.impl else "")
