"""C10: durations survive a round trip through text."""
import itertools
import re
from fractions import Fraction
from harness import Case

RULE = ("round-trip stream: every subset of {years, months, days, hours, minutes, seconds} x per-unit value catalogue "
        "(0, 1, 7, 24, 59, 60, 365, 86400, 1e6, 1e9, 15- and 41-digit years/months; for h/m/s also 1.5, 0.25, 0.001, 0.1, 12345.678, 0.0001, "
        "99999999999.9999) x sign (all components one sign), week forms (0, +-1, 52, 1000000), the empty duration in both forms; "
        "parse stream: well-formed designator strings built from digit strings (leading zeros, long runs), comma and point "
        "decimals, leading '-', bare 'P'/'PT'/trailing 'T', weeks, and the date-time-like spellings (calendar and ordinal, "
        "basic and extended) paired with their designator spelling; mutation stream: well-formed strings with 1-3 random "
        "edits, strings over the designator alphabet, greedy-backtracking shapes such as PT1H2H3M, newlines, exponent and "
        "underscore float spellings, non-ASCII digits; mixed-sign durations (model against implementation only). non-trivial = a non-empty duration / a string that parses.")
EXPLANATION = ("on the implementation: parse(str(d)) == d with its own ==, str(parse(str(d))) == str(d), every parsed component equals "
               "the component printed; each designator maps to its unit (years/months/days/weeks ints, M before T = months, after T "
               "= minutes), sign factor applied to every component, comma == point; the date-time-like spelling yields the same "
               "duration as its designator spelling. str/parse/round-trip outputs are compared with the extracted model wherever the "
               "model is defined (UNMODELLED outputs are excluded); the mutation stream only compares model and implementation.")
IMPL_MODULES = ("impl_durtext",)

SAFE = re.compile(r"[A-Za-z0-9\-.,:+_]")


def enc(text):
    out = []
    for byte in text.encode("utf-8", errors="surrogateescape"):
        ch = chr(byte)
        out.append(ch if byte < 128 and SAFE.match(ch) else "%%%02X" % byte)
    return "".join(out)


def q(x):
    f = Fraction(x)
    return str(f.numerator) if f.denominator == 1 else "%d/%d" % (f.numerator, f.denominator)


def du(y=0, mo=0, d=0, h=0, mi=0, s=0):
    return "DU %d %d %d %s %s %s" % (y, mo, d, q(h), q(mi), q(s))


INTS = [1, 7, 24, 59, 60, 365, 1000000, 123456789012345, 999999999999999]
DECS = [Fraction(3, 2), Fraction(1, 4), Fraction(1, 1000), Fraction(1, 10), Fraction(12345678, 1000),
        Fraction(1, 10000), Fraction(999999999999999, 10000), Fraction(5, 8), Fraction(314159, 100000),
        # below 1e-4 str(float) switches to exponent notation (PT5e-05S): outside the model's decimal
        # printer (explicit Unmodelled) but the round trip must still hold on the implementation
        Fraction(5, 100000), Fraction(1, 10 ** 7), Fraction(25, 10 ** 7), Fraction(99, 10 ** 6)]
UNITS = ["y", "mo", "d", "h", "mi", "s"]


# exact units stay below 2**53 seconds in total: beyond that the implementation's
# float arithmetic in == rounds (not modelled: ideal rationals); see notes/C10_REPORT.md
EXACT_INTS = [1, 7, 24, 59, 60, 365, 86400, 1000000, 1000000000]


def unit_value(rng, u, kind):
    if u in ("y", "mo"):
        return rng.choice(INTS[:6]) if rng.random() < 0.7 else rng.choice(INTS)
    if kind == "int" or u == "d":
        return rng.choice(EXACT_INTS[:6]) if rng.random() < 0.7 else rng.choice(EXACT_INTS)
    return rng.choice(DECS)


def round_cases(rng, tier):
    cases = []

    def add(tok, tags):
        cases.append(Case(["dround " + tok, "dstr " + tok], ["round"] + tags, kind="round", d=tok))

    reps = 12 if tier == "quick" else 100
    for k in range(0, 7):
        for sub in itertools.combinations(UNITS, k):
            for rep in range(reps if k else 1):
                for sign in (1, -1):
                    kind = "int" if rep % 2 == 0 else "dec"
                    vals = {u: sign * unit_value(rng, u, kind) for u in sub}
                    # every unit either absent (left out), zero or present
                    if sub and rep % 4 == 3:
                        vals[rng.choice(sub)] = 0
                    isdec = any(Fraction(v).denominator != 1 for v in vals.values())
                    add(du(**vals), ["units:%d" % k, "sign:%+d" % sign, "decimal" if isdec else "integer"])
    # every single unit with every catalogue value
    for u in UNITS:
        for v in (INTS if u in ("y", "mo") else EXACT_INTS) + (DECS if u in ("h", "mi", "s") else []):
            for sign in (1, -1):
                add(du(**{u: sign * v}), ["single-unit", "sign:%+d" % sign])
    for w in (0, 1, -1, 2, 52, -52, 53, 1000000, -1000000):
        add("DW %d" % w, ["weeks"])
    for big in (10 ** 40, -10 ** 40):
        add(du(y=big, mo=big, d=1 if big > 0 else -1), ["big-int"])
    return cases


def digits(rng, lead=True):
    r = rng.random()
    if r < 0.5:
        s = str(rng.choice([0, 1, 2, 7, 10, 59, 60, 99, 100, 365, 1000]))
    elif r < 0.9:
        s = str(rng.randint(0, 10 ** rng.randint(1, 12)))
    else:
        s = str(rng.randint(0, 10 ** 14))
    if lead and rng.random() < 0.25:
        s = "0" * rng.randint(1, 3) + s
    return s


def sig_digits(i, f):
    return len((i + f.rstrip("0")).lstrip("0"))


def parse_cases(rng, tier):
    cases = []
    n = 8000 if tier == "quick" else 60000
    for _ in range(n):
        neg = rng.random() < 0.3
        comp = {}
        text = "P"
        for u, c in (("y", "Y"), ("mo", "M"), ("d", "D")):
            if rng.random() < 0.45:
                ds = digits(rng)
                comp[u] = Fraction(int(ds))
                text += ds + c
        tparts = ""
        for u, c in (("h", "H"), ("mi", "M"), ("s", "S")):
            if rng.random() < 0.45:
                i = digits(rng)
                f = None
                if rng.random() < 0.45:
                    f = str(rng.randint(0, 10 ** rng.randint(1, 6))).zfill(rng.randint(1, 4))
                    if sig_digits(i, f) > 15:
                        f = "5" if sig_digits(i, "5") <= 15 else "0"
                    sep = rng.choice(",.")
                    tparts += i + sep + f + c
                    comp[u] = Fraction(int(i)) + Fraction(int(f), 10 ** len(f))
                else:
                    tparts += i + c
                    comp[u] = Fraction(int(i))
        if tparts or rng.random() < 0.15:
            text += "T" + tparts
        if neg:
            text = "-" + text
            comp = {k: -v for k, v in comp.items()}
        exp = "DU %s %s %s %s %s %s" % tuple(q(comp.get(u, 0)) for u in UNITS)
        cases.append(Case(["dparse " + enc(text)], ["parse", "designators", "neg" if neg else "pos",
                                                    "time" if "T" in text else "date-only"],
                          kind="parse", text=text, expect=exp))
    for w in [0, 1, 2, 7, 52, 53, 100, 1000000] + [rng.randint(0, 10 ** 9) for _ in range(40)]:
        for neg in (False, True):
            ds = ("00" if rng.random() < 0.2 else "") + str(w)
            text = ("-" if neg else "") + "P" + ds + "W"
            v = -w if neg else w
            exp = "DW %d" % v if v else du()
            cases.append(Case(["dparse " + enc(text)], ["parse", "weeks"], kind="parse", text=text, expect=exp))
    # the date-time-like spelling against its designator spelling
    m = 3000 if tier == "quick" else 30000
    for _ in range(m):
        pick = lambda hi: rng.choice([0, 1, hi, rng.randint(0, hi)])  # noqa: E731
        Y, M, D = pick(9999), pick(99), pick(99)
        DDD = pick(999)
        h, mi, s = pick(99), pick(99), pick(99)
        form = rng.choice(["cal-ext", "cal-basic", "ord-ext", "ord-basic"])
        if form == "cal-ext":
            alt = "P%04d-%02d-%02dT%02d:%02d:%02d" % (Y, M, D, h, mi, s)
        elif form == "cal-basic":
            alt = "P%04d%02d%02dT%02d%02d%02d" % (Y, M, D, h, mi, s)
        elif form == "ord-ext":
            alt = "P%04d-%03dT%02d:%02d:%02d" % (Y, DDD, h, mi, s)
        else:
            alt = "P%04d%03dT%02d%02d%02d" % (Y, DDD, h, mi, s)
        if form.startswith("cal"):
            des = "P%dY%dM%dDT%dH%dM%dS" % (Y, M, D, h, mi, s)
            exp = du(Y, M, D, h, mi, s)
        else:
            des = "P%dY%dDT%dH%dM%dS" % (Y, DDD, h, mi, s)
            exp = du(Y, 0, DDD, h, mi, s)
        cases.append(Case(["dparse " + enc(alt), "dparse " + enc(des)], ["parse", "alt", form],
                          kind="alt", text=alt, des=des, expect=exp))
    # reduced and decimal times in the date-time-like spelling (hh:mm, hh, hh:mm,n, hh,n, hh:mm:ss,n)
    for _ in range(m // 3):
        Y, M, D = rng.randint(0, 9999), rng.randint(0, 99), rng.randint(0, 99)
        h, mi, sec = rng.randint(0, 99), rng.randint(0, 99), rng.randint(0, 99)
        ext = rng.random() < 0.5
        frac = rng.choice(["5", "25", "75", "125", "51"])
        fq = Fraction("0." + frac)
        dpart = ("P%04d-%02d-%02d" if ext else "P%04d%02d%02d") % (Y, M, D)
        sep = rng.choice([",", "."])
        shape = rng.choice(["hm", "h", "hm,n", "h,n", "hms,n"])
        c = ":" if ext else ""
        if shape == "hm":
            tpart, comp = "%02d%s%02d" % (h, c, mi), (h, mi, 0)
        elif shape == "h":
            tpart, comp = "%02d" % h, (h, 0, 0)
        elif shape == "hm,n":
            tpart, comp = "%02d%s%02d%s%s" % (h, c, mi, sep, frac), (h, mi + fq, 0)
        elif shape == "h,n":
            tpart, comp = "%02d%s%s" % (h, sep, frac), (h + fq, 0, 0)
        else:
            tpart, comp = "%02d%s%02d%s%02d%s%s" % (h, c, mi, c, sec, sep, frac), (h, mi, sec + fq)
        alt = dpart + "T" + tpart

        def num(x):
            x = Fraction(x)
            return str(x.numerator) if x.denominator == 1 else ("%s" % float(x)).replace(".", ",")
        des = "P%dY%dM%dDT" % (Y, M, D) + "".join("%s%s" % (num(v), u) for v, u in zip(comp, "HMS") if v != 0)
        des = des.rstrip("T") if des.endswith("T") else des
        exp = du(Y, M, D, *comp)
        cases.append(Case(["dparse " + enc(alt), "dparse " + enc(des)], ["parse", "alt", "reduced:" + shape],
                          kind="alt", text=alt, des=des, expect=exp))
    return cases


ALPH = "0123456789" * 3 + "PPTTYMDHMSW" * 2 + ",.,." + "-+: _eE\n\t" + "xZ"
FIXED_MUT = [
    "PT1H2H3M", "PT1H2H3M4S", "PT1M2M", "PT1S2S", "PT1H2M3H", "PT1M2H", "PT1HH", "PT1HM", "PTH", "PT1H2", "PT1,5,5H",
    "", "-", "P", "PT", "-P", "-PT", "--P1Y", "P1YT", "P1DT", "P1Y\n", "PT1H\n", "PT1S\n\n", "PT1\nH", "PT1H\nS", "\nP1Y",
    "PT1 H", "PT1e5H", "PT1E+5H", "PT1e-5S", "PT1_0H", "PT1__0H", "PT1_H", "PT1.H", "PT1,H", "PT1._5H", "PT1.e5H",
    "PT1eH", "PT1e+H", "PT0x10H", "PT1\tH", "PT1\x0bH", "PT1\x1cH", "PT1infH", "PT1nanH", "P1,5Y", "P1.5Y", "P1.5W",
    "PT٣H", "P٣Y", "PT1 H", "P1W2D", "P1Y1W", "PW", "P-1Y", "P+1Y", "P1y", "p1Y", "P1Y ", " P1Y", "P 1Y",
    "P1M1Y", "P1D1M", "P1Y1Y", "PT1S1M", "PT1M1H", "P1H", "PT1Y", "PT1D", "P1S", "-P0001-02-03T04:05:06",
    "P0001-02-03T04:05:06", "P00010203T040506", "P0001-02-03T04:05:06Z", "P0001-02-03T04:05", "P0001-02-03",
    "P0001-02-03T04:05:06,5", "P00010203T04:05:06", "P0001-02-03T040506", "P2000-W01-1T00:00:00", "P2000W011T000000",
    "P2000-W01-1", "P0001-002T04:05:06", "P0001002T040506", "P0001-02-03T04:05:06\n", "P+0000001-02-03T04:05:06",
    "P0001-02-03T04:05:06+01", "P0001-02-03T04:05:06-01", "P00010203T", "P0001-02-03T", "P0001-02-03T04:05:06T",
    "P" + "9" * 4300 + "Y", "P" + "9" * 4301 + "Y", "P" + "0" * 4301 + "Y", "PT" + "9" * 4301 + "H",
    "PT123456789012345H", "PT1234567890123456H", "PT0,123456789012345S", "PT0,1234567890123456S",
    "PT100000000000000000000000H", "PT0," + "0" * 400 + "1S", "PT1,5" + "0" * 400 + "S",
]


def mutate(rng, s):
    for _ in range(rng.choice([1, 1, 2, 3])):
        i = rng.randrange(len(s) + 1)
        k = rng.random()
        if k < 0.4:
            s = s[:i] + rng.choice(ALPH) + s[i:]
        elif k < 0.7:
            s = s[:i] + s[i + 1:]
        else:
            s = s[:i] + rng.choice(ALPH) + s[i + 1:]
    return s


def mutation_cases(rng, tier, seeds):
    out = [Case(["dparse " + enc(s)], ["mutation", "fixed"], kind="mut", text=s) for s in FIXED_MUT]
    # week dates are rejected by the date-time-like fallback
    for _ in range(300 if tier == "quick" else 3000):
        Y, W, D = rng.randint(0, 9999), rng.randint(0, 99), rng.randint(0, 9)
        h, mi, s = rng.randint(0, 99), rng.randint(0, 99), rng.randint(0, 99)
        t = ("P%04d-W%02d-%dT%02d:%02d:%02d" if rng.random() < 0.5 else "P%04dW%02d%dT%02d%02d%02d") % (Y, W, D, h, mi, s)
        out.append(Case(["dparse " + enc(t)], ["mutation", "week-date"], kind="mut", text=t))
    n = 20000 if tier == "quick" else 200000
    for _ in range(n):
        r = rng.random()
        if r < 0.45:
            s = mutate(rng, rng.choice(seeds))
            tag = "edited"
        elif r < 0.75:
            s = rng.choice(["PT", "PT", "P1DT", "-PT", "P"]) + "".join(
                rng.choice("0123456789HHMMSS,.\n e_") for _ in range(rng.randint(0, 10)))
            tag = "backtracking"
        else:
            s = "".join(rng.choice(ALPH) for _ in range(rng.randint(0, 12)))
            tag = "random"
        out.append(Case(["dparse " + enc(s)], ["mutation", tag], kind="mut", text=s))
    return out


def mixed_cases(rng, tier):
    """Mixed-sign durations: outside the property, model against implementation only."""
    out = []
    for _ in range(400 if tier == "quick" else 5000):
        k = rng.randint(2, 6)
        sub = rng.sample(UNITS, k)
        vals = {u: rng.choice([1, -1]) * unit_value(rng, u, rng.choice(["int", "dec"])) for u in sub}
        tok = du(**vals)
        out.append(Case(["dstr " + tok, "dround " + tok], ["mixed-sign"], kind="mut", text=tok))
    return out


def fresh_cases(rng, tier, pc):
    """the date-time-like spelling is decoded by a time point parser that DurationParser builds itself: its answer must
    not depend on which other parsers the process built before (a parser restricted to basic notation, one that allows
    truncated forms, other expanded-year digits).  Each case runs in a new interpreter: first a time point parse under
    one of those configurations, then the duration text."""
    alts = [c for c in pc if c.meta.get("kind") == "alt"]
    pre = ["parse G 2 0 1 0 0 0 0 0 0 20000101T00Z", "parse G 2 1 0 - - 1 0 0 0 T06", "parse G 0 0 0 0 0 0 0 0 0 2000-01-01T00Z",
           "parse G 3 0 1 0 0 0 0 0 0 +000200001", "parse 360 2 0 1 0 0 0 0 0 0 20000230"]
    out = []
    for i in range(10 if tier == "quick" else 60):
        c = alts[rng.randrange(len(alts))]
        first = pre[i % len(pre)]
        inner = c.lines[0]
        out.append(Case(["newproc impl_text,impl_durtext %s %s" % (enc(first), enc(inner))], ["fresh-process", "after:" + first.split()[2:5][2]],
                        kind="fresh", text=c.meta["text"], inner=inner, expect=c.meta["expect"], first=first))
    return out


def generate(rng, tier):
    rc = round_cases(rng, tier) + mixed_cases(rng, tier)
    pc = parse_cases(rng, tier)
    seeds = [c.meta["text"] for c in pc]
    return rc + pc + fresh_cases(rng, tier, pc) + mutation_cases(rng, tier, seeds)


def model_lines(c):
    if c.meta.get("kind") == "fresh":
        return [c.meta["inner"]]
    return list(c.lines)


def parse_dur(tok):
    """(form, components as Fractions) of a sh_dur string, or None."""
    t = tok.split()
    try:
        if t[0] == "DW" and len(t) == 2:
            return ("W", [Fraction(int(t[1]))])
        if t[0] == "DU" and len(t) == 7:
            return ("U", [Fraction(x) for x in t[1:]])
    except (ValueError, ZeroDivisionError):
        pass
    return None


def is_zero(d):
    return all(x == 0 for x in d[1])


def same_dur(a, b):
    """Component-wise identity; the empty duration is one value in any form."""
    if a is None or b is None:
        return False
    if is_zero(a) and is_zero(b):
        return True
    return a == b


def compare(c, res):
    for l, x, y in zip(c.lines, c.impl, c.model):
        if "UNMODELLED" in y:
            continue
        if x != y:
            res.append(("disagree", "%s: implementation %r, model %r" % (l, x, y)))


def judge(c):
    res = []
    compare(c, res)
    kind = c.meta["kind"]
    I = c.impl
    if kind == "mut":
        for l, o in zip(c.lines, I):
            if o.startswith(("EXC", "HANG", "INCOHERENT", "BAD")):
                res.append(("violation", "%s -> %s" % (l, o)))
        return res
    if kind == "round":
        d = c.meta["d"]
        parts = [p.strip() for p in I[0].split(";")]
        if len(parts) != 4 or parts[2] != "eq 1" or parts[3] != "fix 1":
            res.append(("violation", "str/parse round trip of %s: %s (expected `text ; d ; eq 1 ; fix 1`)" % (d, I[0])))
            return res
        if parts[0] != I[1]:
            res.append(("violation", "str(%s) gave %r then %r" % (d, parts[0], I[1])))
        if not same_dur(parse_dur(parts[1]), parse_dur(d)):
            res.append(("violation", "parse(str(d)) = %s has other components than d = %s (text %s)" % (parts[1], d, parts[0])))
        return res
    if kind == "fresh":
        if not same_dur(parse_dur(I[0]), parse_dur(c.meta["expect"])):
            res.append(("violation", "in a new process, after `%s`: parse(%r) = %s, expected %s" % (
                c.meta["first"], c.meta["text"], I[0], c.meta["expect"])))
        return res
    if kind == "parse":
        if not same_dur(parse_dur(I[0]), parse_dur(c.meta["expect"])):
            res.append(("violation", "parse(%r) = %s, the designators say %s" % (c.meta["text"], I[0], c.meta["expect"])))
        return res
    if kind == "alt":
        exp = parse_dur(c.meta["expect"])
        if not same_dur(parse_dur(I[0]), exp):
            res.append(("violation", "parse(%r) = %s, expected %s" % (c.meta["text"], I[0], c.meta["expect"])))
        if not same_dur(parse_dur(I[1]), exp):
            res.append(("violation", "parse(%r) = %s, expected %s" % (c.meta["des"], I[1], c.meta["expect"])))
        if I[0] != I[1]:
            res.append(("violation", "%r and %r denote different durations: %s vs %s" % (c.meta["text"], c.meta["des"], I[0], I[1])))
        return res
    return res


def nontrivial(c):
    kind = c.meta["kind"]
    if kind == "round":
        d = parse_dur(c.meta["d"])
        return d is not None and not is_zero(d)
    if c.impl is None:
        return True
    return c.impl[0].startswith(("DU", "DW"))
