"""C17: strftime matches POSIX for the supported directives and strptime inverts it."""
from fractions import Fraction
from harness import Case
from props.common import MODES, rand_date, rand_zone
from props.textcommon import enc, dec
from props.tpcommon import q, is_tp

IMPL_MODULES = ("impl_text",)
RULE = ("points: years 0000-9999 (catalogue and random), 3 representations, any offset, hh:mm:ss incl. 24:00 and fractional seconds, 4 modes; "
        "formats: random sequences over the supported directives (%Y %m %d %j %H %M %S %F %X %z %s), literal text (incl. '-', ':', ' ', "
        "'T', letters, '%%'-free) and, in a separate stream, unsupported %-letters; full formats (date+time+zone) for the inverse, partial "
        "ones for the defaulting rule. non-trivial = at least three directives.")
EXPLANATION = ("oracle: a POSIX strftime written in the judge (zero-padded widths 4/2/2/3/2/2/2, %s = whole seconds from the epoch to the Spec "
               "instant) applied to the civil date-time obtained from the proved conversions; strptime(strftime(p)) == p for full formats; "
               "omitted parts default to the start of the period and the assumed zone; unsupported directives raise the library's "
               "ValueError-derived error; compared with the model over the regenerated directive table")

SUPPORTED = ["%Y", "%m", "%d", "%j", "%H", "%M", "%S", "%F", "%X", "%z", "%s"]
FULL = ["%Y-%m-%dT%H:%M:%S%z", "%F %X %z", "%Y%m%d%H%M%S%z", "%Y-%j %X%z", "%z %F %X", "%d/%m/%Y %H.%M.%S %z", "%Y %j %H %M %S %z"]
PARTIAL = ["%Y", "%Y-%m", "%F", "%Y-%j", "%F %H", "%F %H:%M", "%Y-%m-%d %X", "%Y%m%dT%H%M%S", "%H:%M %Y-%m-%d"]
UNSUPPORTED = ["%y", "%a", "%b", "%Z", "%p", "%c", "%x", "%U", "%e", "%G", "%V", "%u", "%f", "%I", "%D", "%h", "%n", "%1", "%_"]
LITS = ["-", ":", " ", "T", "/", ".", "at ", "day=", "", "", ""]


def generate(rng, tier):
    n = 10000 if tier == "quick" else 150000
    cases = []
    for i in range(n):
        md = MODES[i % 4]
        y = rng.choice([0, 1, 99, 100, 999, 1000, 1969, 1970, 1999, 2000, 2008, 2009, 9999, rng.randint(0, 9999)])
        date = rand_date(rng, md, y)
        z = rand_zone(rng)
        if rng.random() < 0.06:
            tod = "S 24 0 0"
        else:
            s = Fraction(rng.choice([0, 1, 59, rng.randint(0, 59)])) + (Fraction(1, 2) if rng.random() < 0.1 else 0)
            tod = "S %d %d %s" % (rng.choice([0, 12, 23, rng.randint(0, 23)]), rng.choice([0, 59, rng.randint(0, 59)]), q(s))
        p = "%s %s %d %d" % (date, tod, z[0], z[1])
        az = rng.choice([(0, 0), (5, 30), (-3, -30)])
        cfg = "2 0 0 %d %d 0 1 0" % az
        r = rng.random()
        if i % 25 == 7:
            # %s alone determines the instant: strptime must invert it, at the epoch itself (the text "0"), next to it,
            # before it (negative counts) and anywhere else
            which = i // 25 % 5
            if which < 3 and md == "G":
                pe = ["C 1970 1 1 S 0 0 0 0 0", "O 1970 1 S 5 30 0 5 30", "W 1970 1 3 S 19 0 0 -5 0", "C 1970 1 1 S 0 0 1 0 0",
                      "C 1969 12 31 S 23 59 59 0 0", "C 1970 1 1 S 0 0 10 0 0"][i // 125 % 6]
            else:
                pe = p if "/" not in p else "C 2000 1 1 S 0 0 0 0 0"
            cases.append(Case(["strfp %s %s %s %s" % (md, cfg, pe, enc("%s"))], ["inverse-unix", "mode:" + md, "rep:" + pe[0]],
                              md=md, p=pe, fmt="%s", fam="I", az=az))
            continue
        if r < 0.45:
            k = rng.randint(1, 6)
            fmt = "".join(rng.choice(LITS) + rng.choice(SUPPORTED) for _ in range(k)) + rng.choice(LITS)
            cases.append(Case(["strftime %s 2 %s %s" % (md, p, enc(fmt))], ["strftime", "mode:" + md, "rep:" + p[0], "n:%d" % k],
                              md=md, p=p, fmt=fmt, fam="F"))
        elif r < 0.7:
            fmt = rng.choice(FULL)
            cases.append(Case(["strfp %s %s %s %s" % (md, cfg, p, enc(fmt))], ["inverse-full", "mode:" + md, "rep:" + p[0]],
                              md=md, p=p, fmt=fmt, fam="I", az=az))
        elif r < 0.9:
            fmt = rng.choice(PARTIAL)
            cases.append(Case(["strfp %s %s %s %s" % (md, cfg, p, enc(fmt))], ["inverse-partial", "mode:" + md, "rep:" + p[0]],
                              md=md, p=p, fmt=fmt, fam="P", az=az))
        else:
            fmt = rng.choice(LITS) + rng.choice(SUPPORTED) + rng.choice(UNSUPPORTED) + rng.choice(LITS)
            cases.append(Case(["strftime %s 2 %s %s" % (md, p, enc(fmt)), "strptime %s %s %s %s" % (md, cfg, enc("2000"), enc(fmt))],
                              ["unsupported", "mode:" + md], md=md, p=p, fmt=fmt, fam="U"))
    return cases


def date_of(tp):
    t = tp.split()
    return " ".join(t[:{"C": 4, "O": 3, "W": 4}[t[0]]])


EPOCH = "C 1970 1 1 S 0 0 0 0 0"


def model_lines(c):
    md, p = c.meta["md"], c.meta["p"]
    mq = list(c.lines)
    if c.meta["fam"] in ("F", "I", "P"):
        mq.append("s_civil %s %s" % (md, p))
    return mq


def posix(fmt, civ, zone):
    y, m, d, doy, h, mi, s, unix = civ
    zh, zm = zone
    sign = "-" if (zh < 0 or zm < 0) else "+"
    rep = {"%Y": "%04d" % y, "%m": "%02d" % m, "%d": "%02d" % d, "%j": "%03d" % doy, "%H": "%02d" % h, "%M": "%02d" % mi,
           "%S": "%02d" % s, "%z": "%s%02d%02d" % (sign, abs(zh), abs(zm)), "%s": "%d" % unix}
    rep["%F"] = "%s-%s-%s" % (rep["%Y"], rep["%m"], rep["%d"])
    rep["%X"] = "%s:%s:%s" % (rep["%H"], rep["%M"], rep["%S"])
    out, i = "", 0
    while i < len(fmt):
        if fmt[i] == "%" and i + 1 < len(fmt) and fmt[i:i + 2] in rep:
            out += rep[fmt[i:i + 2]]
            i += 2
        else:
            out += fmt[i]
            i += 1
    return out


def judge(c):
    I, M, fam = c.impl, c.model, c.meta["fam"]
    res = []
    from props.c07 import close
    for l, a, b in zip(c.lines, I, M):
        if b.endswith("; UNMODELLED"):
            # strptime of %s is outside the model (float() of the group): only the printed text is compared
            a, b = a.split(" ; ")[0], b.split(" ; ")[0]
        if not close(a, b) and b != "UNMODELLED":
            res.append(("disagree", "%s: implementation %r, model %r" % (l, a, b)))
    p, fmt = c.meta["p"], c.meta["fmt"]
    if fam == "U":
        for l, a in zip(c.lines, I):
            if a != "ERR syntax":
                res.append(("violation", "%s: an unsupported directive must be refused with the library's error, got %s" % (l, a)))
        return res
    civ = [int(x) for x in M[len(c.lines)].split()]
    zone = tuple(int(x) for x in p.split()[-2:])
    if not 0 <= civ[0] <= 9999:
        c.meta["skipped"] = True      # the civil year is outside 0000-9999: outside the property
        return res

    want = posix(fmt, civ, zone)
    parts = [x.strip() for x in I[0].split(";")]
    got = dec(parts[0]) if not parts[0].startswith(("ERR", "EXC")) else parts[0]
    if got != want:
        res.append(("violation", "strftime(%s, %r) = %r, POSIX gives %r" % (p, fmt, got, want)))
        return res
    if fam == "F":
        return res
    if len(parts) != 3:
        return res + [("violation", "strptime(%r, %r) -> %s" % (got, fmt, I[0]))]
    t = parts[1].split()
    if fam == "I":
        if parts[2] != "EQ" and "/" not in p:
            res.append(("violation", "strptime(strftime(p)) with the full format %r compares %s with p=%s" % (fmt, parts[2], p)))
        return res
    # defaulting rule for partial formats: start of the period, assumed zone
    y, m, d, doy, h, mi, s, _ = civ
    has = lambda x: x in fmt  # noqa: E731
    ymd = has("%F")
    exp_zone = "%d %d" % tuple(c.meta["az"])
    if " ".join(t[9:11]) != exp_zone:
        res.append(("violation", "strptime(%r, %r): zone (%s), the assumed zone is (%s)" % (got, fmt, " ".join(t[9:11]), exp_zone)))
    want_f = {0: y}
    if has("%j"):
        want_f[3] = doy
    else:
        want_f[1] = m if (has("%m") or ymd) else 1
        want_f[2] = d if (has("%d") or ymd) else 1
    hx = has("%X")
    want_f[6] = h if (has("%H") or hx) else 0
    want_f[7] = mi if (has("%M") or hx) else 0
    want_f[8] = s if (has("%S") or hx) else 0
    for i, w in want_f.items():
        if t[i] == "-" or Fraction(t[i]) != w:
            res.append(("violation", "strptime(%r, %r) = %s: field %d should be %s" % (got, fmt, parts[1], i, w)))
            break
    return res


def nontrivial(c):
    return c.meta["fmt"].count("%") >= 3 and not c.meta.get("skipped")
