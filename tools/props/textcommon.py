"""Rendering of date/time/zone expression forms with field values (generator side)."""
import os
import re
import sys
from fractions import Fraction

sys.path.insert(0, os.environ.get("ISO_REPO", "/repo"))
from metomi.isodatetime import parser_spec  # noqa: E402  (the form tables are generator *input*)
from metomi.isodatetime.parsers import TimePointParser  # noqa: E402

from props.common import month_len, year_len, is_leap


def exprs(table, fkey, tkey):
    return list(TimePointParser.get_expressions(table[fkey][tkey]))


DATE = {(f, t): exprs(parser_spec.DATE_EXPRESSIONS, f, t) for f in ("basic", "extended") for t in ("complete", "reduced", "truncated")}
TIME = {(f, t): exprs(parser_spec.TIME_EXPRESSIONS, f, t) for f in ("basic", "extended") for t in ("complete", "reduced", "truncated")}
ZONE = {f: list(TimePointParser.get_expressions(parser_spec.TIME_ZONE_EXPRESSIONS[f])) for f in ("basic", "extended")}


def enc(s):
    out = []
    for b in s.encode("utf-8", "surrogateescape"):
        if b <= 32 or b >= 127 or b in (37, 59):
            out.append("%%%02X" % b)
        else:
            out.append(chr(b))
    return "".join(out) or "%00"


def dec(tok):
    from urllib.parse import unquote_to_bytes
    return "" if tok == "%00" else unquote_to_bytes(tok).decode("utf-8", "surrogateescape")


def weeks_in_year(y):
    """ISO weeks of a Gregorian year (generator-side arithmetic; the oracle is the parse result)."""
    import datetime
    if 1 <= y <= 9999:
        return datetime.date(y, 12, 28).isocalendar()[1]
    yy = y % 400 + 2000
    return datetime.date(yy, 12, 28).isocalendar()[1]


def render_date(expr, v, ned):
    """Fill a date expression; v has year (may be None), month, dom, doy, week, dow, yod."""
    s = expr
    y = v.get("year")
    if "+X" in s:
        s = s.replace("+X", ("-" if v["neg"] else "+") + "%0*d" % (ned, abs(y) // 10000) if ned else ("-" if v["neg"] else "+"))
    if y is not None:
        s = s.replace("CC", "%02d" % (abs(y) % 10000 // 100))
    s = s.replace("YY", "%02d" % (abs(v.get("yoc", y if y is not None else 0)) % 100))
    s = s.replace("MM", "%02d" % v.get("month", 0))
    s = s.replace("DDD", "%03d" % v.get("doy", 0))
    s = s.replace("DD", "%02d" % v.get("dom", 0))
    s = s.replace("Www", "W%02d" % v.get("week", 0))
    s = re.sub(r"(?<![A-Za-z0-9])D|D$|(?<=\d)D", "%d" % v.get("dow", 0), s) if "D" in s else s
    s = s.replace("z", "%d" % v.get("yod", 0))
    return s


def render_time(expr, v):
    s = expr
    s = s.replace("hh", "%02d" % v.get("h", 0), 1)
    s = s.replace("mm", "%02d" % v.get("m", 0), 1)
    s = s.replace("ss", "%02d" % v.get("s", 0), 1)
    for k in ("ii", "nn", "tt"):
        s = s.replace(k, v.get("dec", "5"))
    return s


def render_zone(expr, zh, zm):
    if expr == "Z":
        return "Z"
    sign = "-" if (zh < 0 or zm < 0) else "+"
    s = expr.replace("+", sign).replace("hh", "%02d" % abs(zh))
    return s.replace("mm", "%02d" % abs(zm))
