"""Recurrence generators shared by C12, C13, C14."""
import datetime
from fractions import Fraction
from props.common import MODES, rand_tp, rand_zone, rand_year, rand_date
from props.tpcommon import q

EXACT = ["DU 0 0 0 0 0 1", "DU 0 0 0 0 1 0", "DU 0 0 0 1 0 0", "DU 0 0 0 6 0 0", "DU 0 0 1 0 0 0", "DW 1", "DW 2",
         "DU 0 0 0 0 0 86400", "DU 0 0 0 36 0 0", "DU 0 0 1 -1 0 0", "DU 0 0 0 0 90 0", "DU 0 0 7 0 0 1",
         "DU 0 0 30 0 0 0", "DU 0 0 365 0 0 0", "DU 0 0 0 0 0 3599", "DU 0 0 2 12 30 30"]
NOMINAL = ["DU 0 1 0 0 0 0", "DU 1 0 0 0 0 0", "DU 0 1 1 0 0 0", "DU 0 1 2 0 0 0", "DU 1 1 0 0 0 0", "DU 0 2 0 0 0 0",
           "DU 0 13 0 0 0 0", "DU 1 0 1 0 0 0", "DU 0 1 0 12 0 0", "DU 4 0 0 0 0 0", "DU 0 1 -1 0 0 0",
           "DU 0 10 0 0 0 0", "DU 0 11 0 0 0 0", "DU 0 14 0 0 0 0", "DU 0 18 0 0 0 0", "DU 0 22 0 0 0 0", "DU 0 6 0 0 0 0"]
ZERO = ["DU 0 0 0 0 0 0", "DU 0 0 1 -24 0 0"]
REPS = [None, None, 1, 2, 2, 3, 3, 5, 12, 13, 40]


def dur_is_nominal(d):
    t = d.split()
    return t[0] == "DU" and (t[1] != "0" or t[2] != "0")


def rand_anchor(rng, md, month_end=False):
    if month_end and rng.random() < 0.2:
        # week and ordinal spellings of days around the turn of the year, where the week-year and the calendar year
        # (and their leap status) differ: month arithmetic goes through the calendar date of such a point
        from props.common import weeks_in, year_len
        y = rng.choice([2003, 2004, 2005, 2008, 2009, 2012, 2013, 2016, 2020, 2021, 1900, 2000, 2100, rand_year(rng)])
        z = rand_zone(rng)
        k = rng.random()
        if k < 0.4:
            date = "W %d 1 %d" % (y, rng.randint(1, 4))
        elif k < 0.7:
            date = "W %d %d %d" % (y, weeks_in(md, y), rng.randint(4, 7))
        else:
            date = "O %d %d" % (y, rng.choice([1, 2, year_len(md, y), year_len(md, y) - 1, 59, 60]))
        return "%s S %d %d 0 %d %d" % (date, rng.choice([0, 0, 12, 23]), rng.choice([0, 59]), z[0], z[1])
    if month_end and rng.random() < 0.6:
        y = rand_year(rng)
        m = rng.choice([1, 3, 5, 7, 8, 10, 12, 2])
        d = {"360": 30}.get(md) or rng.choice([29, 30, 31, 28] if m != 2 else [28, 29])
        from props.common import month_len
        d = min(d, month_len(md, y, m))
        z = rand_zone(rng)
        return "C %d %d %d S %d %d 0 %d %d" % (y, m, d, rng.choice([0, 0, 12, 23]), rng.choice([0, 59]), z[0], z[1])
    if rng.random() < 0.08:
        return rand_tp(rng, md, tod="S 24 0 0")      # the end-of-day spelling of the next day's 00:00:00
    return rand_tp(rng, md, form="S", allow24=False, decimals=False)


def rand_rec(rng, md, kind=None):
    """(args token string, info dict) for `rmake md <args>`"""
    kind = kind or rng.choice(["exact", "exact", "nominal", "zero"])
    d = rng.choice({"exact": EXACT, "nominal": NOMINAL, "zero": ZERO}[kind])
    n = rng.choice(REPS)
    fmt = rng.choice([3, 3, 4])
    a = rand_anchor(rng, md, month_end=(kind == "nominal"))
    ns = "-" if n is None else str(n)
    if fmt == 3:
        args = "%s %s %s -" % (ns, a, d)
    else:
        args = "%s - %s %s" % (ns, d, a)
    return args, dict(kind=kind, d=d, n=n, fmt=fmt, anchor=a)


def rand_rec_fmt1(rng, md):
    """start/second-point notation; the second point is start + (days, hours) computed here (calendar, same month)."""
    y = rand_year(rng)
    m = rng.randint(1, 12)
    d0 = rng.randint(1, 10)
    dd, hh = rng.choice([(0, 1), (0, 6), (1, 0), (2, 12), (7, 0), (0, 0)])
    h0 = rng.randint(0, 11)
    z = rand_zone(rng)
    n = rng.choice(REPS)
    s = "C %d %d %d S %d 30 0 %d %d" % (y, m, d0, h0, z[0], z[1])
    e = "C %d %d %d S %d 30 0 %d %d" % (y, m, d0 + dd, h0 + hh, z[0], z[1])
    ns = "-" if n is None else str(n)
    return "%s %s - %s" % (ns, s, e), dict(kind="exact" if (dd, hh) != (0, 0) else "zero",
                                           d="DU 0 0 %d %d 0 0" % (dd, hh), n=n, fmt=1, anchor=s)
