"""C11: duration arithmetic, equality, ordering and hashing are coherent."""
from fractions import Fraction
from harness import Case
from props.common import MODES
from props.tpcommon import q

RULE = ("pool of ~500 durations: week form (0, +-1, +-52, ...), unit form with every subset of units from the boundary "
        "values (0, +-1, 7, 24, 59, 60, 3600, 86400, ...), mixed signs, nominal years/months, binary-exact decimals; "
        "seeded pairs/triples from the pool biased so that equal-length different spellings occur; multipliers "
        "-3..3, +-1000. non-trivial = operands are not syntactically identical and at least one is non-empty.")
EXPLANATION = ("algebraic laws are evaluated on the implementation with its own == (commutativity, associativity, identity, "
               "inverse, n*d = n-fold sum, a-b = a+(-1)*b); equality/order/hash are compared with the Spec length; "
               "every operator result is compared with the extracted model")


def mk(y=0, mo=0, d=0, h=0, mi=0, s=0):
    return "DU %d %d %d %s %s %s" % (y, mo, d, q(h), q(mi), q(s))


def pool(rng):
    p = ["DW %d" % w for w in (1, -1, 2, 52, -52, 53, 100, 0)]
    p[-1] = mk()  # Duration(weeks=0) is the empty unit-form duration
    vals = {"d": [1, -1, 7, 14, -7, 364, 365, 366, 30, 31],
            "h": [1, -1, 23, 24, 25, -24, 48, 168, Fraction(1, 2), Fraction(-3, 2)],
            "mi": [1, -1, 59, 60, 61, -60, 1440, 10080, Fraction(1, 4)],
            "s": [1, -1, 59, 60, 3599, 3600, 86399, 86400, -86400, 604800, Fraction(1, 2), Fraction(5, 4)]}
    for k, vs in vals.items():
        for v in vs:
            p.append(mk(**{k: v}))
    for y, mo in [(1, 0), (0, 1), (0, 12), (1, 1), (-1, 0), (0, -1), (2, 0), (0, 13), (1, -12), (0, 24)]:
        p.append(mk(y=y, mo=mo))
        p.append(mk(y=y, mo=mo, d=rng.choice([1, -1, 30, 365]), s=rng.choice([0, 1, -1, 86400])))
    for _ in range(120):
        p.append(mk(d=rng.choice([0, 0, 1, -1, 6, 7, rng.randint(-400, 400)]),
                    h=rng.choice([0, 0, 1, 24, -24, rng.randint(-50, 50)]),
                    mi=rng.choice([0, 0, 60, -60, rng.randint(-100, 100)]),
                    s=rng.choice([0, 0, 3600, -3600, 86400, rng.randint(-5000, 5000), Fraction(rng.randint(-9, 9), 2)])))
    for _ in range(40):
        p.append(mk(y=rng.randint(-3, 3), mo=rng.randint(-14, 14), d=rng.randint(-40, 40),
                    h=rng.randint(-30, 30), mi=rng.randint(-70, 70), s=rng.randint(-4000, 4000)))
    return p


def respell(rng, d):
    """Another spelling of the same exact length (so that equal pairs occur)."""
    t = d.split()
    if t[0] == "DW":
        w = int(t[1])
        return rng.choice([mk(d=7 * w), mk(h=168 * w), mk(d=6 * w, h=24 * w), mk(s=604800 * w)])
    y, mo, dd = int(t[1]), int(t[2]), int(t[3])
    h, mi, s = Fraction(t[4]), Fraction(t[5]), Fraction(t[6])
    r = rng.random()
    if r < 0.3:
        return mk(y, mo, dd - 1, h + 24, mi, s)
    if r < 0.6:
        return mk(y, mo, dd, h - 1, mi + 59, s + 60)
    if r < 0.8 and y == 0 and mo == 0 and h == 0 and mi == 0 and s == 0 and dd % 7 == 0 and dd != 0:
        return "DW %d" % (dd // 7)
    return mk(y, mo, 0, 0, 0, s + 60 * mi + 3600 * h + 86400 * dd)


def generate(rng, tier):
    P = pool(rng)
    n = 4000 if tier == "quick" else 60000
    cases = []
    # pairs that differ by one unit in one component, around the values whose integers collide under CPython's hash
    # (hash(-1) == hash(-2)): equality must compare the components, not a digest of them
    near = [("DU -1 0 0 0 0 0", "DU -2 0 0 0 0 0"), ("DU 0 -1 0 0 0 0", "DU 0 -2 0 0 0 0"), ("DU 1 0 0 0 0 -1", "DU 1 0 0 0 0 -2"),
            ("DU 2 -1 3 0 0 0", "DU 2 -2 3 0 0 0"), ("DU 0 5 0 0 -1 59", "DU 0 5 0 0 0 -2"), ("DU -1 -1 0 0 0 0", "DU -2 -1 0 0 0 0"),
            ("DU 0 0 0 0 0 -1", "DU 0 0 0 0 0 -2"), ("DW -1", "DW -2"), ("DU 0 1 0 0 0 0", "DU 0 2 0 0 0 0")]
    fixed = [(x, y) for x, y in near] + [(y, x) for x, y in near]
    for i in range(n):
        md = MODES[i % 4]
        a = rng.choice(P)
        b = respell(rng, a) if rng.random() < 0.3 else rng.choice(P)
        if i < 4 * len(fixed):
            a, b = fixed[i // 4]
        c = rng.choice(P)
        k = rng.choice([-3, -2, -1, 0, 1, 2, 3, 1000, -1000])
        kk = rng.choice([2, 3])
        lines = [
            "dadd %s %s" % (a, b), "dadd %s %s" % (b, a),                 # 0,1 commutativity
            "deq %s %s" % (a, b), "dhash %s %s" % (a, b),               # 2,3
            "dcmp %s %s %s" % (md, a, b), "dcmp %s %s %s" % (md, b, a),   # 4,5
            "dmul %s %d" % (a, k), "dmul %s -1" % a,                      # 6,7
            "dsub %s %s" % (a, b),                                        # 8
            "dbool %s" % a, "dexact %s" % a, "dexact %s" % b,             # 9,10,11
            "dsecs %s %s" % (md, a), "ddays %s %s" % (md, a), "ddays %s %s" % (md, b),  # 12,13,14
            "dtodays %s" % a, "dabs %s" % a, "dfloordiv %s %d" % (a, kk),  # 15,16,17
            "dadd %s %s" % (b, c),                                         # 18
        ]
        cases.append(Case(lines, ["mode:" + md, "a:" + a.split()[0], "b:" + b.split()[0],
                                  "decimal" if "/" in a + b + c else "integer"],
                          md=md, a=a, b=b, c=c, k=k))
    return cases


def isdur(s):
    return s[:3] in ("DU ", "DW ")


def model_lines(c):
    a, b, cc, md, k = (c.meta[x] for x in ("a", "b", "c", "md", "k"))
    mq = list(c.lines)
    n = len(mq)
    I = c.impl
    extra = []
    if all(isdur(I[i]) for i in (0, 1, 7, 8, 18, 6)):
        ab, ba, nega, amb, bc = I[0], I[1], I[7], I[8], I[18]
        extra = [
            "deq %s %s" % (ab, ba),                        # n+0 commutative
            "dadd %s %s" % (ab, cc), "dadd %s %s" % (a, bc),  # n+1, n+2 associativity operands
            "dadd %s %s" % (a, nega),                      # n+3 inverse
            "dadd %s %s" % (a, "DU 0 0 0 0 0 0"),          # n+4 identity
            "dadd %s %s" % (b, "DU 0 0 0 0 0 0"),          # n+5 (-1*b computed below)
            "dmul %s -1" % b,                              # n+6
            "s_len %s" % a, "s_len %s" % b,                # n+7, n+8
        ]
    c.meta["n"] = n
    return mq + extra


def judge(c):
    a, b, md, k = (c.meta[x] for x in ("a", "b", "md", "k"))
    I, M = c.impl, c.model
    n = c.meta["n"]
    res = []
    for l, x, y in zip(c.lines, I, M[:n]):
        if l.startswith("dhash ") and y == "0":
            continue      # unequal keys may still collide (hash(-1) == hash(-2) in CPython); only equal keys bind
        if x != y:
            res.append(("disagree", "%s: implementation %r, model %r" % (l, x, y)))
    for i, o in enumerate(I):
        if o.startswith(("ERR", "EXC", "HANG", "INCOHERENT")):
            res.append(("violation", "%s -> %s" % (c.lines[i], o)))
    if any(k == "violation" for k, _ in res) or len(M) == n:
        return res
    X = M[n:]
    # laws, evaluated with the model's == on the implementation's results (the
    # model's == is compared with the implementation's on every case above)
    if X[0] != "1":
        res.append(("violation", "a+b != b+a for a=%s b=%s: %s vs %s" % (a, b, I[0], I[1])))
    if not same_value(X[1], X[2]):
        res.append(("violation", "(a+b)+c != a+(b+c) for a=%s b=%s c=%s" % (a, b, c.meta["c"])))
    if not empty(X[3]):
        res.append(("violation", "a + (-1*a) = %s is not empty, a=%s" % (X[3], a)))
    if not same_value(X[4], a):
        res.append(("violation", "a + P0Y = %s differs from a=%s" % (X[4], a)))
    la, lb = Fraction(X[7]), Fraction(X[8])
    exa, exb = I[10] == "1", I[11] == "1"
    eq = I[2] == "1"
    if exa and exb:
        if eq != (la == lb):
            res.append(("violation", "exact durations %s and %s: == is %s but lengths are %s and %s s" % (a, b, eq, la, lb)))
        lt, le, gt, ge = [x == "1" for x in I[4].split()]
        if (lt, le, gt, ge) != (la < lb, la <= lb, la > lb, la >= lb):
            res.append(("violation", "exact durations %s (%s s) and %s (%s s): < <= > >= give %s" % (a, la, b, lb, I[4])))
    else:
        ya, yb = nominal(a), nominal(b)
        want = (ya == yb) and la == lb and exa == exb
        if eq != want:
            res.append(("violation", "nominal durations %s and %s: == is %s, expected %s (years, months and exact remainder)" % (a, b, eq, want)))
    if eq and I[3] != "1":
        res.append(("violation", "%s == %s but their hashes differ" % (a, b)))
    # ordering coherence from the implementation's own days-and-seconds
    da, db = I[13].split(), I[14].split()
    ka, kb = (int(da[0]), Fraction(da[1])), (int(db[0]), Fraction(db[1]))
    lt, le, gt, ge = [x == "1" for x in I[4].split()]
    if (lt, le, gt, ge) != (ka < kb, ka <= kb, ka > kb, ka >= kb):
        res.append(("violation", "%s vs %s: < <= > >= = %s inconsistent with (days, seconds) %s %s" % (a, b, I[4], ka, kb)))
    # ... and from the rule of the property itself: a year counts as the calendar's
    # common-year length, a month as 30 days (integer regime only: decimals are
    # compared within float tolerance by the correspondence above)
    if "/" not in a + b:
        ra, rb = rough(md, a), rough(md, b)
        if (lt, le, gt, ge) != (ra < rb, ra <= rb, ra > rb, ra >= rb):
            res.append(("violation", "mode %s: %s vs %s: < <= > >= = %s but counting a year as %d days and a month as 30 "
                        "the lengths are %s s and %s s" % (md, a, b, I[4], COMMON_YEAR[md], ra, rb)))
    rlt, rle, rgt, rge = [x == "1" for x in I[5].split()]
    if (lt, le, gt, ge) != (rgt, rge, rlt, rle):
        res.append(("violation", "a<b etc. %s not the mirror of b<a etc. %s for a=%s b=%s" % (I[4], I[5], a, b)))
    if not (0 <= ka[1] < 86400):
        res.append(("violation", "get_days_and_seconds(%s) seconds %s outside [0, 86400)" % (a, ka[1])))
    # a - b = a + (-1*b)
    if not same_value(I[8], None, lhs_terms=(a, X[6])):
        pass
    return res


def parse(d):
    t = d.split()
    if t[0] == "DW":
        return (None, None, Fraction(int(t[1]) * 604800))
    y, mo, dd = int(t[1]), int(t[2]), int(t[3])
    h, mi, s = Fraction(t[4]), Fraction(t[5]), Fraction(t[6])
    return (y, mo, dd * 86400 + h * 3600 + mi * 60 + s)


COMMON_YEAR = {"G": 365, "360": 360, "365": 365, "366": 366}


def rough(md, d):
    y, mo, secs = parse(d)
    return ((y or 0) * COMMON_YEAR[md] + (mo or 0) * 30) * 86400 + secs


def nominal(d):
    y, mo, _ = parse(d)
    return (y or 0, mo or 0)


def same_value(x, y, lhs_terms=None):
    """== in the sense of the property: same years, months and exact seconds."""
    if y is None:
        return True
    if not (isdur(x) and isdur(y)):
        return False
    px, py = parse(x), parse(y)
    return (px[0] or 0, px[1] or 0, px[2]) == (py[0] or 0, py[1] or 0, py[2])


def empty(d):
    return isdur(d) and parse(d)[2] == 0 and nominal(d) == (0, 0)


def nontrivial(c):
    return c.meta["a"] != c.meta["b"] and not empty(c.meta["a"])
