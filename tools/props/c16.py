"""C16: time points, durations, zones and recurrences are immutable values."""
from harness import Case
from props.common import MODES

RULE = ("one case = one random sequence of public operations (seeded from the run's rng) over a growing pool that starts "
        "with ~25 time points (3 representations, 24:00, decimal, custom dump formats, expanded years, 4 truncated shapes), "
        "durations (weeks, mixed, nominal, negative, decimal, standardized), zones (incl. unknown) and recurrences (all 3 "
        "notations, single point, min/max bounds); operations: every public method/property/operator the four classes define "
        "(enumerated by reflection: arithmetic + - * // abs, the six comparisons, hash, str, repr, bool, conversions, "
        "add_months/add_truncated, strftime, zone changes, recurrence iteration (also through stored generators advanced "
        "between other steps), membership, get_is_valid/next/prev/first_after, indexing, shifting) plus dumping with 11 formats, "
        "dict keys and sorting; results join the pool and are used as later operands; all four calendar modes. "
        "non-trivial = at least 20 operations executed and 1000 attribute writes traced.")
EXPLANATION = ("oracle (a) write trace: a class-level __setattr__/__delattr__ hook installed from outside records every attribute "
               "write; each must land on an object whose initialiser started during the current top-level call (what the IR of "
               "coq/gen/Effects.v admits); (b) raw slot values, str() and hash() of every pool value and of every object reachable "
               "from it are re-inspected after every step; (c) correspondence: for every method observed, the identity of what it "
               "returned (receiver / other existing object / fresh) must be admitted by the summary the Coq analysis computed from "
               "the generated table, the public names found by reflection must be the public names of the generated table, and "
               "`check table` must be true on the model side")
IMPL_MODULES = ("impl_effects",)

NOPS = 30


def generate(rng, tier):
    n = 400 if tier == "quick" else 6000
    cases = [Case(["c16names"], ["names"], kind="names")]
    for i in range(n):
        md = MODES[i % 4]
        seed = rng.randrange(1 << 30)
        cases.append(Case(["c16seq %s %d %d" % (md, seed, NOPS)], ["sequence", "mode:" + md], kind="seq", md=md))
    return cases


def parse(out):
    """-> (verdict, stats dict, {method: set(kinds)}) or None"""
    parts = [x.strip() for x in out.split(";")]
    if len(parts) != 3 or not parts[2].startswith("ret"):
        return None
    stats = {}
    for kv in parts[1].split():
        k, _, v = kv.partition("=")
        stats[k] = int(v)
    rets = {}
    for item in parts[2].split()[1:]:
        n, _, ks = item.partition(":")
        rets[n] = set(ks.split(","))
    return parts[0], stats, rets


def model_lines(c):
    if c.meta["kind"] == "names":
        names = c.impl[0].split()
        c.meta["names"] = names
        return ["c16check", "c16count"] + ["c16summ " + n for n in names]
    p = parse(c.impl[0])
    c.meta["parsed"] = p is not None
    if p is None:
        return ["c16check"]
    methods = sorted(n for n in p[2] if not n.startswith("x_"))
    c.meta["methods"] = methods
    return ["c16check"] + ["c16summ " + n for n in methods]


ADMITS = {"fresh": {"fresh", "prim"}, "selforfresh": {"fresh", "prim", "self"},
          "any": {"fresh", "prim", "self", "arg", "old"}}


def judge(c):
    res = []
    if not c.model or c.model[0] != "1":
        res.append(("disagree", "the generated write-effect table does not pass the checker (model says c16check = %r)"
                    % (c.model[0] if c.model else None)))
    if c.meta["kind"] == "names":
        names = c.meta["names"]
        if len(names) < 60:
            res.append(("disagree", "reflection found only %d public names" % len(names)))
        cnt = c.model[1].split()
        for n, out in zip(names, c.model[2:]):
            t = out.split()
            if out == "NONE":
                res.append(("disagree", "public name %s of the package is not in the generated table" % n))
            elif len(t) != 3 or t[2] != "1":
                res.append(("disagree", "name %s is public in the package, model says %r" % (n, out)))
            elif t[1] != "0":
                res.append(("disagree", "summary of public %s says it writes its receiver" % n))
        if len(cnt) != 2 or int(cnt[1]) < len(names):
            res.append(("disagree", "table has %s public entries, package has %d public names" % (cnt, len(names))))
        return res
    out = c.impl[0]
    if not c.meta.get("parsed"):
        return res + [("violation", "%s -> %s" % (c.lines[0], out))]
    verdict, stats, rets = parse(out)
    if verdict.startswith("UNCOVERED"):
        res.append(("disagree", "%s: public methods not exercised by the harness: %s" % (c.lines[0], verdict)))
        verdict = verdict.split(" ", 2)[2] if verdict.count(" ") >= 2 else "ok"
    if verdict.startswith("VIOL"):
        res.append(("violation", "%s: %s" % (c.lines[0], verdict[5:])))
    elif not verdict.startswith("ok"):
        res.append(("violation", "%s -> %s" % (c.lines[0], out[:200])))
    for n, mo in zip(c.meta.get("methods", []), c.model[1:]):
        t = mo.split()
        if mo == "NONE" or len(t) != 3:
            res.append(("disagree", "%s: method %s observed on the package is not in the generated table" % (c.lines[0], n)))
            continue
        extra = rets[n] - ADMITS[t[0]]
        if extra:
            res.append(("disagree", "%s: %s returned %s but its summary is %s" % (c.lines[0], n, sorted(extra), t[0])))
    return res


def nontrivial(c):
    if c.meta["kind"] != "seq" or not c.impl:
        return False
    p = parse(c.impl[0])
    return bool(p and p[1].get("ops", 0) >= 20 and p[1].get("writes", 0) >= 1000)
