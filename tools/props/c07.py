"""C07: the parser decodes every documented date-time form to exactly its fields."""
from fractions import Fraction
from harness import Case
from props.common import month_len, year_len
from props.textcommon import DATE, TIME, ZONE, enc, dec, render_date, render_time, render_zone, weeks_in_year

IMPL_MODULES = ("impl_text",)
RULE = ("every date form x every time form x every zone form of the package's expression tables (basic/extended; complete, reduced, "
        "truncated) that the parser accepts together, plus the forbidden basic/extended mixes; field values: catalogue and random years "
        "(0000-9999, signed expanded with 2 or 3 extra digits incl. -0 and multiples of 400), every month/day/day-of-year/week/weekday "
        "boundary, h/m/s boundaries incl. 24:00, decimals of 1-9 digits (comma and point), offsets incl. negative minutes with zero hours; "
        "parser configurations: expanded digits 0/2/3, allow_only_basic, allow_truncated, assumed zone / unknown / local (faked). "
        "non-trivial = a complete or truncated form with at least two fields.")
EXPLANATION = ("oracle: the parsed TimePoint carries exactly the assigned values in the same representation, omitted lower-order fields at "
               "the start of the period, zone resolved by the configuration; str(parse(s, dump_as_parsed=True)) reproduces s up to trailing "
               "zeros of a fraction; basic-only parsers accept every basic form and refuse extended-only ones; basic dates never combine "
               "with extended times; truncated forms give their truncated properties; all compared with the model parser over the "
               "regenerated form tables")

YEARS = [0, 1, 4, 99, 100, 400, 1582, 1900, 1999, 2000, 2004, 2009, 2015, 2020, 9999]
BIGYEARS = [-1, -400, 10000, 12345, -12345, 123456, -999999, 999999, -0]


def pick_date(rng, expr, tkey, ned):
    v = {}
    expanded = "+X" in expr
    if expanded:
        lim = 10 ** (4 + ned) - 1 if ned else 9999
        y = rng.choice([x for x in BIGYEARS + YEARS if abs(x) <= lim] + [rng.randint(-lim, lim)])
        if "YY" not in expr:
            y = (abs(y) // 100 * 100) * (-1 if y < 0 else 1)
        v["neg"] = y < 0        # year 0 is written +0...0 (a "-0" year has no canonical sign to reproduce)
        v["year"] = y
    elif "CC" in expr:
        v["year"] = rng.choice(YEARS + [rng.randint(0, 9999)])
        if "YY" not in expr:
            v["year"] = v["year"] // 100 * 100
    elif "YY" in expr:
        v["yoc"] = rng.randint(0, 99)
    if "z" in expr:
        v["yod"] = rng.randint(0, 9)
    y = v.get("year", v.get("yoc", 2000 if "YY" not in expr and "z" not in expr else v.get("yod", 0)))
    yy = y if (v.get("year") is not None or "yoc" in v or "yod" in v) else None
    if "MM" in expr:
        v["month"] = rng.choice([1, 2, 12, rng.randint(1, 12)])
    if "DDD" in expr:
        yl = year_len("G", yy) if yy is not None else 366
        v["doy"] = rng.choice([1, 59, 60, yl, rng.randint(1, yl)])
    elif "DD" in expr:
        m = v.get("month")
        ml = month_len("G", yy, m) if (m and yy is not None) else (month_len("G", 2000, m) if m else 31)
        v["dom"] = rng.choice([1, ml, rng.randint(1, ml)])
    if "Www" in expr:
        wk = weeks_in_year(yy) if yy is not None else 53
        v["week"] = rng.choice([1, 52, wk, rng.randint(1, wk)])
    e2 = expr.replace("DDD", "").replace("DD", "")
    if "D" in e2:
        v["dow"] = rng.randint(1, 7)
    return v


def pick_time(rng, expr):
    v = {}
    if "hh" in expr:
        v["h"] = rng.choice([0, 12, 23, rng.randint(0, 23)])
    if "mm" in expr:
        v["m"] = rng.choice([0, 59, rng.randint(0, 59)])
    if "ss" in expr:
        v["s"] = rng.choice([0, 59, rng.randint(0, 59)])
    if any(k in expr for k in ("ii", "nn", "tt")):
        k = rng.randint(1, 9)
        d = "".join(rng.choice("0123456789") for _ in range(k))
        v["dec"] = rng.choice(["5", "25", "75", "125", d.rstrip("0") or "5", d])
        if rng.random() < 0.03:
            # around the dumper's "do not round up to the next unit" threshold 0.9999995
            v["dec"] = rng.choice(["9999995", "9999996", "99999949", "999999", "9999994", "99999995"])
    if v.get("h") is not None and rng.random() < 0.04 and not any(k in expr for k in ("ii", "nn", "tt")):
        v.update(h=24, m=0 if "m" in v else None, s=0 if "s" in v else None)
        v = {k: x for k, x in v.items() if x is not None}
    return v


def expected(dv, tv, zone, dexpr, texpr, trunc):
    """The fields the parsed point must carry: (year, month, dom, doy, week, dow, h, m, s)."""
    y = dv.get("year")
    if y is not None and dv.get("neg") and y > 0:
        y = -y
    if y is None and "yoc" in dv:
        y = dv["yoc"]
    if "yod" in dv:
        y = (y or 0) + dv["yod"] if "yoc" in dv else dv["yod"]
    f = dict(year=y, month=dv.get("month"), dom=dv.get("dom"), doy=dv.get("doy"), week=dv.get("week"), dow=dv.get("dow"))
    if not trunc and f["doy"] is None:
        if f["week"] is None and f["dow"] is None:
            f["month"] = f["month"] or 1
            f["dom"] = f["dom"] or 1
        else:
            f["week"] = f["week"] or 1
            f["dow"] = f["dow"] or 1
    h, m, s = tv.get("h"), tv.get("m"), tv.get("s")
    dec = Fraction("0." + tv["dec"]) if "dec" in tv else None
    if texpr is not None:
        if "tt" in texpr:
            s = Fraction(s) + dec
        elif "nn" in texpr:
            m = Fraction(m) + dec
        elif "ii" in texpr:
            h = Fraction(h) + dec
    if not trunc:
        h = 0 if h is None else h
        if texpr is None or "ii" not in texpr:
            m = 0 if m is None else m
            if texpr is None or "nn" not in texpr:
                s = 0 if s is None else s
    f.update(h=h, m=m, s=s)
    return f


def generate(rng, tier):
    per = 8 if tier == "quick" else 60
    cases = []
    cfgs = [dict(ned=2, trunc=0, basic=0), dict(ned=0, trunc=0, basic=0), dict(ned=3, trunc=0, basic=0),
            dict(ned=2, trunc=1, basic=0), dict(ned=2, trunc=0, basic=1), dict(ned=2, trunc=1, basic=1)]
    for cfg in cfgs:
        for dfk in ("basic", "extended"):
            for dtk in ("complete", "reduced", "truncated"):
                for dexpr in DATE[(dfk, dtk)]:
                    # time forms: none (date only), or each time form
                    combos = [(None, None, None)]
                    if dtk != "reduced":
                        for tfk in ("basic", "extended"):
                            for ttk in ("complete", "reduced", "truncated"):
                                for texpr in TIME[(tfk, ttk)]:
                                    combos.append((tfk, ttk, texpr))
                    for tfk, ttk, texpr in combos:
                        if tier == "quick" and texpr is not None and rng.random() < 0.4:
                            continue
                        for _ in range(per if texpr is None else 1):
                            cases.append(make_case(rng, cfg, dfk, dtk, dexpr, tfk, ttk, texpr))
        # time-only truncated forms: "T" + time
        if cfg["trunc"]:
            for tfk in ("basic", "extended"):
                for ttk in ("complete", "reduced", "truncated"):
                    for texpr in TIME[(tfk, ttk)]:
                        cases.append(make_case(rng, cfg, None, "truncated", "", tfk, ttk, texpr))
    return cases


def make_case(rng, cfg, dfk, dtk, dexpr, tfk, ttk, texpr):
    ned = cfg["ned"]
    dv = pick_date(rng, dexpr, dtk, ned) if dexpr else {}
    text = render_date(dexpr, dv, ned) if dexpr else ""
    tv, zone, zexpr = {}, None, ""
    if texpr is not None:
        tv = pick_time(rng, texpr)
        text += "T" + render_time(texpr, tv)
        zfk = tfk
        r = rng.random()
        if r < 0.6:
            zexpr = rng.choice(ZONE[zfk])
            zh = rng.choice([0, 1, -1, 5, -5, 12, -12, 14, 23, -23, 99, -99])
            zm = 0 if "mm" not in zexpr else rng.choice([0, 30, 45, 59])
            if zh < 0:
                zm = -zm
            elif zh == 0 and rng.random() < 0.5:
                zm = -zm
            if zexpr == "Z":
                zh = zm = 0
            zone = (zh, zm)
            text += render_zone(zexpr, zh, zm)
    mode = rng.choice(["assumed", "unknown", "local"])
    if mode == "assumed":
        az = rng.choice([(0, 0), (5, 30), (-3, -30), (0, -45)])
        cfgs = "%d %d %d %d %d 0 1 0" % (ned, cfg["trunc"], cfg["basic"], az[0], az[1])
        defz = az
    elif mode == "unknown":
        cfgs = "%d %d %d - - 1 1 0" % (ned, cfg["trunc"], cfg["basic"])
        defz = None
    else:
        lz = rng.choice([(0, 0), (1, 0), (-9, -30), (12, 45)])
        cfgs = "%d %d %d - - 0 %d %d" % (ned, cfg["trunc"], cfg["basic"], lz[0], lz[1])
        defz = lz
    trunc_date = dtk == "truncated"
    # which outcome do we expect?
    ok = True
    why = ""
    if dtk == "truncated" and not cfg["trunc"]:
        ok, why = None, "truncated form without allow_truncated"      # the text may coincide with an expanded-year form
    if cfg["basic"] and (dfk == "extended" or (tfk == "extended")):
        # extended-only notation: a form text that also exists in basic is still accepted
        ok, why = None, "extended form with allow_only_basic"
    if texpr is not None and dfk is not None and not trunc_date and tfk != dfk:
        ok, why = None, "basic/extended mix"
    if texpr is not None and ttk == "truncated" and not (trunc_date and (dexpr == "" or dexpr.startswith("-"))):
        ok, why = False, "truncated time with a date that is not dash-truncated"
    if cfg["trunc"] and dexpr in ("+XCC", "+XCCYY") and dv.get("neg"):
        ok, why = None, "a '-'-signed century/year form coincides with the truncated -YYMM / -YY text when truncation is on"
    if "+X" in (dexpr or "") and ned == 0:
        ok, why = False, "expanded form with zero expanded digits"
    lines = ["parse G %s 1 %s" % (cfgs, enc(text)), "pstr G %s %s" % (cfgs, enc(text))]
    return Case(lines, ["cfg:%d%d%d" % (ned, cfg["trunc"], cfg["basic"]), "date:%s/%s" % (dfk, dtk),
                        "time:%s/%s" % (tfk, ttk), "zone:" + (zexpr or "none"), "zmode:" + mode, "expect:%s" % ok],
                text=text, dv=dv, tv=tv, zone=zone, defz=defz, dexpr=dexpr, texpr=texpr, zexpr=zexpr,
                trunc=trunc_date or (texpr is not None and ttk == "truncated" and trunc_date) or dfk is None,
                ok=ok, why=why, cfgbasic=cfg["basic"], dfk=dfk, tfk=tfk)


def model_lines(c):
    return list(c.lines)


def close(a, b):
    if a == b:
        return True
    ta, tb = a.split(), b.split()
    if len(ta) != len(tb):
        return False
    for x, y in zip(ta, tb):
        if x != y:
            try:
                if abs(Fraction(x) - Fraction(y)) > Fraction(1, 10**9):
                    return False
            except (ValueError, ZeroDivisionError):
                return False
    return True


def close_text(a, b):
    """Printed texts equal up to one unit in the last printed digit of a fraction: a decimal of more than six digits
    is a binary float on the implementation side and an exact rational in the model, so a tie in the seventh digit
    (...5) may round either way (float regime, DESIGN section 10)."""
    import re
    fa, fb = re.findall(r"[,.](\d+)", dec(a)), re.findall(r"[,.](\d+)", dec(b))
    if len(fa) != 1 or len(fb) != 1:
        return False
    if re.sub(r"([,.])\d+", r"\1#", dec(a)) != re.sub(r"([,.])\d+", r"\1#", dec(b)):
        return False
    return abs(Fraction("0." + fa[0]) - Fraction("0." + fb[0])) <= Fraction(1, 10 ** 6)


def judge(c):
    I, M = c.impl, c.model
    res = []
    for l, a, b in zip(c.lines, I, M):
        if l.startswith("pstr ") and len(c.meta.get("tv", {}).get("dec", "")) > 6 and not a.startswith(("ERR", "EXC")) \
                and not b.startswith(("ERR", "EXC", "UNMODELLED")) and close_text(a, b):
            continue
        if not close(a, b) and b != "UNMODELLED":
            res.append(("disagree", "%s: implementation %r, model %r" % (l, a, b)))
    ok, text = c.meta["ok"], c.meta["text"]
    got = I[0]
    if ok is False:
        if not got.startswith("ERR"):
            res.append(("violation", "%r (%s) must be refused but parsed as %s" % (text, c.meta["why"], got)))
        return res
    if ok is None:
        # a basic/extended mix or an extended form under allow_only_basic: either refused, or the text
        # coincides with a legitimate form; only check that nothing but ValueError-derived errors occur
        if not (got.startswith("ERR") or len(got.split()) == 15):
            res.append(("violation", "%r -> %s" % (text, got)))
        if c.meta["why"] == "basic/extended mix" and not got.startswith("ERR"):
            same = c.meta["texpr"] in sum([v for k, v in TIME.items() if k[0] == c.meta["dfk"]], []) and \
                (not c.meta["zexpr"] or c.meta["zexpr"] in ZONE[c.meta["dfk"]])
            if not same:
                res.append(("violation", "%r combines a %s date with a %s time and was accepted: %s" % (text, c.meta["dfk"], c.meta["tfk"], got)))
        return res
    t = got.split()
    if len(t) != 15:
        return res + [("violation", "%r is a documented form but parse gives %s" % (text, got))]
    f = expected(c.meta["dv"], c.meta["tv"], c.meta["zone"], c.meta["dexpr"], c.meta["texpr"], c.meta["trunc"])
    names = ["year", "month", "dom", "doy", "week", "dow", "h", "m", "s"]
    for i, nm in enumerate(names):
        want = f[nm]
        have = None if t[i] == "-" else Fraction(t[i])
        if (want is None) != (have is None) or (want is not None and abs(Fraction(want) - have) > Fraction(1, 10**9)):
            res.append(("violation", "%r: field %s parsed as %s, the text spells %s" % (text, nm, t[i], want)))
    z = c.meta["zone"] if c.meta["zone"] is not None else c.meta["defz"]
    if z is None and not c.meta["trunc"]:
        z = (0, 0)      # told to default to unknown: a full point is then in UTC; only truncated points stay unknown
    zs = "- -" if z is None else "%d %d" % tuple(z)
    if " ".join(t[9:11]) != zs:
        res.append(("violation", "%r: zone parsed as (%s), expected (%s)" % (text, " ".join(t[9:11]), zs)))
    if (t[11] == "1") != bool(c.meta["trunc"]):
        res.append(("violation", "%r: truncated flag %s" % (text, t[11])))
    # dump_as_parsed reproduces the input up to trailing zeros of a fraction
    back = dec(I[1]) if not I[1].startswith(("ERR", "EXC", "TRUNCATED")) else None
    if I[1] != "TRUNCATED" and len(c.meta["tv"].get("dec", "")) <= 6:
        norm = strip_frac_zeros(text)
        if back is None or strip_frac_zeros(back) != norm:
            res.append(("violation", "%r parsed with dump_as_parsed prints as %r" % (text, back if back is not None else I[1])))
    elif I[1] != "TRUNCATED":
        # more than six fraction digits: printed to six, i.e. the same text with a fraction within 1e-6 of the input's
        if back is None or not close_text(enc(back), enc(text)):
            res.append(("violation", "%r parsed with dump_as_parsed prints as %r (the fraction must be the input's to six digits)" % (
                text, back if back is not None else I[1])))
    return res


def strip_frac_zeros(s):
    import re
    def f(m):
        d = m.group(2).rstrip("0") or "0"
        return m.group(1) + d
    return re.sub(r"([,.])(\d+)(?=(Z|[+-]\d|$))", f, s)


def nontrivial(c):
    return c.meta["ok"] is True and (len(c.meta["dv"]) + len(c.meta["tv"])) >= 2
