"""C15: the active calendar mode alone determines calendar results."""
from harness import Case
from props.common import YEARS, rand_tp, rand_date, rand_year
from props.tpcommon import rand_exact_dur
from props.reccommon import EXACT, NOMINAL

RULE = ("seeded histories of 5-40 steps executed in ONE process of the real package: set_mode over the 7 spellings (plus upper/mixed "
        "case, None and invalid spellings) interleaved with the 9 cached helper calls (arguments drawn from a small per-history pool so "
        "the same call recurs under different modes), the six date conversions, TimePoint validation (30 Feb, day 366, week 53 ...), "
        "to_calendar/ordinal/week_date, + - < on time points, recurrence expansion, and in-process CLI calls (main(argv) with --calendar, "
        "with ISODATETIMECALENDAR, with neither; offsets and recurrences). For a sample of histories every group of steps run under one "
        "spelling is re-run in a FRESH subprocess that only ever used that spelling; a few helper-only histories compare the lru_cache "
        "sizes of a fresh subprocess with the model's cache. non-trivial = at least two calendars and a helper call repeated under two "
        "of them (a stale cache entry would be observable).")
EXPLANATION = ("violation: a step's output differs from the single-mode answer - the model's pure helper / stateless operation evaluated "
               "under the mode last set (Proofs: C15_history says the cache machine never differs from it), or from the fresh-subprocess "
               "output; disagree: the cache machine of Model/Cache.v (hist, hsizes) and the implementation differ on a history")
IMPL_MODULES = ("impl_cache",)

SPELLINGS = ["gregorian", "360day", "365day", "366day", "360_day", "365_day", "366_day"]
TOKEN_OF = {"gregorian": "G", "360day": "360", "360_day": "360", "365day": "365", "365_day": "365",
            "366day": "366", "366_day": "366"}
CLI_CHOICES = ["360day", "365day", "366day", "gregorian"]
ODD_CASE = ["GREGORIAN", "Gregorian", "360DAY", "360Day", "365_DAY", "366_Day", "366DAY"]
INVALID = ["bogus", "360", "julian", "360-day", "gregorian_", "noleap", "366days"]
HELPER_ARITY = {"leap": 1, "ylen": 1, "mlen": 2, "mlenleap": 1, "range": 2, "weeks": 1, "wstart": 1,
                "owstart": 1, "since1ad": 1}
NO_MODE_ARG = {"leap"}


def md_of(spelling):
    return TOKEN_OF.get(spelling.lower())


# ---------------------------------------------------------------------------
# plan: what each step of a history must print, derived from the tokens alone
# ---------------------------------------------------------------------------
class StepPlan:
    __slots__ = ("tok", "kind", "sp", "md", "queries", "literal", "combine", "key")

    def __init__(self, tok, kind, sp, queries=(), literal=None, combine=None, key=None):
        self.tok, self.kind, self.sp = tok, kind, sp
        self.md = md_of(sp) if sp is not None else None
        self.queries, self.literal, self.combine, self.key = list(queries), literal, combine, key


def _set(cur, s):
    """set_mode(s): (new current spelling, output)."""
    s2 = "gregorian" if s in ("", None) else s
    if md_of(s2) is None:
        return cur, "EXC KeyError"
    return s2, "ok"


def plan(tokens):
    """Per step: the spelling in force when its result is computed, the
    stateless model queries giving the single-mode answer, how to combine them."""
    cur = "gregorian"  # import time: Calendar.default() -> set_mode() -> gregorian
    out = []
    for tk in tokens:
        f = tk.split(":")
        name, a = f[0], f[1:]
        if name == "sm":
            cur2, o = _set(cur, None if a[0] == "-" else a[0])
            out.append(StepPlan(tk, "sm", cur2, literal=o))
            cur = cur2
            continue
        if name in ("cli", "clirec"):
            how, sp = a[0], a[1]
            stop = None
            if how == "opt":
                if sp in CLI_CHOICES:
                    cur, o = _set(cur, sp)
                else:
                    stop = "EXIT 2"
            elif how == "env":
                cur, o = _set(cur, sp)
                if o != "ok":
                    stop = o
            else:
                cur, o = _set(cur, None)
            if stop is not None:
                out.append(StepPlan(tk, name, cur, literal=stop))
                continue
            md = md_of(cur)
            if name == "cli":
                sign = a[2]
                y, m, d, h, mi, s, dy, dm, dd = a[3:]
                tp = "C %s %s %s S %s %s %s 0 0" % (y, m, d, h, mi, s)
                q = ["s_validdate %s C %s %s %s" % (md, y, m, d),
                     "%s %s %s DU %s %s %s 0 0 0" % ("subd" if sign == "m" else "add", md, tp, dy, dm, dd)]
                out.append(StepPlan(tk, name, cur, q, combine=lambda r: r[1] if r[0] == "1" else "ERR"))
            else:
                n, y, m, d, h, dy, dm, dd, mx = a[2:]
                tp = "C %s %s %s S %s 0 0 0 0" % (y, m, d, h)
                q = ["s_validdate %s C %s %s %s" % (md, y, m, d),
                     "rmake %s %s %s DU %s %s %s 0 0 0 -" % (md, n, tp, dy, dm, dd)]

                def comb(r, mx=int(mx)):
                    if r[0] != "1" or r[1] == "ERR":
                        return "ERR"
                    pts = [x.strip() for x in r[1].split(";")][5:][:mx]
                    return " ; ".join(pts) if pts else "NONE"
                out.append(StepPlan(tk, name, cur, q, combine=comb))
            continue
        md = md_of(cur) if cur is not None else None
        if name == "x":
            q = ["%s %s %s" % (a[0], md, " ".join(a[1:]))]
            out.append(StepPlan(tk, "x:" + a[0], cur, q, combine=lambda r: r[0]))
        elif name == "v":
            q = ["s_validdate %s %s" % (md, " ".join(a))]
            out.append(StepPlan(tk, "v", cur, q, combine=lambda r: r[0]))
        else:
            q = ["%s %s" % (name, " ".join(a))] if name in NO_MODE_ARG else ["%s %s %s" % (name, md, " ".join(a))]
            out.append(StepPlan(tk, "helper", cur, q, combine=lambda r: r[0], key=tk))
    return out


# ---------------------------------------------------------------------------
# generation
# ---------------------------------------------------------------------------
def gen_setmode(rng, cur):
    r = rng.random()
    if r < 0.80:
        cand = [s for s in SPELLINGS if md_of(s) != md_of(cur or "")] if rng.random() < 0.75 else SPELLINGS
        return "sm:" + rng.choice(cand)
    if r < 0.88:
        return "sm:" + rng.choice(ODD_CASE)
    if r < 0.94:
        return "sm:" + rng.choice(INVALID)
    return "sm:-"


def gen_helper(rng, pool):
    name = rng.choice(["ylen", "ylen", "mlen", "mlen", "mlen", "mlenleap", "range", "weeks", "wstart", "owstart",
                       "since1ad", "leap"])
    y = rng.choice(pool["years"]) if rng.random() < 0.85 else rand_year(rng)
    if name == "mlen":
        return "mlen:%d:%d" % (rng.choice(pool["months"]), y)
    if name == "mlenleap":
        return "mlenleap:%d" % rng.choice(pool["months"])
    if name == "range":
        e = rng.choice(pool["years"]) if rng.random() < 0.7 else y + rng.choice([-1, 0, 1, 3, 99, 400])
        return "range:%d:%d" % (y, e)
    return "%s:%d" % (name, y)


def colon(s):
    return ":".join(s.split())


def gen_tp(rng, md, pool):
    y = rng.choice(pool["years"]) if rng.random() < 0.5 else rng.randint(1890, 2110)
    return rand_tp(rng, md, year=y, form="S", allow24=False, decimals=False)


def gen_dur(rng):
    r = rng.random()
    if r < 0.5:
        return rand_exact_dur(rng, decimals=False)[0]
    if r < 0.8:
        return "DU 0 %d 0 0 0 0" % rng.choice([1, -1, 2, 11, 12, 13, -12, 25])
    if r < 0.9:
        return "DU %d 0 0 0 0 0" % rng.choice([1, -1, 4, 100, -4])
    return "DU %d %d %d 0 0 0" % (rng.choice([0, 1]), rng.choice([1, 2, 12]), rng.choice([1, 28, 31]))


def gen_x(rng, md, pool):
    y = rng.choice(pool["years"]) if rng.random() < 0.7 else rand_year(rng)
    r = rng.random()
    if r < 0.40:
        op = rng.choice(["c2o", "o2c", "c2w", "w2c", "o2w", "w2o"])
        if op in ("c2o", "c2w"):
            args = "%d %d %d" % (y, rng.choice([1, 2, 2, 2, 3, 12, 0, 13, rng.randint(1, 12)]),
                                 rng.choice([1, 28, 29, 30, 31, 0, 32, rng.randint(1, 31)]))
        elif op in ("o2c", "o2w"):
            args = "%d %d" % (y, rng.choice([1, 59, 60, 61, 359, 360, 361, 364, 365, 366, 367, 0, rng.randint(1, 366)]))
        else:
            args = "%d %d %d" % (y, rng.choice([1, 2, 51, 52, 53, 54, 0, rng.randint(1, 53)]), rng.choice([1, 4, 7, 0, 8]))
        return "x:%s:%s" % (op, colon(args))
    if r < 0.55:
        op = rng.choice(["tocal", "toord", "toweek"])
        if rng.random() < 0.5:
            date = rand_date(rng, md, y)
        else:
            date = rng.choice(["C %d 2 %d" % (y, rng.choice([28, 29, 30, 31])), "O %d %d" % (y, rng.choice([360, 361, 365, 366, 367])),
                               "W %d %d %d" % (y, rng.choice([52, 53, 54]), rng.choice([1, 7]))])
        return "x:%s:%s" % (op, colon(date))
    if r < 0.80:
        op = rng.choice(["add", "add", "subd"])
        return "x:%s:%s:%s" % (op, colon(gen_tp(rng, md, pool)), colon(gen_dur(rng)))
    if r < 0.90:
        op = rng.choice(["sub", "cmp"])
        return "x:%s:%s:%s" % (op, colon(gen_tp(rng, md, pool)), colon(gen_tp(rng, md, pool)))
    n = rng.choice([1, 2, 3, 3, 5])
    d = rng.choice(EXACT + NOMINAL)
    return "x:rmake:%d:%s:%s:-" % (n, colon(gen_tp(rng, md, pool)), colon(d))


def gen_valid(rng, pool):
    y = rng.choice(pool["years"]) if rng.random() < 0.8 else rand_year(rng)
    r = rng.random()
    if r < 0.5:
        return "v:C:%d:%d:%d" % (y, rng.choice([2, 2, 2, 1, 4, 12, 13, 0]), rng.choice([28, 29, 30, 31, 32, 1, 0]))
    if r < 0.8:
        return "v:O:%d:%d" % (y, rng.choice([0, 1, 359, 360, 361, 365, 366, 367]))
    return "v:W:%d:%d:%d" % (y, rng.choice([0, 1, 51, 52, 53, 54]), rng.choice([0, 1, 7, 8]))


def gen_cli(rng):
    r = rng.random()
    if r < 0.45:
        how, sp = "opt", rng.choice(CLI_CHOICES if rng.random() < 0.85 else SPELLINGS[4:])
    elif r < 0.9:
        q = rng.random()
        sp = rng.choice(SPELLINGS) if q < 0.8 else rng.choice(ODD_CASE) if q < 0.9 else rng.choice(INVALID) if q < 0.96 else ""
        how = "env"
    else:
        how, sp = "none", "-"
    y = rng.choice([1999, 2000, 2001, 2004, 2100, 1900, rng.randint(1000, 3000)])
    m = rng.choice([1, 2, 2, 2, 3, 12, rng.randint(1, 12)])
    d = rng.choice([1, 27, 28, 28, 29, 30, 31])
    if rng.random() < 0.7:
        sign = rng.choice("ppm")
        dy, dm, dd = rng.choice([0, 0, 0, 1, 4]), rng.choice([0, 0, 1, 12]), rng.choice([0, 1, 2, 3, 30, 31, 360, 365, 366])
        return "cli:%s:%s:%s:%d:%d:%d:%d:%d:%d:%d:%d:%d" % (
            how, sp, sign, y, m, d, rng.choice([0, 12, 23]), rng.choice([0, 59]), rng.choice([0, 30]), dy, dm, dd)
    dy, dm, dd = rng.choice([(0, 0, 1), (0, 0, 2), (0, 1, 0), (1, 0, 0), (0, 0, 30), (0, 1, 1)])
    return "clirec:%s:%s:%d:%d:%d:%d:%d:%d:%d:%d:%d" % (
        how, sp, rng.choice([1, 2, 3, 5]), y, m, d, rng.choice([0, 6, 18]), dy, dm, dd, rng.choice([1, 3, 10]))


def gen_history(rng, helper_only=False):
    n = rng.randint(5, 40)
    pool = dict(years=[rng.choice(YEARS) if rng.random() < 0.5 else rng.randint(1890, 2110) for _ in range(rng.randint(2, 4))],
                months=[2, 2, rng.randint(1, 12), 12])
    # a history starts in the import-time state (gregorian); most switch at once
    toks, cur = [], "gregorian"
    if rng.random() < 0.85:
        toks = ["sm:" + rng.choice(SPELLINGS)]
        cur = toks[0][3:]
    while len(toks) < n:
        r = rng.random()
        if r < 0.24:
            tk = gen_setmode(rng, cur)
        elif r < 0.60 or helper_only:
            earlier = [t for t in toks if t.split(":")[0] in HELPER_ARITY]
            # re-issue an earlier call verbatim: the stale-entry scenario
            tk = rng.choice(earlier) if earlier and rng.random() < 0.45 else gen_helper(rng, pool)
        elif r < 0.78:
            tk = gen_x(rng, md_of(cur), pool)
        elif r < 0.86:
            tk = gen_valid(rng, pool)
        else:
            tk = gen_cli(rng)
        toks.append(tk)
        cur = plan(["sm:" + cur, tk])[-1].sp
    return toks


def fresh_groups(rng, toks):
    """Group the steps by the exact spelling in force; one fresh process each."""
    groups = {}
    for i, p in enumerate(plan(toks)):
        if p.kind == "sm" or p.sp is None:
            continue
        groups.setdefault(p.sp, []).append(i)
    lines, meta = [], []
    for sp, idx in groups.items():
        # the import-time state is gregorian: sometimes rely on it
        lead = [] if (sp == "gregorian" and rng.random() < 0.5) else ["sm:" + sp]
        lines.append("fresh " + " ".join(lead + [toks[i] for i in idx]))
        meta.append([len(lead)] + idx)
    return lines, meta


def generate(rng, tier):
    n = 1200 if tier == "quick" else 12000
    p_fresh = 0.06 if tier == "quick" else 0.03
    cases = []
    for k in range(n):
        toks = gen_history(rng)
        pl = plan(toks)
        mds = {p.md for p in pl if p.md}
        seen, stale_risk = {}, False
        for p in pl:
            if p.key:
                if any(m != p.md for m in seen.get(p.key, ())):
                    stale_risk = True
                seen.setdefault(p.key, set()).add(p.md)
        lines = ["hist " + " ".join(toks)]
        fresh = []
        tags = ["len:%d" % (10 * (len(toks) // 10)), "modes:%d" % len(mds)]
        tags += sorted({"step:" + p.kind.split(":")[0] for p in pl})
        if stale_risk:
            tags.append("recall-under-other-mode")
        if rng.random() < p_fresh:
            fl, fresh = fresh_groups(rng, toks)
            lines += fl
            tags.append("fresh-subprocess")
        cases.append(Case(lines, tags, fam="hist", fresh=fresh, nontriv=bool(stale_risk and len(mds) >= 2)))
    for k in range(40 if tier == "quick" else 300):
        toks = gen_history(rng, helper_only=True)
        cases.append(Case(["hsizes " + " ".join(toks)], ["cache-sizes"], fam="sizes", nontriv=True))
    return cases


# ---------------------------------------------------------------------------
# oracle
# ---------------------------------------------------------------------------
def model_lines(c):
    if c.lines[0].startswith("hsizes "):
        return [c.lines[0]]
    mq = [c.lines[0]]
    for p in plan(c.lines[0].split()[1:]):
        mq += p.queries
    return mq


def judge(c):
    res = []
    head = c.lines[0]
    if head.startswith("hsizes "):
        if c.impl[0] != c.model[0]:
            res.append(("disagree", "%s: lru_cache sizes in a fresh process %r, model cache %r" % (head, c.impl[0], c.model[0])))
        return res
    toks = head.split()[1:]
    pl = plan(toks)
    got = c.impl[0].split(" | ")
    mod = c.model[0].split(" | ")
    if len(got) != len(toks):
        return [("disagree", "%s: implementation printed %d outputs for %d steps: %r" % (head, len(got), len(toks), c.impl[0]))]
    if len(mod) != len(toks):
        return [("disagree", "%s: model printed %r" % (head, c.model[0]))]
    qi = 1
    for i, p in enumerate(pl):
        r = c.model[qi:qi + len(p.queries)]
        qi += len(p.queries)
        want = p.literal if p.literal is not None else p.combine(r)
        where = "step %d `%s` of `%s` (mode last set: %s)" % (i + 1, p.tok, " ".join(toks[:i + 1]), p.sp)
        if got[i] != want:
            res.append(("violation", "%s printed %r; the single-mode answer is %r" % (where, got[i], want)))
        if got[i] != mod[i]:
            res.append(("disagree", "%s: implementation %r, cache machine %r" % (where, got[i], mod[i])))
    for line, out, meta in zip(c.lines[1:], c.impl[1:], c.meta.get("fresh", [])):
        skip, idx = meta[0], meta[1:]
        fr = out.split(" | ")[skip:]
        if len(fr) != len(idx):
            res.append(("violation", "`%s` in a fresh process printed %r" % (line, out)))
            continue
        for j, i in enumerate(idx):
            if fr[j] != got[i]:
                res.append(("violation", "step %d `%s` printed %r after the history `%s` but %r in a fresh process that only used %s" % (
                    i + 1, toks[i], got[i], " ".join(toks[:i]), fr[j], pl[i].sp)))
    return res


def nontrivial(c):
    return bool(c.meta.get("nontriv"))
