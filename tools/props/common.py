"""Catalogues shared by the case generators (DESIGN.md section 5)."""
from fractions import Fraction

MODES = ["G", "360", "365", "366"]
YEARS = [-10001, -10000, -401, -400, -399, -101, -100, -99, -5, -4, -2, -1, 0, 1,
         3, 4, 5, 99, 100, 101, 399, 400, 401, 1582, 1896, 1899, 1900, 1901, 1904, 1969,
         1970, 1998, 1999, 2000, 2001, 2003, 2004, 2005, 2008, 2009, 2015, 2016,
         2020, 2096, 2099, 2100, 2104, 2400, 9998, 9999, 10000, 99999]
OFFSETS = [(0, 0), (0, 1), (0, -1), (0, 30), (0, -30), (0, 59), (0, -59),
           (1, 0), (-1, 0), (5, 30), (-5, -30), (12, 45), (-12, -45),
           (14, 0), (-14, 0), (23, 59), (-23, -59), (24, 0), (-24, 0),
           (99, 59), (-99, -59)]
M365 = [31, 28, 31, 30, 31, 30, 31, 31, 30, 31, 30, 31]


def is_leap(y):
    return y % 4 == 0 and (y % 100 != 0 or y % 400 == 0)


def month_len(md, y, m):
    if md == "360":
        return 30
    if m == 2:
        if md == "366" or (md == "G" and is_leap(y)):
            return 29
        return 28
    return M365[m - 1]


def year_len(md, y):
    return {"360": 360, "365": 365, "366": 366}.get(md) or (366 if is_leap(y) else 365)


def day_number(md, y, doy):
    """days since 0001-001 of the calendar (generator-side arithmetic; the oracles use the Spec functions)"""
    if md == "G":
        base = 365 * (y - 1) + (y - 1) // 4 - (y - 1) // 100 + (y - 1) // 400
    else:
        base = year_len(md, y) * (y - 1)
    return base + doy


def weeks_in(md, y):
    """number of ISO weeks of week-year y: Monday-based weeks counted from the reference Monday 2000-01-03,
    week 1 is the one containing 4 January"""
    ref = day_number(md, 2000, 3)

    def wys(yy):
        n4 = day_number(md, yy, 4)
        return n4 - (n4 - ref) % 7
    return (wys(y + 1) - wys(y)) // 7


def rand_zone(rng):
    if rng.random() < 0.7:
        return rng.choice(OFFSETS)
    h = rng.randint(-99, 99)
    m = rng.randint(0, 59)
    if h < 0:
        m = -m
    elif h == 0 and rng.random() < 0.5:
        m = -m
    return (h, m)


def rand_year(rng):
    r = rng.random()
    if r < 0.5:
        return rng.choice(YEARS)
    if r < 0.8:
        return rng.randint(1890, 2110)
    return rng.randint(-12000, 12000)


def rand_date(rng, md, y=None, kind=None, boundary=0.6):
    """A valid date token string in mode md; mostly near period boundaries."""
    if y is None:
        y = rand_year(rng)
    kind = kind or rng.choice("COW")
    if kind == "C":
        m = rng.choice([1, 2, 2, 3, 12, rng.randint(1, 12)])
        ml = month_len(md, y, m)
        d = rng.choice([1, 2, ml - 1, ml]) if rng.random() < boundary else rng.randint(1, ml)
        return "C %d %d %d" % (y, m, d)
    if kind == "O":
        yl = year_len(md, y)
        d = rng.choice([1, 2, 59, 60, 61, yl - 1, yl]) if rng.random() < boundary else rng.randint(1, yl)
        return "O %d %d" % (y, d)
    # week dates: the last weeks of the week-year (51..53 depending on calendar and year) are the boundary
    nw = weeks_in(md, y)
    w = rng.choice([1, 2, nw - 1, nw, nw]) if rng.random() < boundary else rng.randint(1, nw)
    return "W %d %d %d" % (y, w, rng.choice([1, 4, 7, rng.randint(1, 7)]))


def qstr(x):
    f = Fraction(x)
    return str(f.numerator) if f.denominator == 1 else "%d/%d" % (f.numerator, f.denominator)


# binary-exact decimal fractions only (see DESIGN.md 3: decimal regime)
EXACT_FRACS = [Fraction(1, 2), Fraction(1, 4), Fraction(3, 4), Fraction(1, 8)]


def rand_tod(rng, form=None, allow24=True, decimals=True):
    """Time-of-day token string: S h m s | M h m | H h."""
    form = form or rng.choice(["S", "S", "S", "M", "H"])
    if allow24 and rng.random() < 0.08:
        return {"S": "S 24 0 0", "M": "M 24 0", "H": "H 24"}[form]
    h = rng.choice([0, 0, 11, 12, 23, 23, rng.randint(0, 23)])
    m = rng.choice([0, 0, 59, 59, 30, rng.randint(0, 59)])
    s = rng.choice([0, 0, 1, 59, 59, rng.randint(0, 59)])
    fr = rng.choice(EXACT_FRACS) if decimals and rng.random() < 0.5 else 0
    if form == "S":
        sec = Fraction(s) + (fr if decimals and rng.random() < 0.25 else 0)
        return "S %d %d %s" % (h, m, qstr(sec))
    if form == "M":
        return "M %d %s" % (h, qstr(Fraction(m) + fr))
    return "H %s" % qstr(Fraction(h) + fr)


def rand_tp(rng, md, **kw):
    z = kw.pop("zone", None) or rand_zone(rng)
    date = kw.pop("date", None) or rand_date(rng, md, kw.pop("year", None), kw.pop("kind", None))
    tod = kw.pop("tod", None) or rand_tod(rng, **kw)
    return "%s %s %d %d" % (date, tod, z[0], z[1])
