"""C05: month and year arithmetic follows calendar rules with end-of-period clamping."""
from fractions import Fraction
from harness import Case
from props.common import MODES, month_len, year_len, rand_tp, rand_year, rand_zone, rand_tod
from props.tpcommon import is_tp, tp_form, q

RULE = ("start points: every month end, 29 Feb, day 366 and week 53 of catalogue and random years plus random days, in 3 "
        "representations x time forms (incl. 24:00) x offsets x 4 modes; month counts and year counts from "
        "{+-1, +-2, +-11, +-12, +-13, +-24, +-48, +-100, +-400} and random, alone and combined with exact units. "
        "non-trivial = the day had to be clamped or a year boundary was crossed.")
EXPLANATION = ("oracle: calendar date of the result = Spec month_shift (n single clamping steps) of the calendar date of the start; "
               "year shifts = Spec min(day, length of target month/year/week-year); shape, time of day and offset preserved; "
               "mixed duration == exact part, then months, then years; result valid; n months == n single steps "
               "(add_months applied |n| times); all compared with the model")

NS = [1, -1, 2, -2, 11, -11, 12, -12, 13, -13, 24, -24, 48, -48, 100, -100, 400, -400]


def start_point(rng, md):
    y = rand_year(rng)
    kind = rng.choice("COW")
    r = rng.random()
    if kind == "C":
        m = rng.choice([1, 2, 3, 5, 8, 10, 12, rng.randint(1, 12)])
        ml = month_len(md, y, m)
        d = ml if r < 0.6 else rng.choice([ml - 1, 28, 29, 30, 1, rng.randint(1, ml)])
        d = max(1, min(d, ml))
        date = "C %d %d %d" % (y, m, d)
    elif kind == "O":
        yl = year_len(md, y)
        d = rng.choice([yl, yl - 1, 59, 60, 61, 31, 1, rng.randint(1, yl)])
        date = "O %d %d" % (y, d)
    else:
        w = rng.choice([53, 52, 51, 1, 5, 9, rng.randint(1, 52)])
        date = "W %d %d %d" % (y, w, rng.choice([1, 7, rng.randint(1, 7)]))
    z = rand_zone(rng)
    return "%s %s %d %d" % (date, rand_tod(rng, decimals=(rng.random() < 0.2)), z[0], z[1])


def generate(rng, tier):
    n = 12000 if tier == "quick" else 200000
    cases = []
    for i in range(n):
        md = MODES[i % 4]
        p = start_point(rng, md)
        fam = rng.choice("MMMYYX")
        if fam == "M":
            k = rng.choice(NS + [rng.randint(-60, 60) or 1])
            lines = ["add %s %s DU 0 %d 0 0 0 0" % (md, p, k), "addmonths %s %s %d" % (md, p, k)]
            if abs(k) <= 13:      # n months equals n single steps
                lines.append("addsteps %s %s %d" % (md, p, k))
            cases.append(Case(lines, ["months", "mode:" + md, "rep:" + p[0]], md=md, p=p, k=k, fam="M"))
        elif fam == "Y":
            k = rng.choice(NS + [rng.randint(-30, 30) or 1])
            if rng.random() < 0.3:
                # leap-rule boundary: land exactly on a century year (common unless a multiple of 400) or start from
                # one, from the last day of the year / 29 February / the last week, with year counts incl. +-4, +-8
                k = rng.choice([4, -4, 8, -8, 12, -12, 96, -96, 100, -100, 200, -200, 400, -400, 1, -1, 3, -3, 104, -104])
                target = 100 * rng.randint(-30, 30)
                y0 = target - k if rng.random() < 0.7 else target
                yl = year_len(md, y0)
                date = rng.choice(["O %d %d" % (y0, yl), "O %d %d" % (y0, yl), "O %d %d" % (y0, yl - 1),
                                   "C %d 2 %d" % (y0, month_len(md, y0, 2)), "C %d 2 28" % y0,
                                   "W %d %d 7" % (y0, rng.choice([52, 53])), "C %d 12 %d" % (y0, month_len(md, y0, 12))])
                z = rand_zone(rng)
                p = "%s %s %d %d" % (date, rand_tod(rng, decimals=False), z[0], z[1])
            cases.append(Case(["add %s %s DU %d 0 0 0 0 0" % (md, p, k)], ["years", "mode:" + md, "rep:" + p[0]],
                              md=md, p=p, k=k, fam="Y"))
        else:
            d = "DU %d %d %d %s %s %s" % (rng.choice([0, 1, -1, 4]), rng.choice([0, 1, -1, 13, -25]),
                                          rng.choice([0, 1, -1, 31, -366]), q(rng.choice([0, 1, -25, 24])),
                                          q(rng.choice([0, 1, -61])), q(rng.choice([0, 1, -1, 86400])))
            cases.append(Case(["add %s %s %s" % (md, p, d), "addstaged %s %s %s" % (md, p, d)],
                              ["mixed", "mode:" + md, "rep:" + p[0]], md=md, p=p, d=d, fam="X"))
    return cases


def date_of(tp):
    t = tp.split()
    return " ".join(t[:{"C": 4, "O": 3, "W": 4}[t[0]]])


def model_lines(c):
    md, p = c.meta["md"], c.meta["p"]
    mq = list(c.lines) + ["s_valid %s %s" % (md, p)]
    r = c.impl[0]
    if not is_tp(r):
        return mq
    mq.append("s_valid %s %s" % (md, r))
    fam = c.meta["fam"]
    if fam == "M":
        mq += ["s_shiftdate %s %d %s" % (md, c.meta["k"], date_of(p)), "tocal %s %s" % (md, date_of(r))]
    elif fam == "Y":
        t = r.split()
        y = int(t[1])
        mq += ["s_ylen %s %d" % (md, y), "s_weeks %s %d" % (md, y)]
        mq += ["s_mlen %s %d %d" % (md, y, int(p.split()[2]))] if p[0] == "C" else ["leap 0"]
    return mq


def judge(c):
    md, p, fam = c.meta["md"], c.meta["p"], c.meta["fam"]
    I, M = c.impl, c.model
    n = len(c.lines)
    res = []
    fl = "/" in p or tp_form(p)[1] != "S"
    for l, a, b in zip(c.lines, I, M[:n]):
        if a != b and not (fl and is_tp(a) and is_tp(b) and tp_form(a) == tp_form(b)):
            res.append(("disagree", "%s: implementation %r, model %r" % (l, a, b)))
    if M[n] != "1":
        c.meta["skipped"] = True   # e.g. week 53 of a 52-week year: not a start point
        return [] if I[0] == "ERR" else [("disagree", "invalid start %s accepted: %s" % (p, I[0]))]
    r = I[0]
    if not is_tp(r):
        return res + [("violation", "%s -> %s" % (c.lines[0], r))]
    if M[n + 1] != "1":
        res.append(("violation", "%s = %s is not a valid date-time of mode %s" % (c.lines[0], r, md)))
    if tp_form(r) != tp_form(p):
        res.append(("violation", "%s = %s changes representation, precision form or offset" % (c.lines[0], r)))
    is24 = " 24 " in " " + " ".join(p.split()[len(date_of(p).split()):]) + " "
    if fam == "M":
        k = c.meta["k"]
        if I[1] != r:
            res.append(("violation", "add_months(%d) = %s but + P%dM = %s" % (k, I[1], k, r)))
        if len(I) > 2 and I[2] != r and not is24:
            res.append(("violation", "%d months (%s) differs from %d single-month steps (%s) from %s" % (k, r, abs(k), I[2], p)))
        want, got = M[n + 2], M[n + 3]
        if not is24 and got != "C " + want:
            res.append(("violation", "%s + %d months = %s (calendar date %s); %d single clamping steps give %s" % (p, k, r, got, abs(k), want)))
        if not is24 and r.split()[len(date_of(r).split()):] != p.split()[len(date_of(p).split()):]:
            res.append(("violation", "%s + %d months = %s changes the time of day or offset" % (p, k, r)))
    elif fam == "Y":
        k = c.meta["k"]
        tp_, tr = p.split(), r.split()
        ylen, weeks, mlen = M[n + 2], M[n + 3], M[n + 4]
        if not is24:
            if p[0] == "C":
                want = [str(int(tp_[1]) + k), tp_[2], str(min(int(tp_[3]), int(mlen)))]
            elif p[0] == "O":
                want = [str(int(tp_[1]) + k), str(min(int(tp_[2]), int(ylen)))]
            else:
                want = [str(int(tp_[1]) + k), str(min(int(tp_[2]), int(weeks))), tp_[3]]
            if tr[1:1 + len(want)] != want:
                res.append(("violation", "%s + %d years = %s, expected date fields %s" % (p, k, r, " ".join(want))))
            if tr[1 + len(want):] != tp_[1 + len(want):]:
                res.append(("violation", "%s + %d years = %s changes the time of day or offset" % (p, k, r)))
    else:
        if I[1] != r:
            res.append(("violation", "%s: mixed duration gives %s but exact part, then months, then years gives %s" % (c.lines[0], r, I[1])))
    return res


def nontrivial(c):
    return not c.meta.get("skipped")
