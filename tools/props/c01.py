"""C01: adding an exact duration translates the instant exactly."""
from fractions import Fraction
from harness import Case
from props.common import MODES, rand_tp
from props.tpcommon import rand_exact_dur, tp_form, is_tp, inexact_float_risk

RULE = ("seeded: time point = catalogue/boundary-biased date (3 representations) x time form (hh:mm:ss, hh:mm,n, hh,n, "
        "24:00) x catalogue offset, in each of the 4 modes; exact duration = weeks, a single unit, or mixed-sign "
        "day/hour/minute/second components from the boundary catalogue (+-1 s ... +-1e6 days), 15% with binary-exact "
        "decimal parts. Every case crosses at least a field carry unless the duration is zero; non-trivial = result "
        "date differs from the start date or the time-of-day wrapped.")
EXPLANATION = ("per case: p+d, d+p, p-d and p+(-d) on the implementation; the model's p+d must equal the implementation's "
               "(exactly on the integer regime, to 1 microsecond on the float regime); the proved Spec functions "
               "instant/valid_tp/normal_tp are evaluated on the implementation's result")


def generate(rng, tier):
    n = 12000 if tier == "quick" else 300000
    cases = []
    for i in range(n):
        md = MODES[i % 4]
        p = rand_tp(rng, md)
        d, nd, dec = rand_exact_dur(rng)
        lines = ["add %s %s %s" % (md, p, d), "radd %s %s %s" % (md, p, d),
                 "subd %s %s %s" % (md, p, nd), "subd %s %s %s" % (md, p, d), "add %s %s %s" % (md, p, nd)]
        rep, tod, _ = tp_form(p)
        fl = inexact_float_risk(p, d)
        cases.append(Case(lines, ["mode:" + md, "rep:" + rep, "tod:" + tod, "float" if fl else "integer",
                                  "weeks" if d.startswith("DW") else "units"],
                          md=md, p=p, d=d, nd=nd, fl=fl))
    return cases


def model_lines(c):
    md, p, d = c.meta["md"], c.meta["p"], c.meta["d"]
    mq = ["add %s %s %s" % (md, p, d), "s_instant %s %s" % (md, p), "s_len %s" % d, "s_valid %s %s" % (md, p)]
    r = c.impl[0]
    if is_tp(r):
        mq += ["s_instant %s %s" % (md, r), "s_normal %s %s" % (md, r), "s_valid %s %s" % (md, r)]
    return mq


def judge(c):
    md, p, d = c.meta["md"], c.meta["p"], c.meta["d"]
    res = []
    r = c.impl[0]
    m = c.model
    if m[3] != "1":
        return [("disagree", "generator produced an invalid start point %s" % p)]
    if not is_tp(r):
        return [("violation", "(%s) + (%s) in mode %s raised/failed: %s" % (p, d, md, r))]
    want = Fraction(m[1]) + Fraction(m[2])
    got = Fraction(m[4])
    tol = Fraction(1, 10**6) if c.meta["fl"] else 0
    if abs(got - want) > tol:
        res.append(("violation", "(%s) + (%s) in mode %s = %s: instant off by %s s" % (p, d, md, r, float(got - want))))
    if tp_form(r) != tp_form(p):
        res.append(("violation", "(%s) + (%s) = %s changes representation, precision form or UTC offset" % (p, d, r)))
    zero = d in ("DW 0", "DU 0 0 0 0 0 0")
    if m[6] != "1" or (not zero and m[5] != "1"):
        res.append(("violation", "(%s) + (%s) in mode %s = %s has a field outside its legal range" % (p, d, md, r)))
    if c.impl[1] != r:
        res.append(("violation", "d + p = %s differs from p + d = %s for p=%s d=%s" % (c.impl[1], r, p, d)))
    if c.impl[2] != r:
        res.append(("violation", "p - (-d) = %s differs from p + d = %s for p=%s d=%s" % (c.impl[2], r, p, d)))
    if c.impl[3] != c.impl[4]:
        res.append(("violation", "p - d = %s differs from p + (-d) = %s for p=%s d=%s" % (c.impl[3], c.impl[4], p, d)))
    # correspondence
    if not c.meta["fl"]:
        if m[0] != r:
            res.append(("disagree", "add %s %s %s: implementation %s, model %s" % (md, p, d, r, m[0])))
    else:
        if not is_tp(m[0]) or tp_form(m[0]) != tp_form(r):
            res.append(("disagree", "add %s %s %s: implementation %s, model %s" % (md, p, d, r, m[0])))
    return res


def nontrivial(c):
    r = c.impl[0] if c.impl else ""
    return is_tp(r) and r.split()[:4] != c.meta["p"].split()[:4]
