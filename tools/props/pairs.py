"""Pairs of time points that spell near-by or identical instants in different
representations, offsets and precision forms (shared by C02, C04, C06)."""
from fractions import Fraction
from harness import Case
from props.common import MODES, OFFSETS, rand_tp, rand_zone
from props.tpcommon import rand_exact_dur, is_tp, tp_form

ZERO = "DU 0 0 0 0 0 0"
SMALL = ["DU 0 0 0 0 0 1", "DU 0 0 0 0 0 -1", "DU 0 0 0 0 1 0", "DU 0 0 0 -1 0 0", "DU 0 0 1 0 0 0",
         "DU 0 0 -1 0 0 0", "DU 0 0 0 24 0 0", "DU 0 0 0 0 0 86400", "DU 0 0 0 0 0 86399", "DW 1", "DU 0 0 365 0 0 0",
         "DU 0 0 -366 0 0 0", "DU 0 0 0 0 -1440 0"]


def gen_pairs(rng, n, same_frac=0.45, decimals=False):
    cases = []
    for i in range(n):
        md = MODES[i % 4]
        a = rand_tp(rng, md, decimals=decimals)
        r = rng.random()
        if r < same_frac:
            b, db, rel = a, ZERO, "same"
        elif r < 0.8:
            b, db, rel = a, rng.choice(SMALL), "near"
        else:
            # b + (a - b) walks the calendar day by day: keep unrelated partners within a few thousand years (cost, not correctness)
            ya = int(a.split()[1])
            b, rel = rand_tp(rng, md, decimals=decimals, year=ya + rng.choice([0, 1, -1, 4, -100, 400, rng.randint(-3000, 3000)])), "far"
            db = ZERO if rng.random() < 0.5 else rand_exact_dur(rng, decimals=False)[0]
        za, zb = rand_zone(rng), rand_zone(rng)
        ka, kb = rng.choice("COW-"), rng.choice("COW-")
        line = "pair %s %s %s %d %d %s %s %s %d %d %s" % (md, a, ZERO, za[0], za[1], ka, b, db, zb[0], zb[1], kb)
        fl = "/" in line or (tp_form(a)[1] != "S") or (tp_form(b)[1] != "S")
        cases.append(Case([line], ["mode:" + md, "rel:" + rel, "kinds:%s%s" % (ka, kb),
                                   "forms:%s%s" % (tp_form(a)[1], tp_form(b)[1]),
                                   "zone:" + ("same" if za == zb else "diff"),
                                   "24h" if " 24 " in a + " " + b else "no24", "float" if fl else "integer"],
                          md=md, fl=fl, rel=rel))
    return cases


def pair_model_lines(c):
    mq = list(c.lines)
    parts = [x.strip() for x in c.impl[0].split(";")]
    md = c.meta["md"]
    if len(parts) == 7 and is_tp(parts[0]) and is_tp(parts[1]):
        mq += ["s_instant %s %s" % (md, parts[0]), "s_instant %s %s" % (md, parts[1]),
               "s_valid %s %s" % (md, parts[0]), "s_valid %s %s" % (md, parts[1])]
        mq.append("s_len " + parts[4] if parts[4][:1] == "D" else "leap 0")
        mq.append("s_instant %s %s" % (md, parts[5]) if is_tp(parts[5]) else "leap 0")
    return mq


def cmp3(x, y):
    return "LT" if x < y else "GT" if x > y else "EQ"


def pair_judge(c, want_cmp=True, want_hash=True, want_sub=True):
    """Oracle on the implementation's output + correspondence with the model."""
    I, M = c.impl[0], c.model
    res = []
    parts = [x.strip() for x in I.split(";")]
    if len(parts) != 7:
        return [("violation", "%s -> %s" % (c.lines[0], I))]
    a, b, cmpv, hasheq, sub, back, backcmp = parts
    mparts = [x.strip() for x in M[0].split(";")]
    ia, ib = Fraction(M[1]), Fraction(M[2])
    tol = Fraction(1, 10**6) if c.meta["fl"] else 0
    close = c.meta["fl"] and abs(ia - ib) <= tol
    if M[3] != "1" or M[4] != "1":
        res.append(("violation", "re-zoning / re-expressing produced an invalid point: %s | %s" % (a, b)))
    want = cmp3(ia, ib)
    if want_cmp and cmpv != want:
        if close:
            res.append(("violation", "float-regime comparison of %s and %s gives %s, instants say %s (diff %s s)" % (a, b, cmpv, want, float(ia - ib))))
        else:
            res.append(("violation", "comparison of %s and %s gives %s, instants say %s (diff %s s)" % (a, b, cmpv, want, float(ia - ib))))
    if want_hash and cmpv == "EQ" and hasheq != "1":
        res.append(("violation", "%s == %s but hashes differ" % (a, b)))
    if want_sub:
        if sub[:1] != "D":
            res.append(("violation", "(%s) - (%s) -> %s" % (a, b, sub)))
        else:
            ln = Fraction(M[5])
            if abs(ln - (ia - ib)) > tol:
                res.append(("violation", "(%s) - (%s) = %s of length %s s, distance is %s s" % (a, b, sub, float(ln), float(ia - ib))))
            t = sub.split()
            if t[0] != "DU" or t[1] != "0" or t[2] != "0":
                res.append(("violation", "(%s) - (%s) = %s is not a days/h/m/s duration" % (a, b, sub)))
            else:
                dd, h, m, s = int(t[3]), Fraction(t[4]), Fraction(t[5]), Fraction(t[6])
                pos = dd >= 0 and 0 <= h < 24 and 0 <= m < 60 and 0 <= s < 60
                neg = dd <= 0 and -24 < h <= 0 and -60 < m <= 0 and -60 < s <= 0
                if not (pos or neg) and not c.meta["fl"]:
                    res.append(("violation", "(%s) - (%s) = %s is not normalised with one sign" % (a, b, sub)))
            if not is_tp(back) or (backcmp != "EQ" and not c.meta["fl"]):
                res.append(("violation", "b + (a - b) = %s compares %s with a=%s (b=%s)" % (back, backcmp, a, b)))
            elif is_tp(back) and tp_form(back)[0::2] != tp_form(b)[0::2]:
                res.append(("violation", "b + (a - b) = %s does not keep b's representation/offset (b=%s)" % (back, b)))
    # correspondence
    if not c.meta["fl"]:
        # hashes: the model predicts equal keys => equal hashes; unequal keys may
        # collide (hash(-1) == hash(-2) in CPython), so the converse is not demanded
        same = len(mparts) == 7 and mparts[:3] == parts[:3] and mparts[4:] == parts[4:] and \
            (mparts[3] == parts[3] or mparts[3] == "0")
        if not same:
            res.append(("disagree", "%s: implementation %r, model %r" % (c.lines[0], I, M[0])))
    else:
        if len(mparts) != 7 or (not close and mparts[2] != cmpv):
            res.append(("disagree", "%s: implementation %r, model %r" % (c.lines[0], I, M[0])))
    return res
