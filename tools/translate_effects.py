#!/venv/bin/python
"""Source -> Coq translator for property C16 (fail closed).

Reads metomi/isodatetime/data.py with `ast` and writes coq/gen/Effects.v: the
write-effect IR (coq/Spec/EffectIR.v) of EVERY method of the four value
classes TimePoint, Duration, TimeZone, TimeRecurrence.  The other modules of
the package are scanned for writes to instances of the four classes from
outside the class bodies.  Anything outside the accepted source shapes gives
`Definition translator_ok_effects : bool := false.` with the reasons in a
comment.

What the IR keeps of a method: which local names are bound to a fresh object,
to the receiver, or to anything else; which objects are written (`x._a = ..`,
`x._a += ..`, `setattr(x, ..)`); which methods are called on which receiver;
what is returned.  Branches become nondeterministic choice, loops "zero or
more times", `break`/`continue` a jump to the end of the iteration, `raise`
an abort.  Arguments of calls are not tracked: in the IR semantics every
non-receiver parameter of a callee holds an arbitrary pre-existing value.
Local names are put in SSA form (a new IR variable per assignment, explicit
alias copies at control-flow joins), because the checker in
coq/Model/EffectSem.v is flow-insensitive.

Usage: translate_effects.py            (writes coq/gen/Effects.v)
Environment: ISO_REPO (default /repo), EFFECTS_OUT (output directory).
"""
import ast
import os
import sys

HERE = os.path.dirname(os.path.abspath(__file__))
sys.path.insert(0, HERE)
from translate import Reject, write_if_changed, coq_str  # noqa: E402
import translate as _tr  # noqa: E402

REPO = os.environ.get("ISO_REPO", "/repo")
SRC = os.path.join(REPO, "metomi", "isodatetime")

CLASSES = ["TimePoint", "Duration", "TimeZone", "TimeRecurrence"]

# identifiers whose mere presence anywhere in the package makes the attribute
# write discipline unanalysable for this translator
def static_setattr_names(tree, name_node):
    """setattr(obj, <name>, value) outside the four classes is the attribute store obj.<name> = value when the name
    is a string literal or the target of an enclosing `for <name> in (<string literals>)` that nothing else in that
    function assigns; returns the possible names, or None when they cannot be told."""
    parent = {}
    for nd in ast.walk(tree):
        for ch in ast.iter_child_nodes(nd):
            parent[id(ch)] = nd
    call = parent.get(id(name_node))
    if not (isinstance(call, ast.Call) and call.func is name_node and len(call.args) == 3 and not call.keywords):
        return None
    a = call.args[1]
    if isinstance(a, ast.Constant) and isinstance(a.value, str):
        return [a.value]
    if not isinstance(a, ast.Name):
        return None
    loops, fn, nd = [], None, call
    while id(nd) in parent:
        nd = parent[id(nd)]
        if isinstance(nd, ast.For) and isinstance(nd.target, ast.Name) and nd.target.id == a.id:
            loops.append(nd)
        if isinstance(nd, (ast.FunctionDef, ast.AsyncFunctionDef, ast.Lambda, ast.ClassDef)):
            fn = nd
            break
    if len(loops) != 1 or not isinstance(fn, ast.FunctionDef):
        return None
    it = loops[0].iter
    if not (isinstance(it, (ast.Tuple, ast.List)) and it.elts
            and all(isinstance(x, ast.Constant) and isinstance(x.value, str) for x in it.elts)):
        return None
    stores = sum(1 for x in ast.walk(fn)
                 if (isinstance(x, ast.Name) and x.id == a.id and not isinstance(x.ctx, ast.Load))
                 or (isinstance(x, ast.arg) and x.arg == a.id)
                 or (isinstance(x, (ast.Global, ast.Nonlocal)) and a.id in x.names))
    if stores != 1:
        return None
    return [x.value for x in it.elts]


REFLECTIVE = {
    "__setattr__", "__delattr__", "__set__", "__delete__", "__dict__",
    "__setstate__", "__getstate__", "__reduce__", "__reduce_ex__",
    "__getattr__", "__getattribute__", "__new__", "__del__",
    "__init_subclass__", "__set_name__", "__setitem__", "__delitem__",
    "__copy__", "__deepcopy__", "__enter__", "__exit__",
    "vars", "exec", "eval", "globals", "locals", "delattr", "ctypes",
    "__class_getitem__", "__prepare__", "__instancecheck__",
    "__subclasscheck__", "_getframe", "gc",
}
# augmented-assignment dunders would change the meaning of `x._a += v`
INPLACE = {"__iadd__", "__isub__", "__imul__", "__ifloordiv__", "__itruediv__",
           "__imod__", "__ipow__", "__iand__", "__ior__", "__ixor__",
           "__ilshift__", "__irshift__", "__imatmul__"}

BINOP = {ast.Add: "add", ast.Sub: "sub", ast.Mult: "mul", ast.Div: "truediv",
         ast.FloorDiv: "floordiv", ast.Mod: "mod", ast.Pow: "pow",
         ast.LShift: "lshift", ast.RShift: "rshift", ast.BitOr: "or",
         ast.BitAnd: "and", ast.BitXor: "xor", ast.MatMult: "matmul"}
CMPOP = {ast.Lt: ("__lt__", "__gt__"), ast.Gt: ("__gt__", "__lt__"),
         ast.LtE: ("__le__", "__ge__"), ast.GtE: ("__ge__", "__le__"),
         ast.Eq: ("__eq__", "__eq__"), ast.NotEq: ("__ne__", "__ne__")}
UNOP = {ast.USub: "__neg__", ast.UAdd: "__pos__", ast.Invert: "__invert__"}

BUILTIN_TYPES = (str, bytes, int, float, bool, list, tuple, dict, set,
                 frozenset, type(None), range, type(iter([])), complex)


def builtin_method_names():
    names = set()
    for t in BUILTIN_TYPES:
        names.update(dir(t))
    return names


# --------------------------------------------------------------------------
# package-wide scans
# --------------------------------------------------------------------------
def package_modules():
    out = []
    for f in sorted(os.listdir(SRC)):
        if f.endswith(".py"):
            with open(os.path.join(SRC, f)) as fh:
                out.append((f, ast.parse(fh.read())))
    return out


def class_defs(tree):
    return [n for n in ast.walk(tree) if isinstance(n, ast.ClassDef)]


def literal_str_list(node, known):
    """`["_a", "_b"]` or `[*Other.__slots__, "_c"]`."""
    if not isinstance(node, (ast.List, ast.Tuple)):
        raise Reject("__slots__ is not a list/tuple display")
    out = []
    for e in node.elts:
        if isinstance(e, ast.Constant) and isinstance(e.value, str):
            out.append(e.value)
        elif (isinstance(e, ast.Starred) and isinstance(e.value, ast.Attribute)
              and e.value.attr == "__slots__"
              and isinstance(e.value.value, ast.Name)
              and e.value.value.id in known):
            out.extend(known[e.value.value.id])
        else:
            raise Reject("__slots__ element not understood: " + ast.unparse(e))
    return out


class ClassInfo:
    def __init__(self, node):
        self.node = node
        self.name = node.name
        self.methods = {}      # name -> FunctionDef (plain methods)
        self.props = {}        # name -> FunctionDef (property getters)
        self.removed = set()   # names masked by `name = property(doc=..)`
        self.slots = None
        self.bases = []


def read_classes(tree):
    infos = {}
    slots_known = {}
    for node in tree.body:
        if not (isinstance(node, ast.ClassDef) and node.name in CLASSES):
            continue
        ci = ClassInfo(node)
        if node.keywords or node.decorator_list:
            raise Reject("class %s: metaclass/keywords/decorators" % node.name)
        for b in node.bases:
            if isinstance(b, ast.Name) and b.id in CLASSES:
                ci.bases.append(b.id)
            else:
                raise Reject("class %s: base %s is not one of the four classes"
                             % (node.name, ast.unparse(b)))
        for s in node.body:
            if isinstance(s, ast.Expr) and isinstance(s.value, ast.Constant) \
                    and isinstance(s.value.value, str):
                continue
            if isinstance(s, ast.FunctionDef):
                decs = [ast.unparse(d) for d in s.decorator_list]
                if decs == []:
                    if s.name in ci.methods or s.name in ci.props:
                        raise Reject("%s.%s defined twice" % (ci.name, s.name))
                    ci.methods[s.name] = s
                elif decs == ["staticmethod"]:
                    # no receiver: every parameter is an unknown value (`any`); give it an unused receiver slot so
                    # that it is a method like the others (calls self.f(..) / C.f(..) then bind nothing to it)
                    if s.name in ci.methods or s.name in ci.props:
                        raise Reject("%s.%s defined twice" % (ci.name, s.name))
                    import copy
                    s2 = copy.deepcopy(s)
                    s2.decorator_list = []
                    s2.args.args.insert(0, ast.arg(arg="__static_receiver__"))
                    for n in ast.walk(s2):
                        if isinstance(n, ast.Name) and n.id == "__static_receiver__":
                            raise Reject("%s.%s: reserved name" % (ci.name, s.name))
                    ci.methods[s.name] = ast.fix_missing_locations(s2)
                elif decs == ["property"]:
                    if s.name.startswith("_"):
                        raise Reject("private property %s.%s" % (ci.name, s.name))
                    if s.name in ci.methods or s.name in ci.props:
                        raise Reject("%s.%s defined twice" % (ci.name, s.name))
                    ci.props[s.name] = s
                else:
                    raise Reject("%s.%s: decorator %s" % (ci.name, s.name, decs))
                continue
            if isinstance(s, ast.Assign) and len(s.targets) == 1 \
                    and isinstance(s.targets[0], ast.Name):
                tgt = s.targets[0].id
                if tgt == "__slots__":
                    ci.slots = literal_str_list(s.value, slots_known)
                    continue
                v = s.value
                if (isinstance(v, ast.Call) and isinstance(v.func, ast.Name)
                        and v.func.id == "property" and not v.args
                        and all(k.arg == "doc" for k in v.keywords)):
                    ci.removed.add(tgt)      # attribute made unavailable
                    continue
            raise Reject("class %s: unsupported class-level statement: %s"
                         % (ci.name, ast.unparse(s)[:70]))
        if ci.slots is None:
            raise Reject("class %s has no __slots__ (instances would carry a __dict__)" % ci.name)
        slots_known[ci.name] = ci.slots
        infos[ci.name] = ci
    for c in CLASSES:
        if c not in infos:
            raise Reject("class %s not found in data.py" % c)
    return infos


def scan_foreign(mods, infos):
    """Refuse reflective identifiers anywhere, and any attribute store to a
    slot name / setattr outside the bodies of the four classes."""
    allslots = set()
    allnames = set()
    problems = []
    for ci in infos.values():
        allslots.update(ci.slots)
        allnames.update(ci.methods)
        allnames.update(ci.props)
        for sl in ci.slots:
            if not sl.startswith("_") or sl.startswith("__"):
                problems.append("class %s: slot name %s" % (ci.name, sl))
    for fname, tree in mods:
        own = set()
        if fname == "data.py":
            for ci in infos.values():
                for n in ast.walk(ci.node):
                    own.add(id(n))
        for n in ast.walk(tree):
            ident = None
            if isinstance(n, ast.Name):
                ident = n.id
            elif isinstance(n, ast.Attribute):
                ident = n.attr
            elif isinstance(n, ast.FunctionDef):
                ident = n.name
            elif isinstance(n, ast.alias):
                ident = n.name.split(".")[0]
            if ident in REFLECTIVE or (ident in INPLACE):
                problems.append("%s:%d uses %s" % (fname, getattr(n, "lineno", 0), ident))
            if id(n) in own:
                continue
            if isinstance(n, ast.Attribute) and isinstance(n.ctx, (ast.Store, ast.Del)) \
                    and (n.attr in allslots or n.attr in ("__class__", "__slots__")):
                problems.append("%s:%d writes attribute %s outside the four classes"
                                % (fname, n.lineno, n.attr))
            if isinstance(n, ast.Name) and n.id == "setattr":
                names = static_setattr_names(tree, n)
                if names is None or any(x in allslots or x in ("__class__", "__slots__") for x in names):
                    problems.append("%s:%d setattr outside the four classes" % (fname, n.lineno))
            if isinstance(n, ast.Attribute) and isinstance(n.ctx, (ast.Store, ast.Del)) and (
                    (isinstance(n.value, ast.Name) and n.value.id in CLASSES) or
                    (isinstance(n.value, ast.Attribute) and n.value.attr in CLASSES)):
                problems.append("%s:%d assigns attribute %s of one of the four classes"
                                % (fname, n.lineno, n.attr))
            if isinstance(n, ast.ClassDef) and any(
                    isinstance(x, (ast.Name, ast.Attribute)) and
                    (x.id if isinstance(x, ast.Name) else x.attr) in CLASSES
                    for b in n.bases for x in ast.walk(b)):
                problems.append("%s:%d class %s derives from one of the four classes"
                                % (fname, n.lineno, n.name))
            if isinstance(n, ast.Assign):
                for t in n.targets:
                    if isinstance(t, ast.Name) and t.id == "__slots__":
                        problems.append("%s:%d __slots__ assigned" % (fname, n.lineno))
    return problems


def outside_private_uses(mods, infos, names):
    """Private method names of the four classes that code outside their
    bodies mentions as an attribute (x._name): callable from outside."""
    used = set()
    for fname, tree in mods:
        own = set()
        if fname == "data.py":
            for ci in infos.values():
                for n in ast.walk(ci.node):
                    own.add(id(n))
        for n in ast.walk(tree):
            if id(n) in own:
                continue
            if isinstance(n, ast.Attribute) and n.attr in names and n.attr.startswith("_"):
                used.add(n.attr)
            if isinstance(n, ast.Constant) and isinstance(n.value, str) and \
                    n.value in names and n.value.startswith("_"):
                used.add(n.value)      # getattr(x, "_name")
    return used


def foreign_method_names(mods):
    names = set()
    for fname, tree in mods:
        for cd in class_defs(tree):
            if fname == "data.py" and cd.name in CLASSES:
                continue
            for s in cd.body:
                if isinstance(s, ast.FunctionDef):
                    names.add(s.name)
    return names


# --------------------------------------------------------------------------
# method bodies -> IR
# --------------------------------------------------------------------------
def assigned_names(nodes):
    """Names bound by assignment/for targets in a list of statements (not
    descending into comprehensions, which have their own scope)."""
    out = set()

    def walk(n):
        if isinstance(n, (ast.ListComp, ast.SetComp, ast.DictComp, ast.GeneratorExp)):
            return
        if isinstance(n, ast.Name) and isinstance(n.ctx, ast.Store):
            out.add(n.id)
        for c in ast.iter_child_nodes(n):
            walk(c)
    for n in nodes:
        walk(n)
    return out


class Ctx:
    def __init__(self, infos, foreign, builtin):
        self.infos = infos
        self.method_names = set()
        self.prop_names = set()
        for ci in infos.values():
            self.method_names.update(ci.methods)
            self.prop_names.update(ci.props)
        self.callable_names = self.method_names | self.prop_names
        both = self.method_names & self.prop_names
        if both:
            raise Reject("names used both as method and property: %s" % sorted(both))
        self.ambiguous = (self.method_names & foreign) | (self.method_names & builtin)
        self.container_writes = []


class MethodTr:
    def __init__(self, ctx, cls, fn):
        self.ctx = ctx
        self.cls = cls
        self.fn = fn
        self.where = "%s.%s" % (cls, fn.name)
        self.nvars = 1
        self.cur = {}
        self.loops = []        # stack of dict name -> head var

    def rej(self, node, msg):
        raise Reject("%s line %d: %s" % (self.where, getattr(node, "lineno", 0), msg))

    def new(self):
        v = self.nvars
        self.nvars += 1
        return v

    # ---- top level ----
    def translate(self):
        a = self.fn.args
        if a.posonlyargs:
            self.rej(self.fn, "positional-only parameters")
        if not a.args:
            self.rej(self.fn, "method without receiver parameter")
        out = []
        self.P = self.new()
        self.G = self.new()
        out.append(("prim", self.P))       # P: holds primitive (non-object) values
        out.append(("any", self.G))        # G: holds values of globals
        self.cur[a.args[0].arg] = 0
        params = [x.arg for x in a.args[1:]] + [x.arg for x in a.kwonlyargs]
        if a.vararg:
            params.append(a.vararg.arg)
        if a.kwarg:
            params.append(a.kwarg.arg)
        for d in list(a.defaults) + [k for k in a.kw_defaults if k is not None]:
            ok = isinstance(d, ast.Constant) or (
                isinstance(d, ast.UnaryOp) and isinstance(d.operand, ast.Constant))
            if not ok:
                self.rej(d, "non-constant default value")
        for p in params:
            v = self.new()
            out.append(("any", v))
            self.cur[p] = v
        for n in ast.walk(self.fn):
            if isinstance(n, (ast.Global, ast.Nonlocal, ast.Lambda, ast.Await,
                              ast.YieldFrom, ast.NamedExpr, ast.Try, ast.With,
                              ast.AsyncFor, ast.AsyncWith, ast.AsyncFunctionDef,
                              ast.ClassDef, ast.Import, ast.ImportFrom)) or \
                    (isinstance(n, ast.FunctionDef) and n is not self.fn) or \
                    type(n).__name__ in ("Match", "TryStar"):
                self.rej(n, "unsupported construct %s" % type(n).__name__)
        self.block(self.fn.body, out)
        return out

    # ---- statements ----
    def block(self, stmts, out):
        for s in stmts:
            self.stmt(s, out)

    def bind(self, name, v, out):
        nv = self.new()
        out.append(("alias", nv, v))
        self.cur[name] = nv

    def merge(self, base, branches):
        """branches: list of (out, cur).  Adds alias copies so that all
        branches agree on one variable per name; returns merged cur."""
        names = set()
        for _, c in branches:
            names.update(c)
        merged = {}
        for n in sorted(names):
            vs = [c.get(n) for _, c in branches]
            if all(v == vs[0] for v in vs):
                merged[n] = vs[0]
                continue
            k = self.new()
            for (o, c) in branches:
                if c.get(n) is not None:
                    o.append(("alias", k, c[n]))
                else:
                    o.append(("alias", k, self.P))   # unbound on this path
            merged[n] = k
        return merged

    def assign_target(self, t, v, out):
        if isinstance(t, ast.Name):
            self.bind(t.id, v, out)
        elif isinstance(t, ast.Attribute):
            if not isinstance(t.value, ast.Name) or t.value.id not in self.cur:
                self.rej(t, "attribute write through a non-local receiver: " + ast.unparse(t))
            out.append(("store", self.cur[t.value.id], v))
        elif isinstance(t, ast.Subscript):
            if not isinstance(t.value, ast.Name):
                self.rej(t, "subscript write through a non-name: " + ast.unparse(t))
            self.expr(t.slice, out)
            self.ctx.container_writes.append("%s line %d: %s[...]" % (self.where, t.lineno, t.value.id))
        elif isinstance(t, (ast.Tuple, ast.List)):
            for e in t.elts:
                if isinstance(e, ast.Starred):
                    self.rej(t, "starred assignment target")
                a = self.new()
                out.append(("any", a))         # an element of the unpacked value
                self.assign_target(e, a, out)
        else:
            self.rej(t, "assignment target " + type(t).__name__)

    def check_stored_value(self, node, value):
        """A slot must not be given a mutable container built in place."""
        for t in (node.targets if isinstance(node, ast.Assign) else [node.target]):
            has_attr = any(isinstance(x, ast.Attribute) and isinstance(x.ctx, ast.Store)
                           for x in ast.walk(t))
            if has_attr and isinstance(value, (ast.List, ast.Dict, ast.Set, ast.ListComp,
                                               ast.DictComp, ast.SetComp, ast.GeneratorExp)):
                self.rej(node, "mutable container stored into a slot")

    def stmt(self, s, out):
        if isinstance(s, ast.Expr):
            if isinstance(s.value, ast.Yield):
                v = self.expr(s.value.value, out) if s.value.value is not None else self.P
                out.append(("if", [("ret", v)], []))
                # the generator is suspended here and the client goes on with
                # other operations: whatever the locals hold is, from now on,
                # a pre-existing value (never again "fresh")
                for n in sorted(self.cur):
                    if self.cur[n] not in (0, self.P, self.G):
                        a = self.new()
                        out.append(("any", a))
                        self.bind(n, a, out)
            elif isinstance(s.value, ast.Constant):
                pass
            else:
                self.expr(s.value, out)
        elif isinstance(s, ast.Assign):
            self.check_stored_value(s, s.value)
            v = self.expr(s.value, out)
            for t in s.targets:
                self.assign_target(t, v, out)
        elif isinstance(s, ast.AnnAssign):
            if s.value is not None:
                self.check_stored_value(s, s.value)
                v = self.expr(s.value, out)
                self.assign_target(s.target, v, out)
        elif isinstance(s, ast.AugAssign):
            t = s.target
            if isinstance(t, ast.Name):
                if t.id not in self.cur:
                    self.rej(s, "augmented assignment to a non-local name")
                r = self.binop(self.cur[t.id], self.expr(s.value, out), BINOP[type(s.op)], out)
                self.bind(t.id, r, out)
            elif isinstance(t, ast.Attribute):
                if not isinstance(t.value, ast.Name) or t.value.id not in self.cur:
                    self.rej(t, "attribute write through a non-local receiver: " + ast.unparse(t))
                x = self.cur[t.value.id]
                old = self.load_attr(x, t.attr, out)
                r = self.binop(old, self.expr(s.value, out), BINOP[type(s.op)], out)
                out.append(("store", x, r))
            elif isinstance(t, ast.Subscript) and isinstance(t.value, ast.Name):
                self.expr(t.slice, out)
                self.expr(s.value, out)
                self.ctx.container_writes.append("%s line %d: %s[...]" % (self.where, t.lineno, t.value.id))
            else:
                self.rej(s, "augmented assignment target")
        elif isinstance(s, ast.Return):
            v = self.expr(s.value, out) if s.value is not None else self.P
            out.append(("ret", v))
        elif isinstance(s, ast.Raise):
            if s.exc is not None:
                self.expr(s.exc, out)
            if s.cause is not None:
                self.expr(s.cause, out)
            out.append(("abort",))
        elif isinstance(s, ast.Assert):
            self.truth(self.expr(s.test, out), out)
            if s.msg is not None:
                self.expr(s.msg, out)
        elif isinstance(s, ast.Pass):
            pass
        elif isinstance(s, ast.If):
            self.truth(self.expr(s.test, out), out)
            oa, ob = [], []
            saved = dict(self.cur)
            self.block(s.body, oa)
            ca = self.cur
            self.cur = dict(saved)
            self.block(s.orelse, ob)
            cb = self.cur
            self.cur = self.merge(saved, [(oa, ca), (ob, cb)])
            out.append(("if", oa, ob))
        elif isinstance(s, (ast.While, ast.For)):
            self.loop(s, out)
        elif isinstance(s, (ast.Break, ast.Continue)):
            if not self.loops:
                self.rej(s, "break/continue outside a loop")
            for n, k in self.loops[-1].items():
                if self.cur.get(n) is not None and self.cur[n] != k:
                    out.append(("alias", k, self.cur[n]))
            out.append(("jump",))
        elif isinstance(s, ast.Delete):
            for t in s.targets:
                if not isinstance(t, ast.Name):
                    self.rej(s, "del of an attribute or item")
        else:
            self.rej(s, "unsupported statement %s" % type(s).__name__)

    def loop(self, s, out):
        if isinstance(s, ast.For):
            it = self.expr(s.iter, out)
            if it != self.P:
                self.opt_call(it, "__iter__", out)
            names = assigned_names([s.target] + s.body)
        else:
            names = assigned_names(s.body)
        heads = {}
        for n in sorted(names):
            k = self.new()
            out.append(("alias", k, self.cur.get(n, self.P)))
            heads[n] = k
            self.cur[n] = k
        self.loops.append(heads)
        body = []
        if isinstance(s, ast.For):
            e = self.new()
            body.append(("any", e))            # an element of the iterable
            self.assign_target(s.target, e, body)
        else:
            self.truth(self.expr(s.test, body), body)
        self.block(s.body, body)
        for n, k in heads.items():
            if self.cur[n] != k:
                body.append(("alias", k, self.cur[n]))
        self.loops.pop()
        for n, k in heads.items():
            self.cur[n] = k
        out.append(("loop", body))
        if isinstance(s, ast.While):
            self.truth(self.expr(s.test, out), out)
        if s.orelse:
            oa = []
            saved = dict(self.cur)
            self.block(s.orelse, oa)
            ca = self.cur
            ob = []
            self.cur = self.merge(saved, [(oa, ca), (ob, dict(saved))])
            out.append(("if", oa, ob))

    # ---- expressions ----
    def opt_call(self, recv, name, out, res=None):
        """`maybe call name on recv` when one of the four classes defines it."""
        if name in self.ctx.callable_names and recv != self.P:
            r = res if res is not None else self.new()
            out.append(("if", [("call", r, name, recv)], []))
            return r
        return None

    def truth(self, v, out):
        if v != self.P:
            if self.opt_call(v, "__bool__", out) is None:
                self.opt_call(v, "__len__", out)

    def binop(self, a, b, opname, out):
        if a == self.P and b == self.P:
            return self.P
        r = self.new()
        out.append(("prim", r))
        self.opt_call(a, "__%s__" % opname, out, r)
        self.opt_call(b, "__r%s__" % opname, out, r)
        return r

    def load_attr(self, base, attr, out):
        if base == self.P:
            return self.P
        t = self.new()
        out.append(("any", t))                 # the value of a slot / foreign attribute
        if attr in self.ctx.prop_names:
            out.append(("if", [("call", t, attr, base)], []))
        elif attr in self.ctx.method_names:
            raise Reject("%s: bound method %s taken as a value" % (self.where, attr))
        return t

    def call_args(self, node, out):
        for a in node.args:
            self.expr(a.value if isinstance(a, ast.Starred) else a, out)
        for k in node.keywords:
            self.expr(k.value, out)

    def ext(self, out):
        t = self.new()
        out.append(("loop", [("ext", t)]))
        out.append(("any", t))
        return t

    def expr(self, e, out):
        if isinstance(e, ast.Constant):
            return self.P
        if isinstance(e, ast.Name):
            if e.id in self.cur:
                return self.cur[e.id]
            if e.id in CLASSES:
                return self.P
            return self.G
        if isinstance(e, ast.Attribute):
            if e.attr == "__class__":
                self.expr(e.value, out)
                return self.P
            return self.load_attr(self.expr(e.value, out), e.attr, out)
        if isinstance(e, ast.Call):
            return self.call(e, out)
        if isinstance(e, ast.BinOp):
            a = self.expr(e.left, out)
            b = self.expr(e.right, out)
            return self.binop(a, b, BINOP[type(e.op)], out)
        if isinstance(e, ast.UnaryOp):
            a = self.expr(e.operand, out)
            if isinstance(e.op, ast.Not):
                self.truth(a, out)
                return self.P
            if a == self.P:
                return self.P
            r = self.new()
            out.append(("prim", r))
            self.opt_call(a, UNOP[type(e.op)], out, r)
            return r
        if isinstance(e, ast.BoolOp):
            vs = [self.expr(e.values[0], out)]
            self.truth(vs[0], out)
            for v in e.values[1:]:
                inner = []           # short circuit: evaluated conditionally
                x = self.expr(v, inner)
                self.truth(x, inner)
                out.append(("if", inner, []))
                vs.append(x)
            if all(v == self.P for v in vs):
                return self.P
            r = self.new()
            for v in vs:
                out.append(("alias", r, v))
            return r
        if isinstance(e, ast.Compare):
            left = self.expr(e.left, out)
            for op, right in zip(e.ops, e.comparators):
                rv = self.expr(right, out)
                if isinstance(op, (ast.Is, ast.IsNot)):
                    pass
                elif isinstance(op, (ast.In, ast.NotIn)):
                    if not (left == self.P and isinstance(right, (ast.List, ast.Tuple)) and
                            all(isinstance(x, ast.Constant) for x in right.elts)):
                        self.ext(out)     # container protocol: __contains__/__eq__/__hash__
                else:
                    a, b = CMPOP[type(op)]
                    if not (left == self.P and rv == self.P):
                        t = self.new()
                        out.append(("prim", t))
                        for nm, who in ((a, left), (b, rv)):
                            self.opt_call(who, nm, out, t)
                            if nm == "__ne__":
                                self.opt_call(who, "__eq__", out, t)
                        self.truth(t, out)
                        # containers compare element-wise through the public
                        # protocol of their elements
                        self.ext(out)
                left = rv
            return self.P
        if isinstance(e, ast.IfExp):
            self.truth(self.expr(e.test, out), out)
            oa, ob = [], []
            a = self.expr(e.body, oa)
            b = self.expr(e.orelse, ob)
            r = self.new()
            oa.append(("alias", r, a))
            ob.append(("alias", r, b))
            out.append(("if", oa, ob))
            return r
        if isinstance(e, (ast.Tuple, ast.List, ast.Set)):
            for x in e.elts:
                self.expr(x.value if isinstance(x, ast.Starred) else x, out)
            return self.P                      # a container: elements are re-read as `any`
        if isinstance(e, ast.Dict):
            for k in e.keys:
                if k is not None:
                    kv = self.expr(k, out)
                    if kv != self.P:
                        self.ext(out)          # hashing of a key
            for x in e.values:
                self.expr(x, out)
            return self.P
        if isinstance(e, ast.Subscript):
            b = self.expr(e.value, out)
            self.expr(e.slice, out)
            if b == self.P:
                return self.P
            t = self.new()
            out.append(("any", t))
            self.opt_call(b, "__getitem__", out, t)
            return t
        if isinstance(e, ast.Slice):
            for x in (e.lower, e.upper, e.step):
                if x is not None:
                    self.expr(x, out)
            return self.P
        if isinstance(e, ast.JoinedStr):
            for x in e.values:
                if isinstance(x, ast.FormattedValue):
                    if self.expr(x.value, out) != self.P:
                        self.ext(out)
            return self.P
        if isinstance(e, (ast.ListComp, ast.SetComp, ast.GeneratorExp, ast.DictComp)):
            saved = dict(self.cur)
            inner = out
            closers = []
            for g in e.generators:
                if g.is_async:
                    self.rej(e, "async comprehension")
                it = self.expr(g.iter, inner)
                if it != self.P:
                    self.opt_call(it, "__iter__", inner)
                body = []
                el = self.new()
                body.append(("any", el))
                self.assign_target(g.target, el, body)
                for c in g.ifs:
                    self.truth(self.expr(c, body), body)
                closers.append((inner, body))
                inner = body
            if isinstance(e, ast.DictComp):
                if self.expr(e.key, inner) != self.P:
                    self.ext(inner)
                self.expr(e.value, inner)
            else:
                self.expr(e.elt, inner)
            for parent, body in reversed(closers):
                parent.append(("loop", body))
            self.cur = saved
            return self.P
        self.rej(e, "unsupported expression %s" % type(e).__name__)

    def call(self, e, out):
        f = e.func
        # constructors of the four classes, incl. self.__class__(...)
        is_ctor = (isinstance(f, ast.Name) and f.id in CLASSES and f.id not in self.cur) or \
                  (isinstance(f, ast.Attribute) and f.attr == "__class__")
        if is_ctor:
            if isinstance(f, ast.Attribute):
                self.expr(f.value, out)
            self.call_args(e, out)
            t = self.new()
            d = self.new()
            out.append(("new", t))
            out.append(("call", d, "__init__", t))
            return t
        if isinstance(f, ast.Name) and f.id not in self.cur:
            if f.id == "setattr":
                if len(e.args) != 3 or e.keywords or not isinstance(e.args[0], ast.Name) \
                        or e.args[0].id not in self.cur:
                    self.rej(e, "setattr with a non-local receiver")
                self.expr(e.args[1], out)
                v = self.expr(e.args[2], out)
                out.append(("store", self.cur[e.args[0].id], v))
                return self.P
            if f.id == "getattr":
                if len(e.args) not in (2, 3) or e.keywords:
                    self.rej(e, "getattr shape")
                b = self.expr(e.args[0], out)
                nm = e.args[1]
                for extra in e.args[2:]:
                    self.expr(extra, out)
                if isinstance(nm, ast.Constant) and isinstance(nm.value, str):
                    if nm.value in self.ctx.method_names and nm.value not in self.ctx.prop_names:
                        self.rej(e, "method %s fetched with getattr" % nm.value)
                    return self.load_attr(b, nm.value, out)
                self.expr(nm, out)
                if b == self.P:
                    return self.P
                # unknown attribute name: a slot, or any (public) property
                return self.ext(out)
            if f.id == "callable" and len(e.args) == 1 and not e.keywords and \
                    isinstance(e.args[0], ast.Call) and isinstance(e.args[0].func, ast.Name) and \
                    e.args[0].func.id == "getattr" and len(e.args[0].args) in (2, 3) and \
                    isinstance(e.args[0].args[1], ast.Constant):
                # callable(getattr(x, "name", default)): the attribute is only tested
                self.expr(e.args[0].args[0], out)
                return self.P
            if f.id in ("isinstance", "callable", "type", "id", "issubclass"):
                self.call_args(e, out)
                return self.P
            if f.id in ("super", "property", "object", "classmethod", "staticmethod",
                        "compile", "__import__", "open", "input", "memoryview"):
                self.rej(e, "call of %s" % f.id)
            # any other builtin or module-level function: it can only go
            # through the public protocol of the values it receives
            self.call_args(e, out)
            return self.ext(out)
        if isinstance(f, ast.Attribute) and isinstance(f.value, ast.Name) and \
                f.value.id in CLASSES and f.value.id not in self.cur:
            # C.m(x, ...): the receiver is the first argument
            m = f.attr
            if m not in self.ctx.method_names or not e.args or isinstance(e.args[0], ast.Starred):
                self.rej(e, "class-qualified call " + ast.unparse(f))
            recv = self.expr(e.args[0], out)
            self.call_args(e, out)
            t = self.new()
            out.append(("call", t, m, recv))
            return t
        if isinstance(f, ast.Attribute):
            m = f.attr
            recv = self.expr(f.value, out)
            self.call_args(e, out)
            if m in self.ctx.prop_names:
                self.rej(e, "property %s called like a method" % m)
            if m in self.ctx.method_names and recv != self.P:
                t = self.new()
                known = isinstance(f.value, ast.Name) and f.value.id in self.cur and \
                    self.cur[f.value.id] == 0
                if m in self.ctx.ambiguous and not known:
                    x = self.new()
                    out.append(("if", [("call", t, m, recv)],
                                [("loop", [("ext", x)]), ("any", t)]))
                else:
                    out.append(("call", t, m, recv))
                return t
            return self.ext(out)
        # callee is a computed value (e.g. a table of operators)
        if not isinstance(f, (ast.Subscript, ast.Name)):
            self.rej(e, "call of a computed callee " + type(f).__name__)
        self.expr(f, out)
        self.call_args(e, out)
        return self.ext(out)


# --------------------------------------------------------------------------
# output
# --------------------------------------------------------------------------
def pp(stmts, ind):
    pad = " " * ind
    if not stmts:
        return "SSkip"
    items = []
    for s in stmts:
        k = s[0]
        if k == "new":
            items.append("SNew %d" % s[1])
        elif k == "alias":
            items.append("SAlias %d %d" % (s[1], s[2]))
        elif k == "any":
            items.append("SAny %d" % s[1])
        elif k == "prim":
            items.append("SPrim %d" % s[1])
        elif k == "write":
            items.append("SWrite %d" % s[1])
        elif k == "store":
            items.append("SStore %d %d" % (s[1], s[2]))
        elif k == "call":
            items.append("SCall %d %s %d" % (s[1], coq_str(s[2]), s[3]))
        elif k == "ext":
            items.append("SExt %d" % s[1])
        elif k == "ret":
            items.append("SReturn %d" % s[1])
        elif k == "jump":
            items.append("SJump")
        elif k == "abort":
            items.append("SAbort")
        elif k == "if":
            items.append("SIf (%s)\n%s    (%s)" % (pp(s[1], ind + 4), pad, pp(s[2], ind + 4)))
        elif k == "loop":
            items.append("SLoop (%s)" % pp(s[1], ind + 4))
        else:
            raise Reject("internal: IR node " + k)
    if len(items) == 1:
        return items[0]
    return "block [" + (";\n" + pad + " ").join(items) + "]"


def count(stmts):
    n = 0
    for s in stmts:
        n += 1
        if s[0] == "if":
            n += count(s[1]) + count(s[2])
        elif s[0] == "loop":
            n += count(s[1])
    return n


HEAD = ("(* GENERATED by tools/translate_effects.py from metomi/isodatetime/*.py"
        " (classes TimePoint, Duration, TimeZone, TimeRecurrence). Do not edit. *)\n"
        "From Coq Require Import List String.\n"
        "From Iso Require Import Spec.EffectIR.\n"
        "Import ListNotations.\nOpen Scope string_scope.\n\n")


def comment(s):
    return "(* " + s.replace("(*", "( *").replace("*)", "* )") + " *)"


def build_text():
    mods = package_modules()
    data_tree = dict(mods)["data.py"]
    infos = read_classes(data_tree)
    problems = scan_foreign(mods, infos)
    if problems:
        raise Reject("; ".join(problems[:6]))
    ctx = Ctx(infos, foreign_method_names(mods), builtin_method_names())
    outside = outside_private_uses(mods, infos, ctx.callable_names)
    body = []
    entries = []
    seen_idents = set()
    total = 0
    for cname in CLASSES:
        ci = infos[cname]
        for kind, table in (("method", ci.methods), ("property", ci.props)):
            for name, fn in table.items():
                tr = MethodTr(ctx, cname, fn)
                ir = tr.translate()
                total += count(ir)
                # no double underscores in Coq identifiers (reserved by extraction)
                mangled = name.replace("__", "X")
                if mangled.startswith("_"):
                    mangled = "p" + mangled[1:]
                ident = "m_%s_%s" % (cname, mangled)
                if ident in seen_idents or "__" in ident:
                    raise Reject("identifier clash for %s.%s" % (cname, name))
                seen_idents.add(ident)
                body.append(comment("%s.%s (%s, data.py line %d)" % (cname, name, kind, fn.lineno)))
                body.append("Definition %s : stmt :=\n  %s.\n" % (ident, pp(ir, 2)))
                entries.append("mkEntry %s %s %d %s %s" % (
                    coq_str(cname), coq_str(name), tr.nvars,
                    "true" if name in outside else "false", ident))
    out = [HEAD]
    out.append(comment("slots: " + "; ".join("%s = %s" % (c, " ".join(infos[c].slots)) for c in CLASSES)))
    out.append(comment("inheritance: " + "; ".join("%s(%s)" % (c, ",".join(infos[c].bases)) for c in CLASSES)
                       + "; masked: " + "; ".join("%s.%s" % (c, n) for c in CLASSES for n in sorted(infos[c].removed))))
    out.append(comment("method names also defined by other classes of the package or by builtin types "
                       "(calls on receivers other than self are translated as `own method or external`): "
                       + " ".join(sorted(ctx.ambiguous))))
    out.append(comment("private names used by the package outside the four classes (e_ext): "
                       + " ".join(sorted(outside))))
    out.append(comment("item writes into named local/global containers (not objects of the four classes): "
                       + "; ".join(ctx.container_writes)))
    out.append(comment("%d methods, %d IR statements" % (len(entries), total)))
    out.append("")
    out.extend(body)
    out.append("Definition table : list entry :=\n  [ " + ";\n    ".join(entries) + " ].\n")
    out.append("Definition translator_ok_effects : bool := true.")
    return "\n".join(out) + "\n"


def gen_effects():
    try:
        text = build_text()
    except (Reject, KeyError, TypeError, ValueError, SyntaxError, OSError) as exc:
        text = HEAD + comment("REJECTED: %s: %s" % (type(exc).__name__, exc)) + \
            "\nDefinition table : list entry := [].\n" \
            "Definition translator_ok_effects : bool := false.\n"
    outdir = os.environ.get("EFFECTS_OUT")
    if outdir:
        path = os.path.join(outdir, "Effects.v")
        old = open(path).read() if os.path.exists(path) else None
        if old != text:
            with open(path, "w") as fh:
                fh.write(text)
            return True
        return False
    return write_if_changed("Effects.v", text)


if __name__ == "__main__":
    print("translate_effects: %s" % ("regenerated Effects.v" if gen_effects() else "Effects.v unchanged"))
