#!/bin/bash
# Demonstration for gen/GenCode2.v (phase 2 of GenCode): harmless rewrites of the
# day-walking helpers of data.py are re-translated and re-proved by the unchanged
# proof scripts; breaking edits make an obligation fail.
# Works on scratch copies only (/tmp/gencode2_repo, /tmp/gencode2_coq); neither
# /repo nor /verif/coq is written.
# Usage: tools/gencode2_mutants.sh            all experiments
#        tools/gencode2_mutants.sh NAME...    only the named ones
set -u
TOOLS="$(cd "$(dirname "$0")" && pwd)"
COQ="$TOOLS/../coq"
NOTES="$TOOLS/../notes"
REPO_SCRATCH=/tmp/gencode2_repo
COQ_SCRATCH=/tmp/gencode2_coq
ulimit -v 8000000
REGEN="CalTables TablesOk GenCode GenCodeOk GenCode2 GenCode2Ok"

fresh_tree() {   # a Coq tree sharing every compiled file except the regenerated chain
  rm -rf "$COQ_SCRATCH"; mkdir -p "$COQ_SCRATCH/gen" "$COQ_SCRATCH/Proofs" "$COQ_SCRATCH/Props"
  for d in Spec Model; do ln -s "$COQ/$d" "$COQ_SCRATCH/$d"; done
  for f in "$COQ"/gen/*.vo "$COQ"/Proofs/*.vo; do
    b=$(basename "$f" .vo)
    case " $REGEN " in *" $b "*) ;; *) ln -s "$f" "$COQ_SCRATCH/${f#$COQ/}";; esac
  done
  cp "$COQ/Proofs/TablesOk.v" "$COQ/Proofs/GenCodeOk.v" "$COQ/Proofs/GenCode2Ok.v" "$COQ_SCRATCH/Proofs/"
  cp "$COQ/Props/C03Code.v" "$COQ_SCRATCH/Props/" 2>/dev/null
}

compile() {  # file
  local out
  if out=$(cd "$COQ_SCRATCH" && timeout 900 coqc -Q . Iso "$1" 2>&1); then
    echo "  $1: COMPILES"
    echo "$out" | grep -c "Closed under the global context" | sed 's/^/    Closed under the global context: /' | grep -v ': 0$'
    echo "$out" | grep -A3 "Axioms:" | head -5
    return 0
  else
    echo "  $1: FAILS"; echo "$out" | grep -v "^ *$" | head -8 | sed 's/^/    | /'
    return 1
  fi
}

prepare() {
  rm -rf "$REPO_SCRATCH"; cp -r /repo "$REPO_SCRATCH"
}

finish() {   # regenerate, compile the chain
  fresh_tree
  ISO_REPO="$REPO_SCRATCH" VERIF_GEN_OUT="$COQ_SCRATCH/gen" /venv/bin/python - <<EOF || exit 2
import sys
sys.path.insert(0, "$TOOLS")
import translate, translate_code, translate_code2
translate.gen_cal_tables(); translate_code.gen_code(); translate_code2.gen_code2()
EOF
  for g in GenCode GenCode2; do
    if diff -q "$COQ/gen/$g.v" "$COQ_SCRATCH/gen/$g.v" >/dev/null; then echo "  gen/$g.v: unchanged"
    else echo "  gen/$g.v: CHANGED ($(diff "$COQ/gen/$g.v" "$COQ_SCRATCH/gen/$g.v" | grep -c '^[<>]') diff lines)"; fi
  done
  grep -h "translator_ok_code2\? : bool" "$COQ_SCRATCH/gen/GenCode.v" "$COQ_SCRATCH/gen/GenCode2.v" | sed 's/^/  /'
  grep -h "^(\* REJECTED" "$COQ_SCRATCH/gen/GenCode2.v" | cut -c1-220 | sed 's/^/  /'
  [ -n "${KEEP:-}" ] && cp "$COQ_SCRATCH/gen/GenCode2.v" "/tmp/GenCode2.$KEEP.v"
  compile gen/CalTables.v && compile Proofs/TablesOk.v && compile gen/GenCode.v &&
    compile Proofs/GenCodeOk.v && compile gen/GenCode2.v && compile Proofs/GenCode2Ok.v &&
    { [ ! -f "$COQ_SCRATCH/Props/C03Code.v" ] || compile Props/C03Code.v; }
  rm -rf "$REPO_SCRATCH" "$COQ_SCRATCH"
}

edit() {  # old new  (exactly one occurrence in data.py)
  /venv/bin/python - "$REPO_SCRATCH/metomi/isodatetime/data.py" "$1" "$2" <<'EOF' || exit 2
import sys
path, old, new = sys.argv[1:]
s = open(path).read()
assert s.count(old) == 1, "expected exactly one occurrence of %r, found %d" % (old, s.count(old))
open(path, "w").write(s.replace(old, new))
EOF
}

want() { [ ${#SEL[@]} -eq 0 ] && return 0; for s in "${SEL[@]}"; do [ "$s" = "$1" ] && return 0; done; return 1; }
SEL=("$@")

if want control; then echo "=== control: no change (must compile)"; prepare; finish; fi

if want R2; then
  echo "=== rewrite R2: the clean-up refactor notes/refactors/R2.diff (enumerate(..., 1) in three loops,"
  echo "    sum(genexpr) in _get_weeks_in_year, merged if/else in _get_calendar_date_week_date_start, merged loops +"
  echo "    results.extend(genexpr) in _iter_months_days, list(enumerate(seq, 1)) in set_mode) (must compile)"
  prepare
  # hunk 1 (Calendar.set_mode) no longer applies textually to the pinned tree: it is redone by hand below
  (cd "$REPO_SCRATCH" && patch -p1 -s -f < "$NOTES/refactors/R2.diff" >/dev/null; rm -f metomi/isodatetime/data.py.rej metomi/isodatetime/data.py.orig)
  edit "        self.INDEXED_DAYS_IN_MONTHS = [
            (i + 1, days) for i, days in enumerate(self.DAYS_IN_MONTHS)]
        self.INDEXED_DAYS_IN_MONTHS_LEAP = [
            (i + 1, days) for i, days in enumerate(self.DAYS_IN_MONTHS_LEAP)]" "        self.INDEXED_DAYS_IN_MONTHS = list(enumerate(days_in_months, 1))
        self.INDEXED_DAYS_IN_MONTHS_LEAP = list(
            enumerate(days_in_months_leap, 1))"
  edit "self.MONTHS_IN_YEAR = len(self.DAYS_IN_MONTHS)" "self.MONTHS_IN_YEAR = len(days_in_months)"
  edit "self.DAYS_IN_YEAR = sum(self.DAYS_IN_MONTHS)" "self.DAYS_IN_YEAR = sum(days_in_months)"
  edit "self.DAYS_IN_YEAR_LEAP = sum(self.DAYS_IN_MONTHS_LEAP)" "self.DAYS_IN_YEAR_LEAP = sum(days_in_months_leap)"
  edit "self.MAX_DAYS_IN_MONTH = max(self.DAYS_IN_MONTHS)" "self.MAX_DAYS_IN_MONTH = max(days_in_months)"
  (cd "$REPO_SCRATCH" && TZ=UTC PYTHONPATH="$REPO_SCRATCH" /venv/bin/python -c "
from metomi.isodatetime.data import *
assert get_week_date_from_calendar_date(2021, 1, 3) == (2020, 53, 7) and get_weeks_in_year(2020) == 53
print('  (the refactored package imports and answers)')") || exit 2
  finish
fi

if want rewriteA; then
  echo "=== rewrite A: renamed locals, swapped and nested tests, counter incremented after the test (must compile)"
  prepare
  edit "    iter_num_days = 0
    for iter_month, iter_day in iter_months_days(year):
        iter_num_days += 1
        if iter_month == month_of_year and iter_day == day_of_month:
            return year, iter_num_days" "    n = 1
    for mon, dom in iter_months_days(year):
        if day_of_month == dom:
            if mon == month_of_year:
                return year, n
        n += 1"
  edit "    iter_num_days = 0
    for iter_month, iter_day in iter_months_days(year):
        iter_num_days += 1
        if iter_num_days == day_of_year:
            return year, iter_month, iter_day" "    seen = 0
    for mon, dom in iter_months_days(year):
        seen = seen + 1
        if not day_of_year != seen:
            return (year, mon, dom)"
  finish
fi

if want rewriteB; then
  echo "=== rewrite B: week-year start loop: x = x - 1, reshaped test, a local for the returned year; weeks: sum over a list comprehension (must compile)"
  prepare
  edit "    for month, day in iter_months_days(year - 1, in_reverse=True):
        day_of_week_start_year -= 1
        if day_of_week_start_year == 1:
            return year - 1, month, day" "    for month, day in iter_months_days(year - 1, in_reverse=True):
        day_of_week_start_year = day_of_week_start_year - 1
        if not (1 != day_of_week_start_year):
            prev_year = year - 1
            return prev_year, month, day"
  edit "    for intervening_year in range(cal_year, cal_year_next):
        diff_days += get_days_in_year(intervening_year)
    return diff_days // CALENDAR.DAYS_IN_WEEK" "    lengths = [get_days_in_year(y) for y in range(cal_year, cal_year_next)]
    return (diff_days + sum(lengths)) // CALENDAR.DAYS_IN_WEEK"
  finish
fi

if want mutant1; then
  echo "=== mutant 1: off-by-one, counter starts at 1 in get_ordinal_date_from_calendar_date (must FAIL)"
  prepare
  edit "    iter_num_days = 0
    for iter_month, iter_day in iter_months_days(year):
        iter_num_days += 1
        if iter_month == month_of_year" "    iter_num_days = 1
    for iter_month, iter_day in iter_months_days(year):
        iter_num_days += 1
        if iter_month == month_of_year"
  finish
fi

if want mutant2; then
  echo "=== mutant 2: wrong table, leap years walk the non-leap months in _iter_months_days (must FAIL)"
  prepare
  edit "        source = CALENDAR.INDEXED_DAYS_IN_MONTHS_LEAP" "        source = CALENDAR.INDEXED_DAYS_IN_MONTHS"
  finish
fi

if want mutant3; then
  echo "=== mutant 3: the last day of each month is skipped, range(1, days) (forward, no start month) (must FAIL)"
  prepare
  edit "            for month_num, days in source:
                day_range = range(1, days + 1)" "            for month_num, days in source:
                day_range = range(1, days)"
  finish
fi

if want mutant4; then
  echo "=== mutant 4: week-year start loop stops one day late, == 0 (must FAIL)"
  prepare
  edit "        day_of_week_start_year -= 1
        if day_of_week_start_year == 1:" "        day_of_week_start_year -= 1
        if day_of_week_start_year == 0:"
  finish
fi

if want mutant5; then
  echo "=== mutant 5: _get_weeks_in_year forgets the last intervening year, range(cal_year, cal_year_next - 1) (must FAIL)"
  prepare
  edit "range(cal_year, cal_year_next)" "range(cal_year, cal_year_next - 1)"
  finish
fi

if want mutant6; then
  echo "=== mutant 6: set_mode numbers the months from 0 (must FAIL)"
  prepare
  edit "            (i + 1, days) for i, days in enumerate(self.DAYS_IN_MONTHS)]" "            (i, days) for i, days in enumerate(self.DAYS_IN_MONTHS)]"
  finish
fi

if want mutant7; then
  echo "=== mutant 7: get_calendar_date_from_ordinal_date leaves the subset (while loop) (must FAIL: translator_ok_code2 = false)"
  prepare
  edit "    iter_num_days = 0
    for iter_month, iter_day in iter_months_days(year):
        iter_num_days += 1
        if iter_num_days == day_of_year:
            return year, iter_month, iter_day" "    days = iter_months_days(year)
    while day_of_year >= 1 and day_of_year <= len(days):
        return (year,) + days[day_of_year - 1]"
  finish
fi

if want mutant8; then
  echo "=== mutant 8: get_week_date_from_calendar_date counts from 0 instead of -1 (must FAIL)"
  prepare
  edit "    total_iter_days = -1" "    total_iter_days = 0"
  finish
fi

if want mutant9; then
  echo "=== mutant 9: get_calendar_date_from_week_date walks from the start day itself, not the day after (must FAIL)"
  prepare
  edit "            day_of_month=start_day + 1):" "            day_of_month=start_day):"
  finish
fi

if want mutant10; then
  echo "=== mutant 10: get_week_date_from_calendar_date picks the week-year with <= instead of < (must FAIL)"
  prepare
  edit "    if prev_start <= cal_date < this_start:" "    if prev_start <= cal_date <= this_start:"
  finish
fi
