#!/venv/bin/python
"""GenCode.v generator: Python function BODIES -> Gallina (fail closed).

The other generators regenerate the package's data tables; this one translates
the bodies of the small pure integer helper functions of data.py and
timezone.py, so that the hand-written model functions of coq/Model/Helpers.v
and coq/Model/LocalZone.v can be PROVED equal to what the source says on this
run (coq/Proofs/GenCodeOk.v, coq/Props/GenCode.v).  A change to one of those
functions changes coq/gen/GenCode.v and breaks an equality lemma (or, if the
new body leaves the accepted subset, makes `translator_ok_code` false).

Accepted subset (everything else raises Reject; see notes/GENCODE_REPORT.md):

  module-level `def f(p1, ..., pn)`: positional parameters without defaults;
      a parameter named `_` is the lru_cache key slot: it is dropped and every
      call must pass exactly `CALENDAR.mode` there; decorators: none or
      `lru_cache(...)`; an optional docstring.
  statements
      x = e | a, b = e (e a tuple)        -> let
      x += e | x -= e   (x a bound Z local)-> let
      if/elif/else                          -> expression-level `if`:
          a branch that returns: continuation passing (the rest of the block is
          the continuation of every branch that falls through);
          no `return` inside: `let '(changed locals) := if c then .. else .. in`
      return e
      for a, b in CALENDAR.LEAP_YEAR_FACTOR_TRUTHS: / for a in <list of Z>:
          body without return/break/continue -> fold_left, the accumulator is
          the tuple of the locals bound before the loop that the body assigns;
          body-local temporaries and the loop targets are dead after the loop
          (reading them later is rejected)
      while c1 and ... and x < B and ...: x += 1   (B does not mention x)
          -> while_inc (Z.to_nat (B - x)) (fun x => c1 && ...) x
          (fuel = the loop's own upper bound: exact, see GenCodeOk.while_inc_*)
  expressions (types Z, bool, list Z, tuples)
      int literals, True/False, local names, + - * // %, unary -, one
      comparison == != < <= > >= between Z, and/or/not (int operands only in
      test position: truthiness x != 0), conditional expressions, tuples,
      CALENDAR.<mode attribute> (-> explicit parameter c_<ATTR>),
      CALENDAR.<class constant> (-> gen/CalTables.v),
      CALENDAR.WEEK_DAY_START_REFERENCE["calendar"|"ordinal"],
      time.timezone / time.altzone / time.daylight / time.localtime().tm_isdst
      (-> explicit parameters x_...), L[i] (-> nth (Z.to_nat i) L 0), calls of
      other module-level functions of the subset.
  specialisation: a parameter can be declared to hold the string "leap" or
      None for one entry point; `p is None`, `p is not None`, `p == "str"` are
      then decided statically (for an int parameter: False, True, False),
      `and`/`or`/`if` are folded over the decided tests, and any other use of
      the specialised parameter is rejected.
"""
import ast
import pyimports
import os
import sys

sys.path.insert(0, os.path.dirname(os.path.abspath(__file__)))
import translate  # noqa: E402
from translate import Reject, write_if_changed, coq_str, REPO  # noqa: E402

if os.environ.get("VERIF_GEN_OUT"):  # scratch output directory (mutant experiments)
    translate.OUT = os.environ["VERIF_GEN_OUT"]

SRC = os.path.join(REPO, "metomi", "isodatetime")

Z, B, LZ, LZB = "Z", "B", "LZ", "LZB"


def T(*ts):
    return ("T", tuple(ts))


def coq_type(t):
    if t == Z:
        return "Z"
    if t == B:
        return "bool"
    if t == LZ:
        return "list Z"
    if t == LZB:
        return "list (Z * bool)"
    if isinstance(t, tuple) and t[0] == "T":
        return "(" + " * ".join(coq_type(x) for x in t[1]) + ")"
    if isinstance(t, tuple) and t[0] == "SUM":
        return "(%s + %s)%%type" % (coq_type(t[1]), coq_type(t[2]))
    raise Reject("no Coq type for %r" % (t,))


# CALENDAR attributes that Calendar.set_mode assigns and that the subset may
# read: they become explicit parameters, in this order.
MODE_ATTRS = [("DAYS_IN_YEAR", Z), ("DAYS_IN_YEAR_LEAP", Z),
              ("DAYS_IN_MONTHS", LZ), ("DAYS_IN_MONTHS_LEAP", LZ)]
# class constants that gen/CalTables.v defines under the same name
CLASS_CONSTS = {"SECONDS_IN_MINUTE": Z, "MINUTES_IN_HOUR": Z, "HOURS_IN_DAY": Z,
                "DAYS_IN_WEEK": Z, "ROUGH_DAYS_IN_MONTH": Z,
                "MAX_WEEKS_IN_YEAR": Z, "LEAP_YEAR_FACTOR_TRUTHS": LZB}
WEEK_REF = {"calendar": ("WEEK_REF_CALENDAR", T(Z, Z, Z)),
            "ordinal": ("WEEK_REF_ORDINAL", T(Z, Z))}
# reads of the process environment, in parameter order
EXTERNALS = [("time.timezone", "x_timezone"), ("time.altzone", "x_altzone"),
             ("time.daylight", "x_daylight"),
             ("time.localtime().tm_isdst", "x_isdst")]
ELEM_TYPES = {LZ: [Z], LZB: [Z, B]}


def zlit(n):
    return "(%d)" % n if n < 0 else "%d" % n


def names_loaded(node):
    return {n.id for n in ast.walk(node) if isinstance(n, ast.Name)}


def assigned_names(stmts):
    """Names (syntactically) stored by the statements, in first-store order."""
    out = []

    def add(t):
        if isinstance(t, ast.Name):
            if t.id not in out:
                out.append(t.id)
        elif isinstance(t, ast.Tuple):
            for e in t.elts:
                add(e)
        else:
            raise Reject("store to %s" % type(t).__name__)

    def walk(ss):
        for s in ss:
            if isinstance(s, ast.Assign):
                for t in s.targets:
                    add(t)
            elif isinstance(s, ast.AugAssign):
                add(s.target)
            elif isinstance(s, ast.If):
                walk(s.body)
                walk(s.orelse)
            elif isinstance(s, (ast.For, ast.While)):
                if isinstance(s, ast.For):
                    add(s.target)
                walk(s.body)
                walk(s.orelse)
            elif isinstance(s, (ast.Return, ast.Expr, ast.Pass)):
                pass
            else:
                raise Reject("statement %s" % type(s).__name__)
    walk(stmts)
    return out


def contains(stmts, kinds):
    return any(isinstance(n, kinds) for s in stmts for n in ast.walk(s))


def always_returns(stmts):
    if not stmts:
        return False
    last = stmts[-1]
    if isinstance(last, ast.Return):
        return True
    if isinstance(last, ast.If):
        return always_returns(last.body) and always_returns(last.orelse)
    return False


class Fn:
    """Per-function translation state."""

    def __init__(self, name, spec, prefix):
        self.name = name
        self.spec = spec          # parameter -> "leap" | None   (specialised)
        self.prefix = prefix      # may stop at the first unsupported top-level statement
        self.top = ()
        self.ret = None
        self.mode = set()
        self.ext = set()
        self.cut = None           # (source line of the cut statement, state names)


class Unit:
    """One source file."""

    def __init__(self, filename, cal):
        self.filename = filename
        with open(os.path.join(SRC, filename)) as fh:
            self.tree = ast.parse(fh.read())
        for node in self.tree.body:
            if isinstance(node, ast.FunctionDef):
                pyimports.inline_test_only_locals(node)
        self.funcs = {}
        self.modules = set()
        self.globals = set()
        for node in self.tree.body:
            if isinstance(node, ast.FunctionDef):
                if node.name in self.funcs:
                    self.funcs[node.name] = None  # defined twice: ambiguous
                else:
                    self.funcs[node.name] = node
            elif isinstance(node, ast.Import):
                for a in node.names:
                    if a.asname is None:
                        self.modules.add(a.name)
            elif isinstance(node, ast.Assign):
                for t in node.targets:
                    if isinstance(t, ast.Name):
                        self.globals.add(t.id)
        self.cal = cal            # (class constants, set_mode-assigned attributes) or None
        self.done = {}            # (name, variant) -> result dict
        self.busy = set()
        self.order = []

    # ---------------------------------------------------------------- expressions
    def expr(self, n, env, fx):
        """-> (coq text, type, statically known truth value or None)"""
        if isinstance(n, ast.Constant):
            v = n.value
            if v is True:
                return "true", B, True
            if v is False:
                return "false", B, False
            if isinstance(v, int):
                return zlit(v), Z, None
            raise Reject("constant %r" % (v,))
        if isinstance(n, ast.Name):
            if n.id in fx.spec:
                raise Reject("specialised parameter %s used as a value" % n.id)
            if n.id in env:
                return "v_" + n.id, env[n.id], None
            raise Reject("name %s is not a (definitely) bound local" % n.id)
        if isinstance(n, ast.UnaryOp):
            if isinstance(n.op, ast.USub):
                if isinstance(n.operand, ast.Constant) and type(n.operand.value) is int:
                    return zlit(-n.operand.value), Z, None
                t, ty, _ = self.expr(n.operand, env, fx)
                if ty != Z:
                    raise Reject("unary minus on %s" % ty)
                return "(- %s)" % t, Z, None
            if isinstance(n.op, ast.Not):
                t, c = self.test(n.operand, env, fx)
                if c is not None:
                    return ("false" if c else "true"), B, (not c)
                return "(negb %s)" % t, B, None
            raise Reject("unary operator %s" % type(n.op).__name__)
        if isinstance(n, ast.BinOp):
            ops = {ast.Add: "+", ast.Sub: "-", ast.Mult: "*",
                   ast.FloorDiv: "/", ast.Mod: "mod"}
            if type(n.op) not in ops:
                raise Reject("binary operator %s" % type(n.op).__name__)
            a, ta, _ = self.expr(n.left, env, fx)
            b, tb, _ = self.expr(n.right, env, fx)
            if ta != Z or tb != Z:
                raise Reject("arithmetic on %s, %s" % (ta, tb))
            return "(%s %s %s)" % (a, ops[type(n.op)], b), Z, None
        if isinstance(n, ast.Compare):
            return self.compare(n, env, fx)
        if isinstance(n, ast.BoolOp):
            is_and = isinstance(n.op, ast.And)
            parts = []
            for v in n.values:
                t, ty, c = self.expr(v, env, fx)
                if ty != B:
                    raise Reject("and/or of a non-bool outside test position")
                if c is not None:
                    if c == (not is_and):   # short circuit: the rest is never evaluated
                        if parts:
                            parts.append(t)
                            break
                        return t, B, c
                    continue                # neutral element
                parts.append(t)
            return self.join_bool(parts, is_and)
        if isinstance(n, ast.IfExp):
            c, k = self.test(n.test, env, fx)
            if k is not None:
                return self.expr(n.body if k else n.orelse, env, fx)
            a, ta, _ = self.expr(n.body, env, fx)
            b, tb, _ = self.expr(n.orelse, env, fx)
            if ta != tb:
                raise Reject("conditional expression of two types")
            return "(if %s then %s else %s)" % (c, a, b), ta, None
        if isinstance(n, ast.Tuple):
            if len(n.elts) < 2:
                raise Reject("tuple of fewer than two elements")
            parts = [self.expr(e, env, fx) for e in n.elts]
            return ("(" + ", ".join(p[0] for p in parts) + ")",
                    T(*[p[1] for p in parts]), None)
        if isinstance(n, ast.Attribute):
            return self.attribute(n, env, fx)
        if isinstance(n, ast.Subscript):
            if isinstance(n.slice, ast.Constant) and isinstance(n.slice.value, str):
                v = n.value
                if (self.is_calendar(v, env) and v.attr == "WEEK_DAY_START_REFERENCE"
                        and n.slice.value in WEEK_REF):
                    self.class_const_ok("WEEK_DAY_START_REFERENCE")
                    name, ty = WEEK_REF[n.slice.value]
                    return name, ty, None
                raise Reject("string subscript")
            lst, tl, _ = self.expr(n.value, env, fx)
            idx, ti, _ = self.expr(n.slice, env, fx)
            if tl != LZ or ti != Z:
                raise Reject("subscript %s[%s]" % (tl, ti))
            # assumption (documented): 0 <= index < len at run time
            return "(nth (Z.to_nat %s) %s 0)" % (idx, lst), Z, None
        if isinstance(n, ast.Call):
            return self.call(n, env, fx)
        raise Reject("expression %s" % type(n).__name__)

    @staticmethod
    def join_bool(parts, is_and):
        if not parts:
            return ("true", B, True) if is_and else ("false", B, False)
        if len(parts) == 1:
            return parts[0], B, None
        return "(" + (" && " if is_and else " || ").join(parts) + ")", B, None

    def test(self, n, env, fx):
        """An expression in truth-value position -> (bool text, static value)."""
        if isinstance(n, ast.BoolOp):
            is_and = isinstance(n.op, ast.And)
            parts = []
            for v in n.values:
                t, c = self.test(v, env, fx)
                if c is not None:
                    if c == (not is_and):
                        if parts:
                            parts.append(t)
                            break
                        return t, c
                    continue
                parts.append(t)
            t, _, c = self.join_bool(parts, is_and)
            return t, c
        if isinstance(n, ast.UnaryOp) and isinstance(n.op, ast.Not):
            t, c = self.test(n.operand, env, fx)
            if c is not None:
                return ("false" if c else "true"), (not c)
            return "(negb %s)" % t, None
        t, ty, c = self.expr(n, env, fx)
        if ty == B:
            return t, c
        if ty == Z:
            return "(negb (%s =? 0))" % t, None
        raise Reject("truth value of %s" % (ty,))

    def compare(self, n, env, fx):
        if len(n.ops) != 1:
            raise Reject("chained comparison")
        op, left, right = n.ops[0], n.left, n.comparators[0]
        # statically decided tests on parameters (specialisation / int typing)
        if isinstance(left, ast.Name) and isinstance(right, ast.Constant) and (
                right.value is None or isinstance(right.value, str)):
            if left.id in fx.spec:
                held = fx.spec[left.id]
            elif left.id in fx.int_params and left.id not in fx.reassigned:
                held = 0   # some int
            else:
                raise Reject("comparison of %s with %r" % (left.id, right.value))
            if isinstance(op, (ast.Is, ast.IsNot)) and right.value is None:
                r = (held is None) == isinstance(op, ast.Is)
            elif isinstance(op, (ast.Eq, ast.NotEq)):
                r = (held == right.value) == isinstance(op, ast.Eq)
            else:
                raise Reject("comparison operator on a non-int")
            return ("true" if r else "false"), B, r
        a, ta, _ = self.expr(left, env, fx)
        b, tb, _ = self.expr(right, env, fx)
        if ta != Z or tb != Z:
            raise Reject("comparison of %s with %s" % (ta, tb))
        if isinstance(op, ast.Eq):
            return "(%s =? %s)" % (a, b), B, None
        if isinstance(op, ast.NotEq):
            return "(negb (%s =? %s))" % (a, b), B, None
        if isinstance(op, ast.Lt):
            return "(%s <? %s)" % (a, b), B, None
        if isinstance(op, ast.LtE):
            return "(%s <=? %s)" % (a, b), B, None
        if isinstance(op, ast.Gt):      # a > b  is  b < a  (pure operands)
            return "(%s <? %s)" % (b, a), B, None
        if isinstance(op, ast.GtE):
            return "(%s <=? %s)" % (b, a), B, None
        raise Reject("comparison operator %s" % type(op).__name__)

    def is_calendar(self, n, env):
        return (isinstance(n, ast.Attribute) and isinstance(n.value, ast.Name)
                and n.value.id == "CALENDAR" and "CALENDAR" not in env
                and self.cal is not None)

    def class_const_ok(self, attr):
        consts, mode_assigned = self.cal
        if attr not in consts or attr in mode_assigned:
            raise Reject("CALENDAR.%s is not a mode-independent class constant" % attr)

    def attribute(self, n, env, fx):
        if self.is_calendar(n, env):
            consts, mode_assigned = self.cal
            for a, ty in MODE_ATTRS:
                if a == n.attr:
                    if a not in mode_assigned:
                        raise Reject("CALENDAR.%s is not assigned by set_mode" % a)
                    fx.mode.add(a)
                    return "c_" + a, ty, None
            if n.attr in CLASS_CONSTS:
                self.class_const_ok(n.attr)
                return n.attr, CLASS_CONSTS[n.attr], None
            raise Reject("CALENDAR.%s is outside the translated attributes" % n.attr)
        src = ast.unparse(n)
        for text, param in EXTERNALS:
            if src == text:
                if "time" not in self.modules or "time" in env or "time" in self.globals \
                        or "time" in self.funcs:
                    raise Reject("`time` is not the imported module")
                fx.ext.add(param)
                return param, Z, None
        if isinstance(n.value, ast.Name) and n.value.id == "self":
            raise Reject("attribute read on `self` (object state: the fields hold "
                         "Python floats or None, outside the Z subset)")
        raise Reject("attribute %s" % src)

    def call(self, n, env, fx):
        if n.keywords:
            raise Reject("keyword arguments in a call")
        if not isinstance(n.func, ast.Name):
            if isinstance(n.func, ast.Attribute) and isinstance(n.func.value, ast.Name) \
                    and n.func.value.id == "self":
                raise Reject("method call on `self` (%s)" % n.func.attr)
            raise Reject("call of %s" % ast.unparse(n.func))
        f = n.func.id
        if f in env or f in fx.spec:
            raise Reject("call of a local")
        if f not in self.funcs:
            raise Reject("call of %s, which is not a module-level function of %s"
                         % (f, self.filename))
        try:
            callee = self.function(f, {}, False)
        except Reject as exc:
            raise Reject("call of %s, which is outside the subset: %s" % (f, exc))
        if len(n.args) != len(callee["slots"]):
            raise Reject("call of %s with %d arguments" % (f, len(n.args)))
        args = []
        for a, slot in zip(n.args, callee["slots"]):
            if isinstance(a, ast.Starred):
                raise Reject("starred argument")
            if slot == "_":
                if not (self.is_calendar(a, env) and a.attr == "mode"):
                    raise Reject("cache-key argument of %s is not CALENDAR.mode" % f)
                continue
            t, ty, _ = self.expr(a, env, fx)
            if ty != Z:
                raise Reject("argument of type %s" % (ty,))
            args.append(t)
        fx.mode |= set(callee["mode"])
        fx.ext |= set(callee["ext"])
        head = [callee["coq"]] + ["c_" + m for m in callee["mode"]] + callee["ext"]
        return "(" + " ".join(head + args) + ")", callee["ret"], None

    # ---------------------------------------------------------------- statements
    def block(self, stmts, env, fall, fx, ind, allow_return):
        pad = "  " * ind
        if not stmts:
            return fall(env, ind)
        s, rest = stmts[0], stmts[1:]
        try:
            return self.stmt(s, rest, env, fall, fx, ind, allow_return)
        except Reject as exc:
            if fx.prefix and any(s is t for t in fx.top) and fx.cut_allowed:
                # stop here: hand the live locals to the (hand-modelled) rest
                live = []
                for st in stmts:
                    for nm in ast.walk(st):
                        if isinstance(nm, ast.Name) and nm.id in env and nm.id not in live \
                                and (nm.id not in fx.params or nm.id in fx.reassigned):
                            live.append(nm.id)
                for nm in live:
                    if env[nm] != Z:
                        raise Reject("cut state %s is not Z" % nm)
                if not live:
                    raise Reject("cut with no live local state")
                line = ast.unparse(s).splitlines()[0]
                cut = (line, tuple(live), str(exc))
                if fx.cut is not None and fx.cut != cut:
                    raise Reject("two different cut points")
                fx.cut = cut
                state = T(*[Z] * len(live)) if len(live) > 1 else Z
                if fx.cut_state is not None and fx.cut_state != state:
                    raise Reject("cut state types differ")
                fx.cut_state = state
                tup = ", ".join("v_" + x for x in live)
                return pad + "inr %s" % (("(" + tup + ")") if len(live) > 1 else tup)
            raise

    def stmt(self, s, rest, env, fall, fx, ind, allow_return):
        pad = "  " * ind
        nxt = lambda e: self.block(rest, e, fall, fx, ind, allow_return)  # noqa: E731
        if isinstance(s, ast.Expr) and isinstance(s.value, ast.Constant) \
                and isinstance(s.value.value, str) and fx.top and s is fx.top[0]:
            return nxt(env)  # docstring
        if isinstance(s, ast.Return):
            if not allow_return:
                raise Reject("return inside a loop body")
            if rest:
                raise Reject("statement after return")
            if s.value is None:
                raise Reject("return without a value")
            t, ty, _ = self.expr(s.value, env, fx)
            if fx.ret is None:
                fx.ret = ty
            elif fx.ret != ty:
                raise Reject("returns of two types: %s, %s" % (coq_type(fx.ret), coq_type(ty)))
            return pad + (("inl " + t) if fx.prefix else t)
        if isinstance(s, ast.Assign):
            if len(s.targets) != 1:
                raise Reject("multiple assignment")
            tgt = s.targets[0]
            t, ty, _ = self.expr(s.value, env, fx)
            if isinstance(tgt, ast.Name):
                self.storable(tgt.id, env, fx)
                env2 = dict(env)
                env2[tgt.id] = ty
                return pad + "let v_%s := %s in\n" % (tgt.id, t) + \
                    self.block(rest, env2, fall, fx, ind, allow_return)
            if isinstance(tgt, ast.Tuple) and all(isinstance(e, ast.Name) for e in tgt.elts):
                ids = [e.id for e in tgt.elts]
                if not (isinstance(ty, tuple) and ty[0] == "T" and len(ty[1]) == len(ids)) \
                        or len(set(ids)) != len(ids):
                    raise Reject("tuple assignment shape")
                env2 = dict(env)
                for i, ety in zip(ids, ty[1]):
                    self.storable(i, env, fx)
                    env2[i] = ety
                return pad + "let '(%s) := %s in\n" % (", ".join("v_" + i for i in ids), t) + \
                    self.block(rest, env2, fall, fx, ind, allow_return)
            raise Reject("assignment target %s" % type(tgt).__name__)
        if isinstance(s, ast.AugAssign):
            if not isinstance(s.target, ast.Name) or not isinstance(s.op, (ast.Add, ast.Sub)):
                raise Reject("augmented assignment other than local +=/-=")
            x = s.target.id
            self.storable(x, env, fx)
            if env.get(x) != Z:
                raise Reject("%s is not a bound Z local at +=/-=" % x)
            t, ty, _ = self.expr(s.value, env, fx)
            if ty != Z:
                raise Reject("+=/-= of %s" % (ty,))
            op = "+" if isinstance(s.op, ast.Add) else "-"
            return pad + "let v_%s := (v_%s %s %s) in\n" % (x, x, op, t) + nxt(env)
        if isinstance(s, ast.If):
            return self.if_stmt(s, rest, env, fall, fx, ind, allow_return)
        if isinstance(s, ast.For):
            return self.for_stmt(s, rest, env, fall, fx, ind, allow_return)
        if isinstance(s, ast.While):
            return self.while_stmt(s, rest, env, fall, fx, ind, allow_return)
        raise Reject("statement %s" % type(s).__name__)

    def storable(self, name, env, fx):
        if name in fx.spec:
            raise Reject("assignment to the specialised parameter %s" % name)
        if name == "CALENDAR" or name == "time" or name in self.funcs:
            raise Reject("local %s shadows a global" % name)

    def if_stmt(self, s, rest, env, fall, fx, ind, allow_return):
        pad = "  " * ind
        c, k = self.test(s.test, env, fx)
        if k is not None:  # decided statically: only that branch exists
            br = s.body if k else s.orelse
            return self.block(br + ([] if always_returns(br) else rest),
                              env, fall, fx, ind, allow_return)
        if contains([s], ast.Return):
            if not allow_return:
                raise Reject("return inside a loop body")
            # the rest of the block continues every branch that can fall through
            a = self.block(s.body + ([] if always_returns(s.body) else rest),
                           env, fall, fx, ind + 1, allow_return)
            b = self.block(s.orelse + ([] if always_returns(s.orelse) else rest),
                           env, fall, fx, ind + 1, allow_return)
            return "%sif %s then\n%s\n%selse\n%s" % (pad, c, a, pad, b)
        # no return inside: merge the locals the branches assign
        ends = []

        def probe(e, _ind):
            ends.append(e)
            return "tt"
        saved, fx.cut_allowed = fx.cut_allowed, False
        try:
            self.block(s.body, env, probe, fx, 0, False)
            self.block(s.orelse, env, probe, fx, 0, False)
            if len(ends) != 2:
                raise Reject("internal: branch ends")
            merged = []
            for nm in assigned_names([s]):
                if nm in ends[0] and nm in ends[1]:
                    if ends[0][nm] != ends[1][nm]:
                        raise Reject("%s has two types after if" % nm)
                    merged.append(nm)
            if not merged:
                raise Reject("if statement without effect on definitely-bound locals")
            env2 = {k2: v for k2, v in env.items() if k2 not in assigned_names([s])}
            for nm in merged:
                env2[nm] = ends[0][nm]

            def out(e, i):
                tup = ", ".join("v_" + nm for nm in merged)
                return "  " * i + (("(" + tup + ")") if len(merged) > 1 else tup)
            a = self.block(s.body, env, out, fx, ind + 2, False)
            b = self.block(s.orelse, env, out, fx, ind + 2, False)
        finally:
            fx.cut_allowed = saved
        pat = ("'(" + ", ".join("v_" + nm for nm in merged) + ")") if len(merged) > 1 \
            else "v_" + merged[0]
        return "%slet %s :=\n%s  if %s then\n%s\n%s  else\n%s in\n" % (
            pad, pat, pad, c, a, pad, b) + self.block(rest, env2, fall, fx, ind, allow_return)

    def for_stmt(self, s, rest, env, fall, fx, ind, allow_return):
        pad = "  " * ind
        if s.orelse:
            raise Reject("for/else")
        try:
            lst, tl, _ = self.expr(s.iter, env, fx)
        except Reject as exc:
            raise Reject("for over `%s`, not a constant table or list local (%s)"
                         % (ast.unparse(s.iter), exc))
        if tl not in ELEM_TYPES:
            raise Reject("for over %s" % (tl,))
        if contains(s.body, (ast.Return, ast.Break, ast.Continue)):
            raise Reject("return/break/continue in a for body")
        if isinstance(s.target, ast.Name):
            tg = [s.target.id]
        elif isinstance(s.target, ast.Tuple) and all(isinstance(e, ast.Name) for e in s.target.elts):
            tg = [e.id for e in s.target.elts]
        else:
            raise Reject("for target")
        ets = ELEM_TYPES[tl]
        if len(tg) != len(ets) or len(set(tg)) != len(tg):
            raise Reject("for target does not match the element shape")
        assigned = assigned_names(s.body)
        for t in tg:
            self.storable(t, env, fx)
            if t in env or t in assigned:
                raise Reject("loop target %s rebinds a local" % t)
        if names_loaded(s.iter) & set(assigned):
            raise Reject("loop body assigns a name of the iterated expression")
        accs = [nm for nm in assigned if nm in env]
        if not accs:
            raise Reject("for loop without an accumulator bound before it")
        benv = dict(env)
        for t, ty in zip(tg, ets):
            benv[t] = ty

        def out(e, i):
            for nm in accs:
                if e.get(nm) != env[nm]:
                    raise Reject("accumulator %s changes type" % nm)
            tup = ", ".join("v_" + nm for nm in accs)
            return "  " * i + (("(" + tup + ")") if len(accs) > 1 else tup)
        saved, fx.cut_allowed = fx.cut_allowed, False
        try:
            body = self.block(s.body, benv, out, fx, ind + 2, False)
        finally:
            fx.cut_allowed = saved
        acc_ty = coq_type(T(*[env[nm] for nm in accs]) if len(accs) > 1 else env[accs[0]])
        it_ty = coq_type(T(*ets) if len(ets) > 1 else ets[0])
        tup = ", ".join("v_" + nm for nm in accs)
        if len(accs) > 1:
            pat, init, unpack = "'(%s)" % tup, "(%s)" % tup, "let '(%s) := acc_ in" % tup
        else:
            pat, init, unpack = tup, tup, "let %s := acc_ in" % tup
        itpat = ("let '(%s) := it_ in" % ", ".join("v_" + t for t in tg)) if len(tg) > 1 \
            else "let v_%s := it_ in" % tg[0]
        # body-local temporaries and loop targets are unbound after the loop
        env2 = {k: v for k, v in env.items()}
        text = ("%slet %s :=\n%s  fold_left (fun (acc_ : %s) (it_ : %s) =>\n"
                "%s    %s\n%s    %s\n%s)\n%s  %s %s in\n") % (
            pad, pat, pad, acc_ty, it_ty, pad, unpack, pad, itpat, body, pad, lst, init)
        return text + self.block(rest, env2, fall, fx, ind, allow_return)

    def while_stmt(self, s, rest, env, fall, fx, ind, allow_return):
        pad = "  " * ind
        if s.orelse:
            raise Reject("while/else")
        if not (len(s.body) == 1 and isinstance(s.body[0], ast.AugAssign)
                and isinstance(s.body[0].target, ast.Name)
                and isinstance(s.body[0].op, ast.Add)
                and isinstance(s.body[0].value, ast.Constant)
                and type(s.body[0].value.value) is int and s.body[0].value.value == 1):
            raise Reject("while body is not `x += 1`")
        x = s.body[0].target.id
        self.storable(x, env, fx)
        if env.get(x) != Z:
            raise Reject("while counter is not a bound Z local")
        if not (isinstance(s.test, ast.BoolOp) and isinstance(s.test.op, ast.And)):
            raise Reject("while test is not a conjunction")
        bound = None
        for c in s.test.values:
            if (isinstance(c, ast.Compare) and len(c.ops) == 1 and isinstance(c.ops[0], ast.Lt)
                    and isinstance(c.left, ast.Name) and c.left.id == x
                    and x not in names_loaded(c.comparators[0])):
                bound = c.comparators[0]
                break
        if bound is None:
            raise Reject("while test has no conjunct `x < B` with B independent of x")
        bt, bty, _ = self.expr(bound, env, fx)
        if bty != Z:
            raise Reject("while bound is not Z")
        ct, k = self.test(s.test, env, fx)
        if k is not None:
            raise Reject("while test decided statically")
        text = "%slet v_%s := while_inc (Z.to_nat (%s - v_%s)) (fun v_%s => %s) v_%s in\n" % (
            pad, x, bt, x, x, ct, x)
        return text + self.block(rest, env, fall, fx, ind, allow_return)

    # ---------------------------------------------------------------- functions
    def function(self, name, spec, prefix, suffix=""):
        key = (name, suffix)
        if key in self.done:
            return self.done[key]
        if key in self.busy:
            raise Reject("recursion through %s" % name)
        node = self.funcs.get(name)
        if node is None:
            raise Reject("%s: no unique module-level def in %s" % (name, self.filename))
        self.busy.add(key)
        try:
            res = self.function_body(node, spec, prefix, suffix)
        finally:
            self.busy.discard(key)
        self.done[key] = res
        self.order.append(key)
        return res

    def function_body(self, node, spec, prefix, suffix):
        a = node.args
        if a.posonlyargs or a.vararg or a.kwonlyargs or a.kwarg or a.defaults or a.kw_defaults:
            raise Reject("%s: parameters other than plain positional ones" % node.name)
        for d in node.decorator_list:
            if not (isinstance(d, ast.Call) and (
                    isinstance(d.func, ast.Name) and d.func.id == "lru_cache"
                    or isinstance(d.func, ast.Attribute) and d.func.attr == "lru_cache"
                    and isinstance(d.func.value, ast.Name) and d.func.value.id == "functools")):
                raise Reject("%s: decorator %s" % (node.name, ast.unparse(d)))
        fx = Fn(node.name, spec, prefix)
        fx.top = tuple(node.body)
        fx.cut_allowed = True
        fx.cut_state = None
        slots, params, env = [], [], {}
        for p in a.args:
            if p.arg == "_":
                slots.append("_")
            elif p.arg in spec:
                slots.append(None)   # not callable from translated code in this variant
            else:
                slots.append(p.arg)
                params.append(p.arg)
                env[p.arg] = Z
        if len(set(x.arg for x in a.args)) != len(a.args) or set(spec) - {x.arg for x in a.args}:
            raise Reject("%s: parameter list" % node.name)
        fx.params = set(params)
        fx.int_params = set(params)
        fx.reassigned = set(assigned_names(node.body))

        def off_end(_e, _i):
            raise Reject("control can reach the end of %s without return" % node.name)
        body = self.block(list(node.body), env, off_end, fx, 1, True)
        if fx.ret is None:
            raise Reject("%s: no return" % node.name)
        ret = fx.ret
        if prefix:
            if fx.cut is None:
                raise Reject("%s: prefix entry point without a cut" % node.name)
            ret = ("SUM", fx.ret, fx.cut_state)
        mode = [m for m, _ in MODE_ATTRS if m in fx.mode]
        ext = [p for _, p in EXTERNALS if p in fx.ext]
        coq = "py_" + node.name + suffix
        binders = ["(c_%s : %s)" % (m, coq_type(dict(MODE_ATTRS)[m])) for m in mode] + \
                  ["(%s : Z)" % p for p in ext] + ["(v_%s : Z)" % p for p in params]
        text = "Definition %s %s: %s :=\n%s." % (
            coq, "".join(b + " " for b in binders), coq_type(ret), body)
        return {"coq": coq, "slots": slots, "mode": mode, "ext": ext, "ret": ret,
                "text": text, "cut": fx.cut, "src": "%s: %s" % (self.filename, node.name),
                "spec": spec}


def method_unit(unit, cls, meth):
    """Expose Class.method as a pseudo module-level function (for the attempt
    that documents why the Duration methods are outside the subset)."""
    for node in unit.tree.body:
        if isinstance(node, ast.ClassDef) and node.name == cls:
            for st in node.body:
                if isinstance(st, ast.FunctionDef) and st.name == meth:
                    return st
    raise Reject("%s.%s not found" % (cls, meth))


# (file, function, Coq name suffix, specialisation, prefix?)
REQUIRED = [
    ("data.py", "get_is_leap_year", "", {}, False),
    ("data.py", "_get_days_in_year", "", {}, False),
    ("data.py", "get_days_in_year", "", {}, False),
    ("data.py", "_get_days_in_month", "", {}, False),
    ("data.py", "_get_days_in_month", "__leap", {"year": "leap"}, False),
    ("data.py", "_get_days_in_month", "__none", {"year": None}, False),
    ("data.py", "_get_days_in_year_range", "", {}, False),
    ("data.py", "get_days_in_year_range", "", {}, False),
    ("data.py", "_get_days_since_1_ad", "", {}, False),
    ("data.py", "_get_calendar_date_week_date_start", "__prefix", {}, True),
    ("timezone.py", "get_local_time_zone", "", {}, False),
]
# attempted only to record the reason; nothing depends on them
ATTEMPTED = [
    ("data.py", None, "_get_calendar_date_week_date_start"),
    ("data.py", None, "_get_ordinal_date_week_date_start"),
    ("data.py", None, "_get_weeks_in_year"),
    ("data.py", "Duration", "get_days_and_seconds"),
    ("data.py", "Duration", "_get_non_nominal_seconds"),
    ("timezone.py", None, "get_local_time_zone_format"),
]

HEAD = (
    "(* GENERATED by tools/translate_code.py from the function bodies of\n"
    "   metomi/isodatetime/data.py and timezone.py.  Do not edit.\n"
    "   v_<name>: Python parameter/local; c_<ATTR>: CALENDAR.<ATTR> (assigned by\n"
    "   Calendar.set_mode) at call time; x_<name>: a value read from the `time`\n"
    "   module; upper-case names: class constants from gen/CalTables.v. *)\n"
    "From Coq Require Import ZArith List Bool String.\n"
    "From Iso Require Import gen.CalTables.\n"
    "Import ListNotations.\nOpen Scope Z_scope.\n\n"
    "(* the one accepted `while` shape:  while <cond x> [incl. x < B]: x += 1\n"
    "   with fuel Z.to_nat (B - x) taken from the loop's own upper bound *)\n"
    "Fixpoint while_inc (fuel : nat) (cond : Z -> bool) (x : Z) : Z :=\n"
    "  match fuel with\n"
    "  | O => x\n"
    "  | S k => if cond x then while_inc k cond (x + 1) else x\n"
    "  end.\n\n")


def calendar_info(unit):
    consts, cls = translate.calendar_class_constants(unit.tree)
    assigned = {a for a, _ in translate.set_mode_defuse(cls)}
    ok = False
    for node in unit.tree.body:   # CALENDAR = Calendar.default()
        if isinstance(node, ast.Assign) and len(node.targets) == 1 \
                and isinstance(node.targets[0], ast.Name) and node.targets[0].id == "CALENDAR":
            ok = ast.unparse(node.value) == "Calendar.default()"
    if not ok:
        raise Reject("CALENDAR is not `Calendar.default()`")
    return consts, assigned


def clean(msg):
    return str(msg).replace("*)", "* )").replace("(*", "( *").replace('"', "'")


def build_text():
    failures, body, covered, cuts = [], [], [], []
    units = {}

    def unit(fn):
        if fn not in units:
            u = Unit(fn, None)
            if fn == "data.py":
                u.cal = calendar_info(u)
            units[fn] = u
        return units[fn]

    emitted = set()
    for fn, name, suffix, spec, prefix in REQUIRED:
        coq = "py_" + name + suffix
        try:
            u = unit(fn)
            res = u.function(name, spec, prefix, suffix)
            for key in list(u.order):   # callees first, each once
                r = u.done[key]
                if r["coq"] not in emitted:
                    emitted.add(r["coq"])
                    note = ""
                    if r["spec"]:
                        note = " with " + ", ".join(
                            "%s = %r" % kv for kv in sorted(r["spec"].items()))
                    body.append("(* %s%s *)\n%s\n" % (r["src"], note, r["text"]))
            covered.append(coq)
            if res["cut"]:
                line, live, why = res["cut"]
                cuts.append((coq, line, live, why))
        except Exception as exc:  # fail closed on anything, translator bugs included
            failures.append((coq, "%s: %s" % (type(exc).__name__, exc)))
            if coq not in emitted:
                emitted.add(coq)
                body.append("(* %s: REJECTED: %s *)\nDefinition %s : unit := tt.\n"
                            % (name, clean(exc), coq))
    rejected = []
    for fn, cls, name in ATTEMPTED:
        label = (cls + "." if cls else "") + name
        try:
            u = Unit(fn, None)
            if fn == "data.py":
                u.cal = calendar_info(u)
            if cls:
                node = method_unit(u, cls, name)
                u.funcs[name] = node
            u.function(name, {}, False)
            rejected.append((label, "inside the subset, but not a target (not emitted)"))
        except Exception as exc:
            rejected.append((label, "%s" % exc))
    for coq, line, live, why in cuts:
        body.append("(* %s stops before this statement (%s); the state handed over is (%s) *)\n"
                    "Definition %s_cut : string := %s%%string.\n"
                    % (coq, clean(why), ", ".join(live), coq, coq_str(line)))
    body.append("Definition COVERED_code : list string :=\n  [%s]%%string." % "; ".join(
        coq_str(c) for c in covered))
    body.append("(* outside the subset (attempted, reason recorded; nothing depends on them) *)\n"
                "Definition REJECTED_code : list (string * string) :=\n  [%s]%%string." % ";\n   ".join(
                    "(%s, %s)" % (coq_str(a), coq_str(b)) for a, b in rejected))
    if failures:
        body.append("".join("(* REJECTED: %s: %s *)\n" % (c, clean(w)) for c, w in failures) +
                    "Definition translator_ok_code : bool := false.")
    else:
        body.append("Definition translator_ok_code : bool := true.")
    return HEAD + "\n".join(body) + "\n"


def gen_code():
    try:
        text = build_text()
    except Exception as exc:  # fail closed
        text = HEAD + "(* REJECTED: %s *)\n" % clean(exc) + "".join(
            "Definition py_%s%s : unit := tt.\n" % (n, s) for _, n, s, _, _ in REQUIRED) + \
            "Definition translator_ok_code : bool := false.\n"
    return write_if_changed("GenCode.v", text)


if __name__ == "__main__":
    os.makedirs(translate.OUT, exist_ok=True)
    print("translate_code: %s" % ("regenerated GenCode.v" if gen_code() else "nothing changed"))
