#!/venv/bin/python
"""GenCode4.v generator: the arithmetic core of class TimePoint -> Gallina (fail closed).

Phase 3 (translate_code3.py) translates the methods of class Duration over a
state record.  This generator does the same for the methods of class TimePoint
(data.py) that the arithmetic properties rest on: _tick_over,
_tick_over_day_of_month, __add__/__sub__ with a Duration, _copy, add_months,
the to_*/get_* date conversions, to_time_zone, to_utc, _normalised, ...

  * state record pyTimePoint: one field per entry of TimePoint.__slots__ (re-read
    on every run; fail closed when it changes); the time zone is a small value
    record pyTimeZone (hours, minutes, unknown);
  * every method is a function  fuel -> cal -> self -> args -> exc result  into an
    exception monad; a method that stores to slots of `self` (a mutator:
    _tick_over, _tick_over_day_of_month) returns the new state of self;
  * `for` / `while` loops with break / continue / return / for-else become the
    combinators for_flow / while_flow over an explicit loop state; `while` is
    indexed by fuel (Raise OutOfFuel when it runs out; the theorems of
    Proofs/GenCode4Ok.v show that a fuel >= the model's bound always suffices);
  * calls of module-level calendar helpers refer to gen/GenCode.v / GenCode2.v
    (phases 1-2), calls of Duration methods to gen/GenCode3.v (phase 3);
  * CALENDAR.X attributes assigned by Calendar.set_mode are fields of one
    record `cal : pyCalendar`.
See notes/GENCODE4_REPORT.md.
"""
import ast
import os
import sys
from fractions import Fraction

sys.path.insert(0, os.path.dirname(os.path.abspath(__file__)))
import translate  # noqa: E402
from translate import Reject, write_if_changed, coq_str  # noqa: E402
import translate_code  # noqa: E402  (also redirects translate.OUT for VERIF_GEN_OUT)
from translate_code import zlit, clean  # noqa: E402
import translate_code2 as tc2  # noqa: E402
import translate_code3 as tc3  # noqa: E402

SRC = os.path.join(translate.REPO, "metomi", "isodatetime")
CLS = "TimePoint"

Z, Q, B, NONE, OPQ = "Z", "Q", "B", "NONE", "OPQ"


def OPT(t):
    return ("OPT", t)


def T(*ts):
    return ("T", tuple(ts))


def L(t):
    return ("L", t)


TP = ("OBJ", "TimePoint")
DUR = ("OBJ", "Duration")
TZ = ("OBJ", "TimeZone")
LZ, LZZ = L(Z), L(T(Z, Z))

# the object state: TimePoint.__slots__ must be exactly this (fail closed).
# (slot, field type, type of a read)
SLOTS = [
    ("_num_expanded_year_digits", Z),
    ("_year", OPT(Z)), ("_month_of_year", OPT(Z)), ("_day_of_year", OPT(Z)),
    ("_day_of_month", OPT(Z)), ("_day_of_week", OPT(Z)), ("_week_of_year", OPT(Z)),
    ("_hour_of_day", OPT(Q)), ("_minute_of_hour", OPT(Q)), ("_second_of_minute", OPT(Q)),
    ("_truncated", B), ("_truncated_property", OPQ), ("_truncated_dump_format", OPQ),
    ("_dump_format", OPQ), ("_time_zone", TZ),
]
SLOT_TY = dict(SLOTS)
# what _type_checker in __init__ must allow for the constructor parameter feeding a slot
SLOT_PARAM_TYPES = {
    "_year": ("year", ["None", "int"]), "_month_of_year": ("month_of_year", ["None", "int"]),
    "_day_of_year": ("day_of_year", ["None", "int"]), "_day_of_month": ("day_of_month", ["None", "int"]),
    "_day_of_week": ("day_of_week", ["None", "int"]), "_week_of_year": ("week_of_year", ["None", "int"]),
    "_hour_of_day": ("hour_of_day", ["None", "float", "int"]),
    "_minute_of_hour": ("minute_of_hour", ["None", "float", "int"]),
    "_second_of_minute": ("second_of_minute", ["None", "float", "int"]),
}
TZ_SLOTS = {"_hours": Z, "_minutes": Z, "_unknown": B}
DUR_SLOTS = dict(tc3.SLOTS)

# CALENDAR attributes assigned by Calendar.set_mode: the fields of pyCalendar
CAL_FIELDS = [("DAYS_IN_YEAR", Z), ("DAYS_IN_YEAR_LEAP", Z), ("DAYS_IN_MONTHS", LZ),
              ("DAYS_IN_MONTHS_LEAP", LZ), ("INDEXED_DAYS_IN_MONTHS", LZZ),
              ("INDEXED_DAYS_IN_MONTHS_LEAP", LZZ), ("MONTHS_IN_YEAR", Z),
              ("SECONDS_IN_HOUR", Z), ("SECONDS_IN_DAY", Z), ("ROUGH_DAYS_IN_YEAR", Z)]
CAL_TY = dict(CAL_FIELDS)
# set_mode attributes that are plain assignments of the class-level month tables
CAL_TABLES = ("DAYS_IN_MONTHS", "DAYS_IN_MONTHS_LEAP")
CLASS_CONSTS = ["SECONDS_IN_MINUTE", "MINUTES_IN_HOUR", "HOURS_IN_DAY", "DAYS_IN_WEEK",
                "ROUGH_DAYS_IN_MONTH", "MAX_WEEKS_IN_YEAR"]

RESERVED = ("CALENDAR", CLS, "Duration", "TimeZone", "isinstance", "getattr", "setattr", "abs",
            "int", "float", "divmod", "sum", "hash", "range", "_type_checker", "TypeError",
            "ValueError", "_operator_map", "len", "tuple", "list")


def fld(slot):
    return "s" + slot


def setter(slot):
    return "set" + slot


def is_opt(t):
    return isinstance(t, tuple) and t[0] == "OPT"


def is_tuple(t):
    return isinstance(t, tuple) and t[0] == "T"


def is_list(t):
    return isinstance(t, tuple) and t[0] == "L"


def is_obj(t):
    return isinstance(t, tuple) and t[0] == "OBJ"


def is_static(t):
    return isinstance(t, tuple) and t[0] in ("STR", "STRLIST", "SB")


def coq_type(t):
    if t == Z:
        return "Z"
    if t == Q:
        return "Q"
    if t == B:
        return "bool"
    if t == NONE:
        return "unit"
    if t == OPQ:
        return "(option string)"
    if t == TP:
        return "pyTimePoint"
    if t == DUR:
        return "GenCode3.pyDuration"
    if t == TZ:
        return "pyTimeZone"
    if is_opt(t):
        return "(option %s)" % coq_type(t[1])
    if is_list(t):
        return "(list %s)" % coq_type(t[1])
    if is_tuple(t):
        return "(" + " * ".join(coq_type(x) for x in t[1]) + ")"
    raise Reject("no Coq type for %r" % (t,))


def join(a, b):
    """Least common type (coercions Z -> Q, t -> option t, None -> option t)."""
    if a == b:
        return a
    if {a, b} == {Z, Q}:
        return Q
    if a == NONE:
        return b if (is_opt(b) or b == OPQ) else OPT(b)
    if b == NONE:
        return a if (is_opt(a) or a == OPQ) else OPT(a)
    if OPQ in (a, b) or is_obj(a) or is_obj(b):
        raise Reject("no common type for %r and %r" % (a, b))
    if is_opt(a) or is_opt(b):
        ia = a[1] if is_opt(a) else a
        ib = b[1] if is_opt(b) else b
        return OPT(join(ia, ib))
    if is_tuple(a) and is_tuple(b) and len(a[1]) == len(b[1]):
        return T(*[join(x, y) for x, y in zip(a[1], b[1])])
    raise Reject("no common type for %r and %r" % (a, b))


class Val:
    def __init__(self, text, ty, parts=None, static=None, kind=None):
        self.text = text          # Coq term (None for static strings)
        self.ty = ty
        self.parts = parts        # component Vals of a syntactic tuple
        self.static = static      # statically known truth value
        self.kind = kind          # for TimePoint objects: what it may alias


def qlit(fr):
    return "(Qmake %s %d)" % (zlit(fr.numerator), fr.denominator)


def tuple_parts(v):
    if v.parts is not None:
        return v.parts
    n = len(v.ty[1])
    out = []
    for i, ty in enumerate(v.ty[1]):      # left-nested pairs
        t = v.text
        for _ in range(n - 1 - i if i > 0 else n - 1):
            t = "(fst %s)" % t
        if i > 0:
            t = "(snd %s)" % t
        out.append(Val(t, ty))
    return out


def coerce(v, to):
    if v.ty == to:
        return v
    if to == Q and v.ty == Z:
        return Val("(inject_Z %s)" % v.text, Q)
    if to == OPQ and v.ty == NONE:
        return Val("None", OPQ)
    if is_opt(to):
        if v.ty == NONE:
            return Val("None", to)
        if is_opt(v.ty):
            inner = coerce(Val("x_", v.ty[1]), to[1])
            return Val("(option_map (fun x_ => %s) %s)" % (inner.text, v.text), to)
        return Val("(Some %s)" % coerce(v, to[1]).text, to)
    if is_tuple(to) and is_tuple(v.ty) and len(to[1]) == len(v.ty[1]):
        ps = [coerce(p, t) for p, t in zip(tuple_parts(v), to[1])]
        return Val("(" + ", ".join(p.text for p in ps) + ")", to, parts=ps)
    raise Reject("cannot use a %r where a %r is expected" % (v.ty, to))


class Static:
    """Pseudo statement of an unrolled `for`: bind/unbind the loop variable."""

    def __init__(self, name, value):
        self.name, self.value = name, value


class Env:
    def __init__(self):
        self.ty = {}          # local -> type
        self.owned = set()    # TimePoint locals holding an object no other name can reach
        self.partial = {}     # owned local under construction -> frozenset of assigned slots
        self.nonnull = set()  # (local, slot) of value objects known not to be None here
        self.truncs = set()   # locals bound to `<TimePoint local>._truncated` and not rebound since
        self.known = {}       # bool local -> its value on this path (inside `if x:` / its else)

    def copy(self):
        e = Env()
        e.ty, e.owned, e.partial = dict(self.ty), set(self.owned), dict(self.partial)
        e.nonnull = set(self.nonnull)
        e.truncs = set(self.truncs)
        e.known = dict(self.known)
        return e

    def drop(self, name):
        self.ty.pop(name, None)
        self.owned.discard(name)
        self.partial.pop(name, None)
        self.truncs.discard(name)
        self.known.pop(name, None)
        self.nonnull = {(o, s) for o, s in self.nonnull if o != name}


class Ctx:
    """Continuations of the block being translated."""

    def __init__(self, fall, ret, brk=None, cont=None, in_loop=False):
        self.fall, self.ret, self.brk, self.cont, self.in_loop = fall, ret, brk, cont, in_loop

    def with_fall(self, fall):
        return Ctx(fall, self.ret, self.brk, self.cont, self.in_loop)


def contains(stmts, kinds):
    return any(isinstance(n, kinds) for s in stmts if not isinstance(s, Static)
               for n in ast.walk(s))


def always_returns(stmts):
    """the block never falls through (return / raise / break / continue at its end)"""
    stmts = [s for s in stmts if not isinstance(s, Static)]
    if not stmts:
        return False
    last = stmts[-1]
    if isinstance(last, (ast.Return, ast.Raise, ast.Break, ast.Continue)):
        return True
    if isinstance(last, ast.If):
        return always_returns(last.body) and always_returns(last.orelse)
    return False


class Fn:
    def __init__(self, name, proc):
        self.name = name
        self.proc = proc          # mutator: the result is the new state of self
        self.ret = None           # join of the return types seen
        self.ret_expect = None    # second pass: coerce every return to this
        self.ret_kinds = set()
        self.n = 0
        self.top = ()
        self.hash_key = False
        self.params = []
        self.statics = {}

    def fresh(self):
        self.n += 1
        return "t%d" % self.n

    def ret_coq(self):
        if self.proc:
            return "pyTimePoint"
        if self.ret_expect is None:
            return "unit"
        return coq_type(self.ret_expect)


class RecursionSeen(Exception):
    def __init__(self, key):
        Exception.__init__(self, "recursion through %s" % key[0])
        self.key = key


class ClassUnit:
    def __init__(self):
        with open(os.path.join(SRC, "data.py")) as fh:
            self.tree = ast.parse(fh.read())
        self.cal = translate_code.calendar_info(self)   # (class constants, set_mode-assigned)
        self.classes = {}
        for node in self.tree.body:
            if isinstance(node, ast.ClassDef):
                if node.name in self.classes:
                    raise Reject("class %s defined twice" % node.name)
                self.classes[node.name] = node
        self.cls = self.classes.get(CLS)
        if self.cls is None:
            raise Reject("class %s not found" % CLS)
        if self.cls.bases or self.cls.keywords or self.cls.decorator_list:
            raise Reject("class %s has bases/decorators" % CLS)
        self.methods = {}
        self.slots = None
        for st in self.cls.body:
            if isinstance(st, ast.FunctionDef):
                self.methods[st.name] = None if st.name in self.methods else st
            elif isinstance(st, ast.Assign):
                for t in st.targets:
                    if isinstance(t, ast.Name) and t.id == "__slots__":
                        if not (isinstance(st.value, ast.List) and all(
                                isinstance(e, ast.Constant) and isinstance(e.value, str)
                                for e in st.value.elts)):
                            raise Reject("__slots__ is not a list of string constants")
                        if self.slots is not None:
                            raise Reject("__slots__ assigned twice")
                        self.slots = [e.value for e in st.value.elts]
                    else:
                        raise Reject("class-level assignment to %s" % ast.unparse(t))
            elif isinstance(st, ast.Expr) and isinstance(st.value, ast.Constant):
                pass
            else:
                raise Reject("class body statement %s" % type(st).__name__)
        for bad in ("__getattr__", "__getattribute__", "__setattr__", "__delattr__", "__new__",
                    "__init_subclass__", "__class_getitem__", "__radd__", "__rsub__", "__iadd__",
                    "__isub__"):
            if bad in self.methods:
                raise Reject("class defines %s" % bad)
        if self.slots != [s for s, _ in SLOTS]:
            raise Reject("TimePoint.__slots__ is %r, the state record is %r"
                         % (self.slots, [s for s, _ in SLOTS]))
        self.check_slot_types()
        self.check_time_zone_class()
        self.mutators = self.find_mutators()
        # phases 1-2 (module-level helpers) and 3 (Duration methods)
        self.u2 = tc2.Unit2("data.py")
        for name in tc2.REQUIRED:
            node = self.u2.funcs.get(name)
            try:
                self.u2.function(name, {}, tc2.entry_types(node))
            except Exception:
                pass
        for name, spec, ptypes, _why in tc2.ATTEMPTED:
            try:
                self.u2.function(name, dict(spec), dict(ptypes))
            except Exception:
                pass
        self.emitted2 = {r["coq"] for r in self.u2.done.values()}
        self.extra2 = []          # module-level helpers phase 2 does not emit: emitted here
        self.u3 = tc3.ClassUnit()
        self.done = {}
        self.busy = set()
        self.order = []
        self.cuts = []
        self.assume = {}          # recursive method under translation -> assumed result type
        self.recursive = set()

    # ------------------------------------------------------------ class checks
    def check_slot_types(self):
        init = self.methods.get("__init__")
        if init is None:
            raise Reject("no unique __init__")
        allowed = {}
        for st in init.body:
            if isinstance(st, ast.Expr) and isinstance(st.value, ast.Call) \
                    and isinstance(st.value.func, ast.Name) and st.value.func.id == "_type_checker":
                for a in st.value.args:
                    if not (isinstance(a, ast.Tuple) and len(a.elts) >= 3
                            and isinstance(a.elts[0], ast.Name)):
                        raise Reject("_type_checker argument shape")
                    allowed[a.elts[0].id] = sorted(ast.unparse(e) for e in a.elts[2:])
        for slot, (param, want) in SLOT_PARAM_TYPES.items():
            if allowed.get(param) != want:
                raise Reject("_type_checker allows %r for %s, the record says %s"
                             % (allowed.get(param), param, SLOT_TY[slot]))
        body = [st for st in init.body if not (isinstance(st, ast.Expr) and isinstance(st.value, ast.Constant))]
        ok = (body and isinstance(body[0], ast.If) and isinstance(body[0].test, ast.Name)
              and body[0].test.id == "is_empty_instance" and len(body[0].body) == 1
              and isinstance(body[0].body[0], ast.Return) and body[0].body[0].value is None
              and not body[0].orelse)
        if not ok:
            raise Reject("TimePoint.__init__ does not start with `if is_empty_instance: return`")

    def check_time_zone_class(self):
        """class TimeZone(Duration): value record (hours, minutes, unknown)."""
        tzc = self.classes.get("TimeZone")
        if tzc is None or [ast.unparse(b) for b in tzc.bases] != ["Duration"]:
            raise Reject("class TimeZone(Duration) not found")
        meths = {st.name: st for st in tzc.body if isinstance(st, ast.FunctionDef)}
        for bad in ("_copy", "__sub__", "__add__", "__mul__", "__rmul__", "__eq__", "to_days",
                    "get_is_in_weeks", "__setattr__", "__getattr__", "__getattribute__", "__new__"):
            if bad in meths:
                raise Reject("class TimeZone overrides %s" % bad)
        slots = [st for st in tzc.body if isinstance(st, ast.Assign)
                 and any(isinstance(t, ast.Name) and t.id == "__slots__" for t in st.targets)]
        if len(slots) != 1 or ast.unparse(slots[0].value) != "[*Duration.__slots__, '_unknown']":
            raise Reject("TimeZone.__slots__ is not [*Duration.__slots__, '_unknown']")
        init = meths.get("__init__")
        if init is None:
            raise Reject("TimeZone.__init__ not found")
        names = [p.arg for p in init.args.args]
        defaults = [ast.unparse(d) for d in init.args.defaults]
        if names != ["self", "hours", "minutes", "unknown", "_is_empty_instance"] or \
                defaults != ["0", "0", "False", "False"]:
            raise Reject("TimeZone.__init__ signature")
        tops = [ast.unparse(st) for st in init.body]
        for want in ("self._unknown = unknown", "self._hours = hours", "self._minutes = minutes",
                     "self._weeks = None",
                     "for attr in ['_years', '_months', '_days', '_seconds']:\n    setattr(self, attr, 0)"):
            if want not in tops:
                raise Reject("TimeZone.__init__ lacks `%s`" % want.split("\n")[0])

    def find_mutators(self):
        """methods that store to slots of self (directly or through another mutator)."""
        def direct(node):
            for n in ast.walk(node):
                tgts = []
                if isinstance(n, ast.Assign):
                    tgts = list(n.targets)
                elif isinstance(n, ast.AugAssign):
                    tgts = [n.target]
                for t in tgts:
                    for e in ([t] if not isinstance(t, ast.Tuple) else list(t.elts)):
                        if isinstance(e, ast.Attribute) and isinstance(e.value, ast.Name) \
                                and e.value.id == "self":
                            return True
                if isinstance(n, ast.Call) and isinstance(n.func, ast.Name) and n.func.id == "setattr" \
                        and n.args and isinstance(n.args[0], ast.Name) and n.args[0].id == "self":
                    return True
            return False
        muts = {nm for nm, node in self.methods.items()
                if node is not None and nm != "__init__" and direct(node)}
        changed = True
        while changed:
            changed = False
            for nm, node in self.methods.items():
                if node is None or nm in muts or nm == "__init__":
                    continue
                for n in ast.walk(node):
                    if isinstance(n, ast.Call) and isinstance(n.func, ast.Attribute) \
                            and isinstance(n.func.value, ast.Name) and n.func.value.id == "self" \
                            and n.func.attr in muts:
                        muts.add(nm)
                        changed = True
                        break
        return muts

    # ------------------------------------------------------------ assigned names
    def assigned_names(self, stmts, env):
        out = []

        def add(t):
            if isinstance(t, ast.Name):
                if t.id not in out:
                    out.append(t.id)
            elif isinstance(t, ast.Tuple):
                for e in t.elts:
                    add(e)
            elif isinstance(t, ast.Attribute) and isinstance(t.value, ast.Name):
                add(t.value)
            else:
                raise Reject("store to %s" % type(t).__name__)

        def walk(ss):
            for s in ss:
                if isinstance(s, Static):
                    continue
                if isinstance(s, ast.Assign):
                    for t in s.targets:
                        add(t)
                elif isinstance(s, ast.AugAssign):
                    add(s.target)
                elif isinstance(s, ast.If):
                    walk(s.body)
                    walk(s.orelse)
                elif isinstance(s, ast.For):
                    add(s.target)
                    walk(s.body)
                    walk(s.orelse)
                elif isinstance(s, ast.While):
                    walk(s.body)
                    walk(s.orelse)
                elif isinstance(s, ast.Expr):
                    c = s.value
                    if isinstance(c, ast.Call) and isinstance(c.func, ast.Name) \
                            and c.func.id == "setattr" and c.args and isinstance(c.args[0], ast.Name):
                        add(c.args[0])
                    if isinstance(c, ast.Call) and isinstance(c.func, ast.Attribute) \
                            and isinstance(c.func.value, ast.Name) and c.func.attr in self.mutators \
                            and env.ty.get(c.func.value.id) == TP:
                        add(c.func.value)
                elif isinstance(s, (ast.Return, ast.Pass, ast.Raise, ast.Break, ast.Continue)):
                    pass
                else:
                    raise Reject("statement %s" % type(s).__name__)
        walk(stmts)
        return out

    # ------------------------------------------------------------ helpers
    def num(self, v, fx, binds, what):
        """A Python number operand: None raises TypeError."""
        if v.ty in (Z, Q):
            return v
        if is_opt(v.ty) and v.ty[1] in (Z, Q):
            t = fx.fresh()
            binds.append("%s <- need %s" % (t, v.text))
            return Val(t, v.ty[1])
        raise Reject("%s on a %r" % (what, v.ty))

    def bind_call(self, fx, binds, text, ty, kind=None):
        t = fx.fresh()
        binds.append("%s <- %s" % (t, text))
        return Val(t, ty, kind=kind)

    @staticmethod
    def wrap(binds, tail):
        return "".join(b + " ;; " for b in binds) + tail

    def lines(self, ind, binds, tail):
        pad = "  " * ind
        return "".join("%s%s ;;\n" % (pad, b) for b in binds) + tail

    # ------------------------------------------------------------ expressions
    def expr(self, n, env, fx):
        """-> (binds, Val).  binds: monadic bindings, in Python evaluation order."""
        if isinstance(n, ast.Constant):
            v = n.value
            if v is True:
                return [], Val("true", B, static=True)
            if v is False:
                return [], Val("false", B, static=False)
            if v is None:
                return [], Val("tt", NONE, static=False)
            if type(v) is int:
                return [], Val(zlit(v), Z)
            if type(v) is float:
                return [], Val(qlit(Fraction(repr(v))), Q)
            if isinstance(v, str):
                return [], Val(None, ("STR", v))
            raise Reject("constant %r" % (v,))
        if isinstance(n, ast.Name):
            if n.id in env.ty:
                ty = env.ty[n.id]
                if n.id in env.partial:
                    raise Reject("object %s used before all its slots are assigned" % n.id)
                if is_static(ty):
                    return [], Val(None, ty, static=(ty[1] if ty[0] == "SB" else None))
                kind = None
                if ty == TP:     # what the object may alias
                    if n.id in env.owned:
                        kind = {"owned:" + n.id}
                    elif n.id == "self":
                        kind = {"self"}
                    elif n.id in fx.params:
                        kind = {"param%d" % fx.params.index(n.id)}
                    else:
                        kind = {"alias"}
                static = False if ty == NONE else env.known.get(n.id) if ty == B else None
                return [], Val("v_" + n.id, ty, kind=kind, static=static)
            raise Reject("name %s is not a (definitely) bound local" % n.id)
        if isinstance(n, ast.UnaryOp):
            if isinstance(n.op, ast.USub):
                if isinstance(n.operand, ast.Constant) and type(n.operand.value) is int:
                    return [], Val(zlit(-n.operand.value), Z)
                binds, v = self.expr(n.operand, env, fx)
                v = self.num(v, fx, binds, "unary minus")
                return binds, (Val("(- %s)" % v.text, Z) if v.ty == Z else Val("(- %s)%%Q" % v.text, Q))
            if isinstance(n.op, ast.Not):
                binds, t, c = self.test(n.operand, env, fx)
                if c is not None:
                    return [], Val("false" if c else "true", B, static=(not c))
                return binds, Val("(negb %s)" % t, B)
            raise Reject("unary operator %s" % type(n.op).__name__)
        if isinstance(n, ast.BinOp):
            return self.binop(n, env, fx)
        if isinstance(n, ast.Compare):
            return self.compare(n, env, fx)
        if isinstance(n, ast.BoolOp):
            ops = []
            for v in n.values:
                b, val = self.expr(v, env, fx)
                if val.ty != B:
                    raise Reject("and/or of a non-bool outside test position")
                ops.append((b, val.text, val.static))
            binds, t, c = self.shortcut(ops, isinstance(n.op, ast.And), fx)
            return binds, Val(t, B, static=c)
        if isinstance(n, ast.IfExp):
            cb, c, k = self.test(n.test, env, fx)
            if k is not None:
                return self.expr(n.body if k else n.orelse, env, fx)
            ab, a = self.expr(n.body, env, fx)
            bb, b = self.expr(n.orelse, env, fx)
            ty = join(a.ty, b.ty)
            a, b = coerce(a, ty), coerce(b, ty)
            if not ab and not bb:
                return cb, Val("(if %s then %s else %s)" % (c, a.text, b.text), ty)
            t = fx.fresh()
            cb.append("%s <- (if %s then %s else %s)" % (
                t, c, self.wrap(ab, "Ok " + a.text), self.wrap(bb, "Ok " + b.text)))
            return cb, Val(t, ty)
        if isinstance(n, (ast.Tuple, ast.List)):
            return self.tuple_expr(n, env, fx)
        if isinstance(n, ast.Attribute):
            return self.attribute(n, env, fx)
        if isinstance(n, ast.Subscript):
            return self.subscript(n, env, fx)
        if isinstance(n, ast.Call):
            return self.call(n, env, fx)
        raise Reject("expression %s" % type(n).__name__)

    def tuple_expr(self, n, env, fx):
        """(a, b, *c) / [a, *b]: a tuple value (lists are only compared, as tuples)."""
        if n.elts and all(isinstance(e, ast.Constant) and isinstance(e.value, str) for e in n.elts):
            return [], Val(None, ("STRLIST", tuple(e.value for e in n.elts)))
        binds, parts = [], []
        for e in n.elts:
            if isinstance(e, ast.Starred):
                b, v = self.expr(e.value, env, fx)
                binds += b
                v = self.unpackable(v, fx, binds)
                parts += tuple_parts(v)
                continue
            b, v = self.expr(e, env, fx)
            if v.text is None or is_obj(v.ty):
                raise Reject("tuple component of type %r" % (v.ty,))
            binds += b
            parts.append(v)
        if len(parts) < 2:
            raise Reject("tuple of fewer than two elements")
        return binds, Val("(" + ", ".join(p.text for p in parts) + ")",
                          T(*[p.ty for p in parts]), parts=parts)

    def unpackable(self, v, fx, binds):
        """a value that is unpacked into targets / starred: None raises TypeError."""
        if is_tuple(v.ty):
            return v
        if is_opt(v.ty) and is_tuple(v.ty[1]):
            t = fx.fresh()
            binds.append("%s <- need %s" % (t, v.text))
            return Val(t, v.ty[1])
        raise Reject("unpacking a %r" % (v.ty,))

    def shortcut(self, ops, is_and, fx):
        """ops: [(binds, bool text, static)] -> (binds, text, static) with Python's short circuit."""
        kept = []
        for b, t, c in ops:
            if c is not None:
                if c == (not is_and):           # deciding operand: the rest is never evaluated
                    if not kept:
                        return [], t, c
                    kept.append((b, t))
                    break
                continue                        # neutral operand
            kept.append((b, t))
        if not kept:
            return [], ("true" if is_and else "false"), is_and
        if len(kept) == 1:
            return kept[0][0], kept[0][1], None
        sym = " && " if is_and else " || "
        if not any(b for b, _ in kept[1:]):
            return list(kept[0][0]), "(" + sym.join(t for _, t in kept) + ")", None

        def build(i):
            b, t = kept[i]
            if i == len(kept) - 1:
                return self.wrap(b, "Ok " + t)
            if not any(bb for bb, _ in kept[i + 1:]):
                return self.wrap(b, "Ok (" + sym.join(tt for _, tt in kept[i:]) + ")")
            if is_and:
                return self.wrap(b, "(if %s then %s else Ok false)" % (t, build(i + 1)))
            return self.wrap(b, "(if %s then Ok true else %s)" % (t, build(i + 1)))
        first_b, first_t = kept[0]
        binds = list(first_b)
        tmp = fx.fresh()
        if is_and:
            binds.append("%s <- (if %s then %s else Ok false)" % (tmp, first_t, build(1)))
        else:
            binds.append("%s <- (if %s then Ok true else %s)" % (tmp, first_t, build(1)))
        return binds, tmp, None

    def test(self, n, env, fx):
        """An expression in truth-value position -> (binds, bool text, static value)."""
        if isinstance(n, ast.BoolOp):
            ops = [self.test(v, env, fx) for v in n.values]
            return self.shortcut(ops, isinstance(n.op, ast.And), fx)
        if isinstance(n, ast.UnaryOp) and isinstance(n.op, ast.Not):
            b, t, c = self.test(n.operand, env, fx)
            if c is not None:
                return [], ("false" if c else "true"), (not c)
            return b, "(negb %s)" % t, None
        b, v = self.expr(n, env, fx)
        return (b,) + self.truth(v)

    @staticmethod
    def truth(v):
        if v.ty == B:
            return v.text, v.static
        if v.ty == ("SB", True) or v.ty == ("SB", False):
            return ("true" if v.ty[1] else "false"), v.ty[1]
        if v.ty == NONE:
            return "false", False
        if v.ty == Z:
            return "(truthy_Z %s)" % v.text, None
        if v.ty == Q:
            return "(truthy_Q %s)" % v.text, None
        if v.ty == OPT(Z):
            return "(truthy_opt truthy_Z %s)" % v.text, None
        if v.ty == OPT(Q):
            return "(truthy_opt truthy_Q %s)" % v.text, None
        raise Reject("truth value of %r" % (v.ty,))

    # -- arithmetic
    def binop(self, n, env, fx):
        ab, a = self.expr(n.left, env, fx)
        bb, b = self.expr(n.right, env, fx)
        binds = ab + bb
        if is_obj(a.ty) or is_obj(b.ty):
            op = type(n.op)
            if a.ty == TP and b.ty in (DUR, TP) and op in (ast.Add, ast.Sub):
                return binds, self.method_call("__add__" if op is ast.Add else "__sub__", a, [b], fx, binds)
            if a.ty == TZ and b.ty == TZ and op is ast.Sub:
                return binds, self.duration_call("__sub__", self.tz_as_duration(a), [self.tz_as_duration(b)],
                                                 fx, binds)
            if a.ty == DUR and b.ty == DUR and op in (ast.Add, ast.Sub):
                return binds, self.duration_call("__add__" if op is ast.Add else "__sub__", a, [b], fx, binds)
            if a.ty == DUR and b.ty == Z and op is ast.Mult:
                return binds, self.duration_call("__mul__", a, [b], fx, binds)
            if a.ty == Z and b.ty == DUR and op is ast.Mult:
                # int.__mul__(a, b) is NotImplemented for a Duration b -> b.__rmul__(a)
                return binds, self.duration_call("__rmul__", b, [a], fx, binds)
            raise Reject("operator %s on %r, %r" % (type(n.op).__name__, a.ty, b.ty))
        what = "operator " + type(n.op).__name__
        a = self.num(a, fx, binds, what)
        b = self.num(b, fx, binds, what)
        return binds, self.arith(type(n.op), a, b, fx, binds)

    def arith(self, op, a, b, fx, binds):
        both_z = a.ty == Z and b.ty == Z
        if op in (ast.Add, ast.Sub, ast.Mult):
            sym = {ast.Add: "+", ast.Sub: "-", ast.Mult: "*"}[op]
            if both_z:
                return Val("(%s %s %s)" % (a.text, sym, b.text), Z)
            return Val("(%s %s %s)%%Q" % (coerce(a, Q).text, sym, coerce(b, Q).text), Q)
        if op is ast.Div:
            return self.bind_call(fx, binds, "py_truediv %s %s" % (
                coerce(a, Q).text, coerce(b, Q).text), Q)
        if op is ast.FloorDiv:
            if both_z:
                return self.bind_call(fx, binds, "py_floordiv_Z %s %s" % (a.text, b.text), Z)
            return self.bind_call(fx, binds, "py_floordiv_Q %s %s" % (
                coerce(a, Q).text, coerce(b, Q).text), Z)
        if op is ast.Mod:
            if both_z:
                return self.bind_call(fx, binds, "py_mod_Z %s %s" % (a.text, b.text), Z)
            return self.bind_call(fx, binds, "py_mod_Q %s %s" % (
                coerce(a, Q).text, coerce(b, Q).text), Q)
        raise Reject("binary operator %s" % op.__name__)

    # -- comparison
    def eq_text(self, a, b):
        """Python == (never raises on the accepted types) -> (text, static)."""
        if a.ty == NONE and b.ty == NONE:
            return "true", True
        if NONE in (a.ty, b.ty):
            o = b if a.ty == NONE else a
            if is_opt(o.ty):
                return "(is_none %s)" % o.text, None
            if o.ty in (Z, Q, B) or is_tuple(o.ty):
                return "false", False
            raise Reject("== between None and %r" % (o.ty,))
        if a.ty == Z and b.ty == Z:
            return "(%s =? %s)" % (a.text, b.text), None
        if a.ty in (Z, Q) and b.ty in (Z, Q):
            return "(Qeq_bool %s %s)" % (coerce(a, Q).text, coerce(b, Q).text), None
        if a.ty == B and b.ty == B:
            return "(Bool.eqb %s %s)" % (a.text, b.text), None
        if (is_opt(a.ty) or is_opt(b.ty)) and not is_tuple(a.ty) and not is_tuple(b.ty):
            ty = join(a.ty, b.ty)
            if ty[1] not in (Z, Q):
                raise Reject("== on %r" % (ty,))
            f = "Z.eqb" if ty[1] == Z else "Qeq_bool"
            return "(opt_eqb %s %s %s)" % (f, coerce(a, ty).text, coerce(b, ty).text), None
        if is_tuple(a.ty) and is_tuple(b.ty):
            if len(a.ty[1]) != len(b.ty[1]):
                return "false", False
            ts = [self.eq_text(x, y) for x, y in zip(tuple_parts(a), tuple_parts(b))]
            if any(c is False for _, c in ts):
                return "false", False
            return "(" + " && ".join(t for t, _ in ts) + ")", None
        raise Reject("== between %r and %r" % (a.ty, b.ty))

    def ord_text(self, op, a, b):
        """a op b for numbers; the strict/non-strict orders of Z and Q."""
        if a.ty == Z and b.ty == Z:
            f = {ast.Lt: "(%s <? %s)", ast.LtE: "(%s <=? %s)"}
            if op in f:
                return f[op] % (a.text, b.text)
            return {ast.Gt: "(%s <? %s)", ast.GtE: "(%s <=? %s)"}[op] % (b.text, a.text)
        if a.ty in (Z, Q) and b.ty in (Z, Q):
            x, y = coerce(a, Q).text, coerce(b, Q).text
            if op is ast.Lt:
                return "(Qlt_bool %s %s)" % (x, y)
            if op is ast.LtE:
                return "(Qle_bool %s %s)" % (x, y)
            if op is ast.Gt:
                return "(Qlt_bool %s %s)" % (y, x)
            return "(Qle_bool %s %s)" % (y, x)
        raise Reject("ordering between %r and %r" % (a.ty, b.ty))

    def compare_vals(self, op, a, b, fx, binds):
        """one comparison of two evaluated operands -> Val (bool)"""
        if op in (ast.In, ast.NotIn):
            if not (a.ty[0] == "STR" and b.ty[0] == "STRLIST"):
                raise Reject("`in` other than <static str> in [<str constants>]")
            r = (a.ty[1] in b.ty[1]) == (op is ast.In)
            return Val("true" if r else "false", B, static=r)
        if a.ty == ("PROPS",) and b.ty == ("PROPS",) and op in (ast.Eq, ast.NotEq):
            v = self.props_eq(a, b, fx, binds)
            return v if op is ast.Eq else Val("(negb %s)" % v.text, B)
        if a.text is None or b.text is None or ("PROPS",) in (a.ty, b.ty):
            raise Reject("comparison of %r with %r" % (a.ty, b.ty))
        if a.ty == TP and b.ty == TP and op in CMP_METHOD:
            return self.method_call(CMP_METHOD[op], a, [b], fx, binds)
        if is_obj(a.ty) or is_obj(b.ty):
            raise Reject("comparison of %r with %r" % (a.ty, b.ty))
        if op in (ast.Is, ast.IsNot):
            if b.ty != NONE:
                raise Reject("`is` with something other than None")
            if a.ty == NONE:
                r = True
            elif is_opt(a.ty) or a.ty == OPQ:
                t = "(is_none %s)" % a.text
                return Val(t if op is ast.Is else "(negb %s)" % t, B)
            else:
                r = False
            r = r == (op is ast.Is)
            return Val("true" if r else "false", B, static=r)
        if op in (ast.Eq, ast.NotEq):
            t, c = self.eq_text(a, b)
            if c is not None:
                c = c == (op is ast.Eq)
                return Val("true" if c else "false", B, static=c)
            return Val(t if op is ast.Eq else "(negb %s)" % t, B)
        if op in (ast.Lt, ast.LtE, ast.Gt, ast.GtE):
            if is_tuple(a.ty) and is_tuple(b.ty):
                # CPython: the first pair of components that differ (==) decides with `op`
                # itself; equal sequences of equal length compare by length
                if len(a.ty[1]) != len(b.ty[1]):
                    raise Reject("ordering of tuples of different lengths")
                pa, pb = tuple_parts(a), tuple_parts(b)
                pairs = []
                for x, y in zip(pa, pb):
                    x = self.num(x, fx, binds, "ordering of a sequence component")
                    y = self.num(y, fx, binds, "ordering of a sequence component")
                    pairs.append((x, y))
                text = "true" if op in (ast.LtE, ast.GtE) else "false"
                for x, y in reversed(pairs):
                    e, _ = self.eq_text(x, y)
                    text = "(if negb %s then %s else %s)" % (e, self.ord_text(op, x, y), text)
                return Val(text, B)
            a = self.num(a, fx, binds, "ordering")
            b = self.num(b, fx, binds, "ordering")
            return Val(self.ord_text(op, a, b), B)
        raise Reject("comparison operator %s" % op.__name__)

    def compare(self, n, env, fx):
        if len(n.ops) != 1:
            raise Reject("chained comparison")
        op = type(n.ops[0])
        ab, a = self.expr(n.left, env, fx)
        bb, b = self.expr(n.comparators[0], env, fx)
        binds = ab + bb
        return binds, self.compare_vals(op, a, b, fx, binds)

    # -- attributes
    def is_calendar(self, n, env):
        return (isinstance(n, ast.Attribute) and isinstance(n.value, ast.Name)
                and n.value.id == "CALENDAR" and "CALENDAR" not in env.ty)

    def attribute(self, n, env, fx):
        if self.is_calendar(n, env):
            consts, mode_assigned = self.cal
            if n.attr in CAL_TY:
                if n.attr not in mode_assigned:
                    raise Reject("CALENDAR.%s is not assigned by set_mode" % n.attr)
                return [], Val("(c_%s cal)" % n.attr, CAL_TY[n.attr])
            if n.attr in CLASS_CONSTS:
                if n.attr not in consts or n.attr in mode_assigned:
                    raise Reject("CALENDAR.%s is not a mode-independent class constant" % n.attr)
                return [], Val(n.attr, Z)
            raise Reject("CALENDAR.%s is outside the translated attributes" % n.attr)
        if isinstance(n.value, ast.Name) and n.value.id in env.ty and is_obj(env.ty[n.value.id]):
            obj = n.value.id
            if n.attr == "__slots__":
                if env.ty[obj] != TP:
                    raise Reject("__slots__ of a %r" % (env.ty[obj],))
                return [], Val(None, ("STRLIST", tuple(self.slots)))
            if obj in env.partial and n.attr not in env.partial[obj]:
                raise Reject("slot %s of %s read before it is assigned" % (n.attr, obj))
            v = self.field_read(Val("v_" + obj, env.ty[obj]), n.attr)
            if (obj, n.attr) in env.nonnull and is_opt(v.ty):
                binds = []
                return binds, self.num(v, fx, binds, "read") if v.ty[1] in (Z, Q) else v
            return [], v
        # a slot of a sub-object: self._time_zone._unknown
        binds, base = self.expr(n.value, env, fx)
        if is_obj(base.ty):
            return binds, self.field_read(base, n.attr)
        raise Reject("attribute %s" % ast.unparse(n))

    def field_read(self, base, slot):
        if base.ty == TP:
            if slot not in SLOT_TY:
                raise Reject("attribute %s of a TimePoint is not a slot" % slot)
            return Val("(%s %s)" % (fld(slot), base.text), SLOT_TY[slot])
        if base.ty == TZ:
            if slot not in TZ_SLOTS:
                raise Reject("attribute %s of a TimeZone is outside (_hours, _minutes, _unknown)" % slot)
            return Val("(z%s %s)" % (slot, base.text), TZ_SLOTS[slot])
        if base.ty == DUR:
            if slot not in DUR_SLOTS:
                raise Reject("attribute %s of a Duration is not a slot" % slot)
            return Val("(GenCode3.s%s %s)" % (slot, base.text), OPT(DUR_SLOTS[slot]))
        raise Reject("attribute of a %r" % (base.ty,))

    def tz_as_duration(self, v):
        """a TimeZone seen as the Duration it is (TimeZone.__init__: years = months = days =
        seconds = 0, weeks = None); its extra slot _unknown is not read by Duration's methods"""
        return Val("(tz_duration %s)" % v.text, DUR)

    def static_str(self, n, env):
        if isinstance(n, ast.Constant) and isinstance(n.value, str):
            return n.value
        if isinstance(n, ast.Name) and n.id in env.ty and env.ty[n.id][0] == "STR":
            return env.ty[n.id][1]
        raise Reject("attribute name `%s` is not a static string" % ast.unparse(n))

    def subscript(self, n, env, fx):
        if isinstance(n.slice, ast.Slice):
            raise Reject("slice")
        lb, lst = self.expr(n.value, env, fx)
        ib, idx = self.expr(n.slice, env, fx)
        binds = lb + ib
        if lst.ty == LZ:
            idx = self.num(idx, fx, binds, "list index")
            if idx.ty != Z:
                raise Reject("list index of type %r" % (idx.ty,))
            return binds, self.bind_call(fx, binds, "py_getitem %s %s" % (lst.text, idx.text), Z)
        if is_tuple(lst.ty) and isinstance(n.slice, ast.Constant) and type(n.slice.value) is int \
                and 0 <= n.slice.value < len(lst.ty[1]):
            return binds, tuple_parts(lst)[n.slice.value]
        raise Reject("subscript of a %r" % (lst.ty,))

    # -- calls
    def call(self, n, env, fx):
        f = n.func
        if isinstance(f, ast.Name):
            if f.id in env.ty:
                raise Reject("call of a local")
            if f.id == "isinstance" and len(n.args) == 2 and not n.keywords:
                _, v = self.expr(n.args[0], env, fx)
                cls = ast.unparse(n.args[1])
                if not is_obj(v.ty):
                    raise Reject("isinstance(%r, %s)" % (v.ty, cls))
                if cls == "TimePoint":
                    r = v.ty == TP
                elif cls == "Duration":
                    r = v.ty in (DUR, TZ)        # class TimeZone(Duration)
                elif cls == "TimeZone":
                    r = v.ty == TZ
                elif cls in ("TimeRecurrence", "int", "float", "str"):
                    r = False
                else:
                    raise Reject("isinstance(..., %s)" % cls)
                return [], Val("true" if r else "false", B, static=r)
            if f.id == "getattr" and len(n.args) in (2, 3) and not n.keywords:
                if len(n.args) == 3 and not (isinstance(n.args[2], ast.Constant)
                                             and n.args[2].value is None):
                    raise Reject("getattr default other than None")
                if not (isinstance(n.args[0], ast.Name) and is_obj(env.ty.get(n.args[0].id, None))):
                    raise Reject("getattr on something other than an object local")
                node = ast.Attribute(value=n.args[0], attr=self.static_str(n.args[1], env), ctx=ast.Load())
                return self.attribute(node, env, fx)
            if f.id in ("abs", "int", "float") and len(n.args) == 1 and not n.keywords:
                binds, v = self.expr(n.args[0], env, fx)
                v = self.num(v, fx, binds, f.id + "()")
                if f.id == "abs":
                    return binds, Val("(%s %s)" % ("Z.abs" if v.ty == Z else "Qabs", v.text), v.ty)
                if f.id == "float":
                    return binds, coerce(v, Q)
                return binds, (v if v.ty == Z else Val("(py_int_Q %s)" % v.text, Z))
            if f.id == "divmod" and len(n.args) == 2 and not n.keywords:
                ab, a = self.expr(n.args[0], env, fx)
                bb, b = self.expr(n.args[1], env, fx)
                binds = ab + bb
                a = self.num(a, fx, binds, "divmod")
                b = self.num(b, fx, binds, "divmod")
                if a.ty == Z and b.ty == Z:
                    return binds, self.bind_call(fx, binds, "py_divmod_Z %s %s" % (a.text, b.text), T(Z, Z))
                return binds, self.bind_call(fx, binds, "py_divmod_Q %s %s" % (
                    coerce(a, Q).text, coerce(b, Q).text), T(Z, Q))
            if f.id == "hash" and len(n.args) == 1 and not n.keywords:
                if not fx.hash_key:
                    raise Reject("hash() somewhere other than directly under `return`")
                return self.expr(n.args[0], env, fx)
            if f.id == CLS:
                raise Reject("TimePoint(...) other than TimePoint(is_empty_instance=True) bound to a local")
            if f.id == "TimeZone":
                return self.construct_tz(n, env, fx)
            if f.id == "Duration":
                return self.construct_duration(n, env, fx)
            if f.id in self.u2.funcs:
                return self.modcall(n, env, fx)
            raise Reject("call of %s" % f.id)
        if isinstance(f, ast.Attribute):
            rb, recv = self.expr(f.value, env, fx)
            if not is_obj(recv.ty):
                raise Reject("method call on a %r" % (recv.ty,))
            binds, args = list(rb), []
            for a in n.args:
                if isinstance(a, ast.Starred):
                    raise Reject("starred argument")
                b, v = self.expr(a, env, fx)
                binds += b
                args.append(v)
            if n.keywords:
                raise Reject("keyword arguments in a method call")
            if recv.ty == TP and f.attr == "get_props" and not args:
                self.check_get_props()
                return binds, Val(recv.text, ("PROPS",))
            if recv.ty == TP:
                if f.attr in self.mutators:
                    raise Reject("call of the mutator %s in expression position" % f.attr)
                return binds, self.method_call(f.attr, recv, args, fx, binds)
            if recv.ty == DUR:
                return binds, self.duration_call(f.attr, recv, args, fx, binds)
            if recv.ty == TZ:
                if f.attr == "_copy" and not args:
                    # Duration._copy on a TimeZone: every slot of self.__slots__ (TimeZone's) copied
                    # into an empty instance of self.__class__: the same value
                    self.require_duration_copy()
                    return binds, self.bind_call(fx, binds, "py_TimeZone__copy %s" % recv.text, TZ)
                raise Reject("method %s of a TimeZone" % f.attr)
        if isinstance(f, ast.Subscript) and isinstance(f.value, ast.Name) and f.value.id == "_operator_map" \
                and "_operator_map" not in env.ty and len(n.args) == 2 and not n.keywords:
            self.check_operator_map()
            name = self.static_str(f.slice, env)
            ops = {"eq": ast.Eq, "lt": ast.Lt, "le": ast.LtE, "gt": ast.Gt, "ge": ast.GtE}
            if name not in ops:
                raise Reject("_operator_map[%r]" % name)        # KeyError at run time
            ab, a = self.expr(n.args[0], env, fx)
            bb, b = self.expr(n.args[1], env, fx)
            binds = ab + bb
            return binds, self.compare_vals(ops[name], a, b, fx, binds)
        raise Reject("call of %s" % ast.unparse(f))

    GET_PROPS = ("props = []\n"
                 "for attr in self.__slots__:\n"
                 "    value = getattr(self, attr, None)\n"
                 "    if callable(getattr(value, '_copy', None)):\n"
                 "        value = value._copy()\n"
                 "    props.append((attr[1:], value))\n"
                 "return props")

    def check_get_props(self):
        """get_props is read as: the list of (slot name, value) for every slot of __slots__, in order,
        values that have a _copy method (the TimeZone) copied.  Only `==` of two such lists is translated."""
        node = self.methods.get("get_props")
        if node is None or [p.arg for p in node.args.args] != ["self"] or node.decorator_list:
            raise Reject("get_props: no unique def get_props(self)")
        body = [st for st in node.body if not (isinstance(st, ast.Expr) and isinstance(st.value, ast.Constant))]
        if "\n".join(ast.unparse(st) for st in body) != self.GET_PROPS:
            raise Reject("the body of get_props is not the shape the translator reads as `all slots`")

    def check_operator_map(self):
        want = "{op.__name__: op for op in [operator.eq, operator.lt, operator.le, operator.gt, operator.ge]}"
        found = [ast.unparse(st.value) for st in self.tree.body if isinstance(st, ast.Assign)
                 and any(isinstance(t, ast.Name) and t.id == "_operator_map" for t in st.targets)]
        if found != [want]:
            raise Reject("_operator_map is not %s" % want)
        if not any(isinstance(st, ast.Import) and any(a.name == "operator" and a.asname is None
                                                     for a in st.names) for st in self.tree.body):
            raise Reject("`import operator` not found")

    def props_eq(self, a, b, fx, binds):
        """a.get_props() == b.get_props(): every slot equal, left to right, short circuit"""
        ops = []
        for slot, ty in SLOTS:
            x, y = self.field_read(Val(a.text, TP), slot), self.field_read(Val(b.text, TP), slot)
            if ty == OPQ:
                ops.append(([], "(opt_eqb String.eqb %s %s)" % (x.text, y.text), None))
            elif ty == TZ:
                # TimeZone defines no __eq__: Duration.__eq__ (phase 3) on the two copies
                bs = []
                v = self.duration_call("__eq__", self.tz_as_duration(x), [self.tz_as_duration(y)], fx, bs)
                ops.append((bs, v.text, None))
            else:
                t, c = self.eq_text(x, y)
                ops.append(([], t, c))
        bs, t, c = self.shortcut(ops, True, fx)
        binds += bs
        return Val(t, B, static=c)

    def require_duration_copy(self):
        if not any(r[0] == "_copy" for r in tc3.REQUIRED):
            raise Reject("Duration._copy is not covered by phase 3")
        self.u3.method("_copy", (), False)      # raises Reject when outside the phase-3 subset

    def modcall(self, n, env, fx):
        """call of a module-level function of data.py: phases 1-2"""
        f = n.func.id
        node = self.u2.funcs.get(f)
        if node is None:
            raise Reject("call of %s, which is not a unique module-level function" % f)
        a = node.args
        if a.posonlyargs or a.vararg or a.kwonlyargs or a.kwarg or a.kw_defaults:
            raise Reject("%s: parameters other than positional ones" % f)
        params = [p.arg for p in a.args]
        if any(isinstance(x, ast.Starred) for x in n.args) or any(k.arg is None for k in n.keywords):
            raise Reject("starred argument")
        if len(n.args) > len(params):
            raise Reject("call of %s with %d arguments" % (f, len(n.args)))
        given = dict(zip(params, n.args))
        for k in n.keywords:
            if k.arg not in params or k.arg in given:
                raise Reject("keyword argument %s of %s" % (k.arg, f))
            given[k.arg] = k.value
        defaults = dict(zip(params[len(params) - len(a.defaults):], a.defaults))
        spec, ptypes, args, binds = {}, {}, [], []
        # Python evaluates the arguments in call order (positional, then keywords)
        order = [p for p in params if p in given]
        order.sort(key=lambda p: (given[p].lineno, given[p].col_offset))
        vals = {}
        for p in order:
            arg = given[p]
            if p == "_":
                raise Reject("explicit cache-key argument of %s" % f)
            if isinstance(arg, ast.Constant) and (arg.value is None or isinstance(arg.value, (bool, str))):
                spec[p] = arg.value
                continue
            b, v = self.expr(arg, env, fx)
            binds += b
            if v.ty == ("SB", True) or v.ty == ("SB", False):
                spec[p] = v.ty[1]
                continue
            if is_opt(v.ty):
                # a None argument: every calendar helper first uses its int arguments in
                # arithmetic / ordering, i.e. raises TypeError
                v = self.num(v, fx, binds, "argument %s of %s" % (p, f))
            if v.ty not in (Z, B):
                raise Reject("argument %s of %s of type %r" % (p, f, v.ty))
            vals[p] = v
        for p in params:
            if p in spec or p in vals:
                continue
            if p == "_":
                raise Reject("%s takes the cache key: call its public wrapper" % f)
            if p not in defaults:
                raise Reject("call of %s without %s" % (f, p))
            d = defaults[p]
            if not isinstance(d, ast.Constant):
                raise Reject("%s: default of %s is not a constant" % (f, p))
            if d.value is None or isinstance(d.value, (bool, str)):
                spec[p] = d.value
            elif type(d.value) is int:
                vals[p] = Val(zlit(d.value), Z)
            else:
                raise Reject("%s: default %r of %s" % (f, d.value, p))
        for p in params:
            if p in vals:
                ptypes[p] = vals[p].ty
                args.append(vals[p].text)
        try:
            callee = self.u2.function(f, spec, ptypes)
        except Reject as exc:
            # not in the phase-2 subset (e.g. a helper reading CALENDAR.MONTHS_IN_YEAR): translated
            # here, like a method without self, when all its arguments are plain ints
            if spec or any(t != Z for t in ptypes.values()) or len(vals) != len(params):
                raise Reject("call of %s, which is outside the phase-2 subset: %s" % (f, exc))
            try:
                own = self.module_function(f, tuple(Z for _ in params))
            except Reject as exc2:
                raise Reject("call of %s, which is outside the phase-2 subset (%s) and outside this one: %s"
                             % (f, exc, exc2))
            head = [own["coq"], "fuel", "cal"] + [vals[p].text for p in params]
            return binds, self.bind_call(fx, binds, " ".join(head), own["ret"])
        for key in list(self.u2.order):
            r = self.u2.done[key]
            if r["text"] is not None and r["coq"] not in self.emitted2 \
                    and r["coq"] not in [c for c, _ in self.extra2]:
                self.extra2.append((r["coq"], "(* %s%s *)\n%s\n" % (r["src"], r["note"], r["text"])))
        for m in callee["mode"]:
            if m not in CAL_TY:
                raise Reject("%s reads CALENDAR.%s, which is not a field of pyCalendar" % (f, m))
        head = [callee["coq"]] + ["(c_%s cal)" % m for m in callee["mode"]] + args
        ret = callee["ret"]
        if tc2.is_res(ret):
            return binds, self.bind_call(fx, binds, "lift2 (%s)" % " ".join(head), ret[1])
        return binds, Val("(%s)" % " ".join(head), ret)

    def duration_call(self, name, recv, args, fx, binds):
        """a method of class Duration on a Duration value: phase 3 (gen/GenCode3.v)"""
        sig = []
        for a in args:
            if a.ty == DUR:
                sig.append(tc3.OBJ)
            elif a.ty == Z:
                sig.append(tc3.Z)
            else:
                raise Reject("Duration method argument of type %r" % (a.ty,))
        sig = tuple(sig)
        if not any(r[0] == name and r[1] == sig and not r[2] for r in tc3.REQUIRED):
            raise Reject("Duration.%s%r is not an entry point of phase 3" % (name, sig))
        try:
            callee = self.u3.method(name, sig)
        except Reject as exc:
            raise Reject("call of Duration.%s, which is outside the phase-3 subset: %s" % (name, exc))
        head = ["GenCode3." + callee["coq"]] + [self.cal_for3(m) for m in callee["mode"]] + \
            [recv.text] + [a.text for a in args]
        ret = callee["ret"]
        return self.bind_call(fx, binds, "lift3 (%s)" % " ".join(head), ret)

    @staticmethod
    def cal_for3(m):
        if m not in CAL_TY:
            raise Reject("a Duration method reads CALENDAR.%s, which is not a field of pyCalendar" % m)
        return "(c_%s cal)" % m

    def construct_duration(self, n, env, fx):
        """Duration(k=v, ...): phase 3's __init__ entry with every other parameter at its default"""
        if n.args:
            raise Reject("positional constructor arguments")
        entry = [r for r in tc3.REQUIRED if r[0] == "__init__" and r[2] and len(r[1]) == 7]
        if not entry:
            raise Reject("phase 3 has no full Duration.__init__ entry")
        sig = entry[0][1]
        init = self.u3.methods.get("__init__")
        names = [p.arg for p in init.args.args][1:]
        defaults = dict(zip(names, init.args.defaults))
        binds, kw = [], {}
        for k in n.keywords:
            if k.arg is None or k.arg in kw:
                raise Reject("constructor keywords")
            b, v = self.expr(k.value, env, fx)
            binds += b
            kw[k.arg] = v
        if set(kw) - {k for k, _ in sig}:
            raise Reject("Duration(...) keyword outside %s" % [k for k, _ in sig])
        args = []
        for k, ty in sig:
            if k in kw:
                v = self.num(kw[k], fx, binds, "Duration(%s=...)" % k)
                if ty == tc3.Z and v.ty != Z:
                    raise Reject("Duration(%s=<%r>)" % (k, v.ty))
                args.append(coerce(v, ty).text)
            else:
                d = defaults.get(k)
                if not (isinstance(d, ast.Constant) and type(d.value) is int):
                    raise Reject("Duration.__init__ default of %s" % k)
                args.append(coerce(Val(zlit(d.value), Z), ty).text)
        callee = self.u3.method("__init__", sig, True)
        head = ["GenCode3." + callee["coq"]] + [self.cal_for3(m) for m in callee["mode"]] + args
        return binds, self.bind_call(fx, binds, "lift3 (%s)" % " ".join(head), DUR)

    def construct_tz(self, n, env, fx):
        """TimeZone(hours=<int literal>, minutes=<int literal>) within TimeZone.__init__'s bounds"""
        if n.args:
            raise Reject("positional TimeZone arguments")
        kw = {}
        for k in n.keywords:
            if k.arg not in ("hours", "minutes") or k.arg in kw:
                raise Reject("TimeZone(%s=...)" % k.arg)
            v = k.value
            if isinstance(v, ast.UnaryOp) and isinstance(v.op, ast.USub) and isinstance(v.operand, ast.Constant):
                val = -v.operand.value
            elif isinstance(v, ast.Constant):
                val = v.value
            else:
                raise Reject("TimeZone argument that is not an int literal")
            if type(val) is not int:
                raise Reject("TimeZone argument that is not an int literal")
            kw[k.arg] = val
        h, m = kw.get("hours", 0), kw.get("minutes", 0)
        if not (-99 <= h <= 99 and -59 <= m <= 59 and not (h > 0 and m < 0) and not (h < 0 and m > 0)):
            raise Reject("TimeZone(%d, %d) is outside TimeZone.__init__'s bounds" % (h, m))
        return [], Val("(mkTimeZone %s %s false)" % (zlit(h), zlit(m)), TZ)

    def method_call(self, name, recv, args, fx, binds):
        sig = []
        for a in args:
            if a.ty in (Z, TP, DUR, TZ) or (isinstance(a.ty, tuple) and a.ty[0] in ("STR", "SB")):
                sig.append(a.ty)
            else:
                raise Reject("method argument of type %r" % (a.ty,))
        try:
            callee = self.method(name, tuple(sig))
        except Reject as exc:
            raise Reject("call of %s.%s, which is outside the subset: %s" % (CLS, name, exc))
        dyn = [a for a in args if a.text is not None]
        head = [callee["coq"], "fuel", "cal", recv.text] + [a.text for a in dyn]
        kind = None
        if callee["ret"] == TP:
            kind = set()
            for k in callee["ret_kinds"]:
                if k == "self":
                    kind |= (recv.kind or {"alias"})
                elif k.startswith("param"):
                    kind |= (args[int(k[5:])].kind or {"alias"})
                else:
                    kind.add(k)
        return self.bind_call(fx, binds, " ".join(head), callee["ret"], kind=kind)

    # ------------------------------------------------------------ statements
    def block(self, stmts, env, ctx, fx, ind):
        if not stmts:
            return ctx.fall(env, ind)
        s, rest = stmts[0], stmts[1:]
        if isinstance(s, Static):
            env = env.copy()
            if s.value is None:
                env.drop(s.name)
            else:
                if s.name in env.ty and not is_static(env.ty[s.name]):
                    raise Reject("loop variable %s rebinds a local" % s.name)
                env.ty[s.name] = ("STR", s.value)
            return self.block(rest, env, ctx, fx, ind)
        return self.stmt(s, rest, env, ctx, fx, ind)

    def store(self, obj, slot, v, env, fx):
        """-> (Coq `let` line, new env) for obj.<slot> = v."""
        if env.ty.get(obj) != TP:
            raise Reject("store to a slot of %s, which is not a TimePoint local" % obj)
        if slot not in SLOT_TY:
            raise Reject("store to %s, which is not a slot" % slot)
        if obj not in env.owned:
            raise Reject("store to a slot of %s, which is not an owned (fresh) object" % obj)
        if v.text is None or v.ty in (TP, DUR):
            raise Reject("store of a %r into a slot" % (v.ty,))
        v = coerce(v, SLOT_TY[slot])
        env2 = env.copy()
        if obj in env2.partial:
            got = env2.partial[obj] | {slot}
            if got == frozenset(SLOT_TY):
                del env2.partial[obj]
            else:
                env2.partial[obj] = got
        return "let v_%s := %s v_%s %s in\n" % (obj, setter(slot), obj, v.text), env2

    def storable(self, name, env, fx):
        if name in RESERVED or name in self.u2.funcs or (name == "self" and fx.proc):
            raise Reject("local %s shadows a global / the mutated self" % name)
        if name in env.ty and is_static(env.ty[name]):
            raise Reject("assignment to the static name %s" % name)

    def bind_local(self, name, v, env, fx):
        """env after `name = v` (ownership of TimePoint objects included)."""
        self.storable(name, env, fx)
        env2 = env.copy()
        env2.drop(name)
        if v.ty == TP:
            kinds = v.kind or {"alias"}
            if kinds <= {"fresh", "owned:" + name}:
                env2.owned.add(name)      # fresh, or the object `name` already owned
            for k in kinds:
                # a second name for an owned object could observe its later mutation
                if k.startswith("owned:") and k[6:] != name:
                    raise Reject("%s may alias the mutable object %s" % (name, k[6:]))
        if v.text is None:
            raise Reject("binding a %r to a local" % (v.ty,))
        env2.ty[name] = v.ty
        return env2

    def assign_target(self, tgt, v, env, fx, pad):
        """-> (text, env) for one target of an assignment"""
        if isinstance(tgt, ast.Name):
            env2 = self.bind_local(tgt.id, v, env, fx)
            return pad + "let v_%s := %s in\n" % (tgt.id, v.text), env2
        if isinstance(tgt, ast.Attribute) and isinstance(tgt.value, ast.Name):
            line, env2 = self.store(tgt.value.id, tgt.attr, v, env, fx)
            return pad + line, env2
        raise Reject("assignment target %s" % type(tgt).__name__)

    def stmt(self, s, rest, env, ctx, fx, ind):
        pad = "  " * ind
        if isinstance(s, ast.Expr) and isinstance(s.value, ast.Constant) \
                and isinstance(s.value.value, str) and fx.top and s is fx.top[0]:
            return self.block(rest, env, ctx, fx, ind)     # docstring
        if isinstance(s, ast.Pass):
            return self.block(rest, env, ctx, fx, ind)
        if isinstance(s, ast.Return):
            if rest:
                raise Reject("statement after return")
            return self.return_stmt(s, env, ctx, fx, ind)
        if isinstance(s, ast.Break):
            if rest or ctx.brk is None:
                raise Reject("break outside a loop / statement after break")
            return ctx.brk(env, ind)
        if isinstance(s, ast.Continue):
            if rest or ctx.cont is None:
                raise Reject("continue outside a loop / statement after continue")
            return ctx.cont(env, ind)
        if isinstance(s, ast.Raise):
            if rest:
                raise Reject("statement after raise")
            if not (isinstance(s.exc, ast.Call) and isinstance(s.exc.func, ast.Name)
                    and s.exc.func.id in ("TypeError", "ValueError") and s.cause is None):
                raise Reject("raise of something other than TypeError(...) / ValueError(...)")
            # the message is not evaluated (assumed not to raise itself)
            return pad + "Raise " + s.exc.func.id
        if isinstance(s, ast.Assign):
            return self.assign(s, rest, env, ctx, fx, ind)
        if isinstance(s, ast.AugAssign):
            op = type(s.op)
            tgt = s.target
            if isinstance(tgt, ast.Name):
                cb, cur = self.expr(tgt, env, fx)
            elif isinstance(tgt, ast.Attribute) and isinstance(tgt.value, ast.Name) \
                    and env.ty.get(tgt.value.id) == TP:
                cb, cur = self.attribute(tgt, env, fx)
            else:
                raise Reject("augmented assignment target")
            vb, v = self.expr(s.value, env, fx)
            binds = cb + vb
            if is_obj(cur.ty) or is_obj(v.ty):
                raise Reject("augmented assignment on objects")
            what = "operator %s=" % op.__name__
            cur = self.num(cur, fx, binds, what)
            v = self.num(v, fx, binds, what)
            r = self.arith(op, cur, v, fx, binds)
            if isinstance(tgt, ast.Name):
                env2 = self.bind_local(tgt.id, r, env, fx)
                return self.lines(ind, binds, pad + "let v_%s := %s in\n" % (tgt.id, r.text)) + \
                    self.block(rest, env2, ctx, fx, ind)
            line, env2 = self.store(tgt.value.id, tgt.attr, r, env, fx)
            return self.lines(ind, binds, pad + line) + self.block(rest, env2, ctx, fx, ind)
        if isinstance(s, ast.Expr):
            c = s.value
            if isinstance(c, ast.Call) and isinstance(c.func, ast.Name) and c.func.id == "setattr" \
                    and len(c.args) == 3 and not c.keywords and isinstance(c.args[0], ast.Name):
                slot = self.static_str(c.args[1], env)
                binds, v = self.expr(c.args[2], env, fx)
                line, env2 = self.store(c.args[0].id, slot, v, env, fx)
                return self.lines(ind, binds, pad + line) + self.block(rest, env2, ctx, fx, ind)
            if isinstance(c, ast.Call) and isinstance(c.func, ast.Attribute) \
                    and isinstance(c.func.value, ast.Name) and env.ty.get(c.func.value.id) == TP \
                    and c.func.attr in self.mutators:
                return self.mutator_call(c, rest, env, ctx, fx, ind)
            if isinstance(c, ast.Call):
                binds, v = self.expr(c, env, fx)     # evaluated for its exceptions only
                return self.lines(ind, binds, "") + self.block(rest, env, ctx, fx, ind)
            raise Reject("expression statement `%s`" % ast.unparse(s)[:60])
        if isinstance(s, ast.If):
            return self.if_stmt(s, rest, env, ctx, fx, ind)
        if isinstance(s, ast.For):
            return self.for_stmt(s, rest, env, ctx, fx, ind)
        if isinstance(s, ast.While):
            return self.while_stmt(s, rest, env, ctx, fx, ind)
        raise Reject("statement %s" % type(s).__name__)

    def mutator_call(self, c, rest, env, ctx, fx, ind):
        """obj.m(...) as a statement, m a mutator: obj must be owned; its state is replaced"""
        pad = "  " * ind
        obj = c.func.value.id
        if obj not in env.owned:
            raise Reject("call of the mutator %s on %s, which is not an owned (fresh) object"
                         % (c.func.attr, obj))
        if obj in env.partial:
            raise Reject("object %s used before all its slots are assigned" % obj)
        if c.keywords:
            raise Reject("keyword arguments in a method call")
        binds, args = [], []
        for a in c.args:
            b, v = self.expr(a, env, fx)
            binds += b
            args.append(v)
        sig = []
        for a in args:
            if a.ty in (Z, DUR, TZ) or (isinstance(a.ty, tuple) and a.ty[0] in ("STR", "SB")):
                sig.append(a.ty)
            else:
                raise Reject("mutator argument of type %r" % (a.ty,))
        try:
            callee = self.method(c.func.attr, tuple(sig))
        except Reject as exc:
            raise Reject("call of %s.%s, which is outside the subset: %s" % (CLS, c.func.attr, exc))
        head = [callee["coq"], "fuel", "cal", "v_" + obj] + [a.text for a in args if a.text is not None]
        binds.append("v_%s <- %s" % (obj, " ".join(head)))
        env2 = env.copy()
        env2.nonnull = {(o, sl) for o, sl in env2.nonnull if o != obj}
        return self.lines(ind, binds, "") + self.block(rest, env2, ctx, fx, ind)

    def is_empty_instance(self, n):
        return (isinstance(n, ast.Call) and isinstance(n.func, ast.Name) and n.func.id == CLS
                and not n.args and len(n.keywords) == 1 and n.keywords[0].arg == "is_empty_instance"
                and isinstance(n.keywords[0].value, ast.Constant)
                and n.keywords[0].value.value is True)

    def assign(self, s, rest, env, ctx, fx, ind):
        pad = "  " * ind
        tgts = list(s.targets)
        # x = TimePoint(is_empty_instance=True): an object none of whose slots is assigned
        if len(tgts) == 1 and isinstance(tgts[0], ast.Name) and self.is_empty_instance(s.value):
            name = tgts[0].id
            self.storable(name, env, fx)
            env2 = env.copy()
            env2.drop(name)
            env2.ty[name] = TP
            env2.owned.add(name)
            env2.partial[name] = frozenset()
            return pad + "let v_%s := py_empty_instance in\n" % name + \
                self.block(rest, env2, ctx, fx, ind)
        if isinstance(s.value, ast.IfExp) and len(tgts) == 1:
            # x = (a if c else b)  is  if c: x = a  else: x = b   (same evaluation order); the
            # statement form copes with branches of different types (Python is dynamically typed)
            node = ast.If(test=s.value.test,
                          body=[ast.copy_location(ast.Assign(targets=tgts, value=s.value.body), s)],
                          orelse=[ast.copy_location(ast.Assign(targets=tgts, value=s.value.orelse), s)])
            ast.copy_location(node, s)
            ast.fix_missing_locations(node)
            try:
                _b, probe = self.expr(s.value, env, fx)
            except Reject:
                probe = None
            if probe is None:
                return self.if_stmt(node, rest, env, ctx, fx, ind)
        binds, v = self.expr(s.value, env, fx)
        out = self.lines(ind, binds, "")
        env2 = env
        if len(tgts) > 1:       # a = b = e: e evaluated once, targets assigned left to right
            if any(isinstance(t, ast.Tuple) for t in tgts) or v.ty == TP:
                raise Reject("chained assignment of a tuple / object")
        for tgt in tgts:
            if isinstance(tgt, ast.Tuple):
                v2 = self.unpackable(v, fx, binds2 := [])
                out += self.lines(ind, binds2, "")
                if len(v2.ty[1]) != len(tgt.elts):
                    raise Reject("tuple assignment shape")
                parts = v2.parts
                if parts is None:
                    names = [fx.fresh() for _ in tgt.elts]
                    out += pad + "let '(%s) := %s in\n" % (", ".join(names), v2.text)
                    parts = [Val(nm, ty) for nm, ty in zip(names, v2.ty[1])]
                elif {x.id for x in ast.walk(s.value) if isinstance(x, ast.Name)} & {
                        x.id for e in tgt.elts for x in ast.walk(e) if isinstance(x, ast.Name)} \
                        or len({ast.unparse(e) for e in tgt.elts}) != len(tgt.elts):
                    raise Reject("tuple assignment whose targets occur in its right-hand side")
                for e, p in zip(tgt.elts, parts):
                    if is_obj(p.ty):
                        raise Reject("object in a tuple assignment")
                    line, env2 = self.assign_target(e, p, env2, fx, pad)
                    out += line
            else:
                line, env2 = self.assign_target(tgt, v, env2, fx, pad)
                out += line
                if isinstance(tgt, ast.Name) and v.ty == B and self.is_truncated_flag(s.value, env) \
                        and isinstance(s.value, ast.Attribute):
                    env2 = env2.copy()
                    env2.truncs.add(tgt.id)
        return out + self.block(rest, env2, ctx, fx, ind)

    def return_stmt(self, s, env, ctx, fx, ind):
        if fx.proc:
            if not (s.value is None or (isinstance(s.value, ast.Constant) and s.value.value is None)):
                raise Reject("a mutator returning a value")
            if "self" in env.partial or "self" not in env.owned:
                raise Reject("internal: self in a mutator")
            return ctx.ret("v_self", ind)
        if s.value is None:
            v, binds = Val("tt", NONE), []
        else:
            node = s.value
            saved = fx.hash_key
            if isinstance(node, ast.Call) and isinstance(node.func, ast.Name) and node.func.id == "hash" \
                    and fx.name == "__hash__":
                fx.hash_key = True
            try:
                binds, v = self.expr(node, env, fx)
            finally:
                fx.hash_key = saved
        return self.lines(ind, binds, self.emit_return(v, ctx, fx, ind))

    def emit_return(self, v, ctx, fx, ind):
        if v.text is None:
            raise Reject("return of a %r" % (v.ty,))
        if v.ty == TP:
            for k in (v.kind or {"alias"}):
                fx.ret_kinds.add("fresh" if k.startswith("owned:") else k)
        fx.ret = v.ty if fx.ret is None else join(fx.ret, v.ty)
        if fx.ret_expect is not None:
            v = coerce(v, fx.ret_expect)
        elif v.ty == NONE:
            v = Val("tt", NONE)
        return ctx.ret(v.text, ind)

    def merge_envs(self, env, ends, names):
        """Environment after an `if` without return; -> (env2, merged names, their types)."""
        merged, types = [], []
        env2 = env.copy()
        for nm in names:
            env2.drop(nm)
        env2.nonnull = ends[0].nonnull & ends[1].nonnull & env2.nonnull
        env2.truncs = ends[0].truncs & ends[1].truncs & env2.truncs
        env2.known = {k: v for k, v in env2.known.items()
                      if ends[0].known.get(k) == v and ends[1].known.get(k) == v}
        for nm in names:
            a, b = ends[0].ty.get(nm), ends[1].ty.get(nm)
            if a is None or b is None or is_static(a) or is_static(b):
                continue
            ty = join(a, b)
            merged.append(nm)
            types.append(ty)
            env2.ty[nm] = ty
            if ty == TP:
                if nm in ends[0].owned and nm in ends[1].owned:
                    env2.owned.add(nm)
                pa, pb = ends[0].partial.get(nm), ends[1].partial.get(nm)
                if pa is not None or pb is not None:
                    full = frozenset(SLOT_TY)
                    got = (pa if pa is not None else full) & (pb if pb is not None else full)
                    if got != full:
                        env2.partial[nm] = got
        return env2, merged, types

    @staticmethod
    def refine_bool(test, env, value):
        """inside `if x:` (x a bool local) x is True, inside its else False: a later `if x:` /
        `a if x else b` on the same path is decided"""
        neg = isinstance(test, ast.UnaryOp) and isinstance(test.op, ast.Not)
        n = test.operand if neg else test
        if isinstance(n, ast.Name) and env.ty.get(n.id) == B:
            env = env.copy()
            env.known[n.id] = value != neg
        return env

    def refine_true(self, test, env, fx, ind):
        """`if x:` / `if obj._slot:` -- in the true branch the value is not None"""
        pad = "  " * ind
        env = self.refine_bool(test, env, True)
        if isinstance(test, ast.Name) and is_opt(env.ty.get(test.id, None)) \
                and env.ty[test.id][1] in (Z, Q):
            t = fx.fresh()
            env2 = env.copy()
            env2.ty[test.id] = env.ty[test.id][1]
            return "%s%s <- need v_%s ;;\n%slet v_%s := %s in\n" % (pad, t, test.id, pad, test.id, t), env2
        if isinstance(test, ast.Attribute) and isinstance(test.value, ast.Name) \
                and env.ty.get(test.value.id) in (DUR, TZ):
            env2 = env.copy()
            env2.nonnull.add((test.value.id, test.attr))
            return "", env2
        return "", env

    def is_truncated_flag(self, n, env):
        """`<TimePoint local>._truncated`, or a local bound to it and not rebound since"""
        if isinstance(n, ast.Attribute) and n.attr == "_truncated" and isinstance(n.value, ast.Name) \
                and env.ty.get(n.value.id) == TP:
            return True
        return isinstance(n, ast.Name) and n.id in env.truncs and env.ty.get(n.id) == B

    def truncated_test(self, test, env):
        """True: the test IS a truncated flag (the `then` branch is truncated-only); False: it is
        `not <flag>` (the `else` branch is truncated-only); None: neither"""
        if self.is_truncated_flag(test, env):
            return True
        if isinstance(test, ast.UnaryOp) and isinstance(test.op, ast.Not) \
                and self.is_truncated_flag(test.operand, env):
            return False
        return None

    def cut_branch(self, s, fx, env, exc, ind):
        # truncated TimePoints are out of scope: a branch reached only under `<obj>._truncated`
        # that is outside the subset is cut (a pseudo outcome, never a Python behaviour)
        self.cuts.append(("%s.%s, line %d: `if %s:`" % (CLS, fx.name, s.lineno, ast.unparse(s.test)),
                          str(exc)))
        return "  " * (ind + 1) + "Raise NotTranslated"

    def if_stmt(self, s, rest, env, ctx, fx, ind):
        pad = "  " * ind
        cb, c, k = self.test(s.test, env, fx)
        if k is not None:  # decided statically: only that branch exists
            br = s.body if k else s.orelse
            return self.block(br + ([] if always_returns(br) else rest), env, ctx, fx, ind)
        pre, env_t = self.refine_true(s.test, env, fx, ind + 1)
        env_f = self.refine_bool(s.test, env, False)
        if contains([s], (ast.Return, ast.Raise, ast.Break, ast.Continue)):
            polarity = self.truncated_test(s.test, env)
            try:
                a = pre + self.block(s.body + ([] if always_returns(s.body) else rest), env_t, ctx, fx, ind + 1)
            except Reject as exc:
                if polarity is not True:
                    raise
                a = self.cut_branch(s, fx, env, exc, ind)
            try:
                b = self.block(s.orelse + ([] if always_returns(s.orelse) else rest), env_f, ctx, fx, ind + 1)
            except Reject as exc:
                # `if not <flag>: ...` : the else branch (with what follows it when the then
                # branch always returns) is reached only for truncated points
                if polarity is not False or not (always_returns(s.body) or not rest):
                    raise
                b = self.cut_branch(s, fx, env, exc, ind)
            return self.lines(ind, cb, "%sif %s then\n%s\n%selse\n%s" % (pad, c, a, pad, b))
        ends = []

        def probe(e, _ind):
            ends.append(e)
            return "tt"
        n0 = fx.n
        self.block(s.body, env_t, ctx.with_fall(probe), fx, 0)
        self.block(s.orelse, env_f, ctx.with_fall(probe), fx, 0)
        fx.n = n0
        if len(ends) != 2:
            raise Reject("internal: branch ends")
        try:
            env2, merged, types = self.merge_envs(env, ends, self.assigned_names([s], env))
        except Reject:
            # the branches leave a local at types without a common one (Python is dynamically
            # typed): the rest of the block is translated once per branch
            pre, env_t = self.refine_true(s.test, env, fx, ind + 1)
            a = pre + self.block(s.body + rest, env_t, ctx, fx, ind + 1)
            b = self.block(s.orelse + rest, env_f, ctx, fx, ind + 1)
            return self.lines(ind, cb, "%sif %s then\n%s\n%selse\n%s" % (pad, c, a, pad, b))

        def out(e, i):
            vals = [coerce(Val("v_" + nm, e.ty[nm]), ty) for nm, ty in zip(merged, types)]
            tup = ", ".join(v.text for v in vals)
            if not merged:
                tup = "tt"
            return "  " * i + "Ok " + (("(" + tup + ")") if len(merged) > 1 else tup)
        pre, env_t = self.refine_true(s.test, env, fx, ind + 2)
        a = pre + self.block(s.body, env_t, ctx.with_fall(out), fx, ind + 2)
        b = self.block(s.orelse, env_f, ctx.with_fall(out), fx, ind + 2)
        if len(merged) > 1:
            tmp = fx.fresh()
            head = "%s%s <- (if %s then\n%s\n%s  else\n%s) ;;\n%slet '(%s) := %s in\n" % (
                pad, tmp, c, a, pad, b, pad, ", ".join("v_" + nm for nm in merged), tmp)
        elif merged:
            head = "%sv_%s <- (if %s then\n%s\n%s  else\n%s) ;;\n" % (pad, merged[0], c, a, pad, b)
        else:
            head = "%s_ <- (if %s then\n%s\n%s  else\n%s) ;;\n" % (pad, c, a, pad, b)
        return self.lines(ind, cb, head) + self.block(rest, env2, ctx, fx, ind)

    # ------------------------------------------------------------ loops
    def iterable(self, n, env, fx):
        if isinstance(n, ast.Call) and isinstance(n.func, ast.Name) and n.func.id == "range" \
                and "range" not in env.ty and not n.keywords and len(n.args) in (1, 2):
            binds, vs = [], []
            for a in n.args:
                b, v = self.expr(a, env, fx)
                binds += b
                v = self.num(v, fx, binds, "range()")
                if v.ty != Z:
                    raise Reject("range() of a %r" % (v.ty,))
                vs.append(v.text)
            if len(vs) == 1:
                vs = ["0"] + vs
            return binds, Val("(py_range %s %s)" % tuple(vs), LZ)
        binds, v = self.expr(n, env, fx)
        if not (is_list(v.ty) or v.ty[0] == "STRLIST"):
            raise Reject("for over `%s`, a %r" % (ast.unparse(n), v.ty))
        return binds, v

    @staticmethod
    def target_names(tgt):
        if isinstance(tgt, ast.Name):
            return [tgt.id]
        if isinstance(tgt, ast.Tuple) and all(isinstance(e, ast.Name) for e in tgt.elts):
            names = [e.id for e in tgt.elts]
            if len(set(names)) != len(names):
                raise Reject("name twice in a loop target")
            return names
        raise Reject("loop target %s" % ast.unparse(tgt))

    def loop_state(self, stmts, extra, env):
        names = []
        for nm in self.assigned_names(stmts, env) + extra:
            if nm in env.ty and not is_static(env.ty[nm]) and nm not in names:
                if nm in env.partial:
                    raise Reject("object %s under construction across a loop" % nm)
                names.append(nm)
        return names

    @staticmethod
    def state_pattern(state, ind_text):
        if not state:
            return ""
        if len(state) == 1:
            return "%slet v_%s := st_ in\n" % (ind_text, state[0])
        return "%slet '(%s) := st_ in\n" % (ind_text, ", ".join("v_" + n for n in state))

    @staticmethod
    def state_type(types):
        if not types:
            return "unit"
        return "(" + " * ".join(coq_type(t) for t in types) + ")" if len(types) > 1 else coq_type(types[0])

    @staticmethod
    def state_tuple(e, state, types):
        if not state:
            return "tt"
        vals = []
        for nm, ty in zip(state, types):
            if nm not in e.ty:
                raise Reject("%s is not bound on every path through the loop body" % nm)
            vals.append(coerce(Val("v_" + nm, e.ty[nm]), ty).text)
        return vals[0] if len(vals) == 1 else "(" + ", ".join(vals) + ")"

    def loop_env(self, env, state, types):
        e = env.copy()
        for nm, ty in zip(state, types):
            e.ty[nm] = ty
            e.truncs.discard(nm)
            e.known.pop(nm, None)
            e.nonnull = {(o, s) for o, s in e.nonnull if o != nm}
        return e

    def loop_types(self, env, state, run_body):
        """least fixpoint of the types of the loop state; run_body(env_in, ctx) translates the body"""
        types = [env.ty[nm] for nm in state]
        for _ in range(8):
            exits = []

            def rec(e, _i):
                exits.append(e)
                return "tt"
            env_in = self.loop_env(env, state, types)
            run_body(env_in, Ctx(rec, lambda t, i: "tt", rec, rec, True))
            new = list(types)
            for e in exits:
                for k, nm in enumerate(state):
                    if nm not in e.ty:
                        raise Reject("%s is not bound on every path through the loop body" % nm)
                    new[k] = join(new[k], e.ty[nm])
                    if e.ty[nm] == TP and nm in env.owned and nm not in e.owned:
                        raise Reject("%s loses ownership inside the loop" % nm)
                    if nm in e.partial:
                        raise Reject("%s under construction at the end of a loop body" % nm)
            if new == types:
                return types
            types = new
        raise Reject("loop state types do not stabilise")

    def after_loop(self, f, state, types, has_ret, s, rest, env, ctx, fx, ind, orelse):
        pad = "  " * ind
        env2 = self.loop_env(env, state, types)
        pat = self.state_pattern(state, "  " * (ind + 1))
        out = "%smatch %s with\n" % (pad, f)
        if has_ret:
            out += "%s| Retn r_ =>\n%s\n" % (pad, ctx.ret("r_", ind + 1))
        else:
            out += "%s| Retn r_ => match r_ with end\n" % pad
        if orelse:
            out += "%s| Next st_ =>\n%s%s\n" % (pad, pat, self.block(
                orelse + ([] if always_returns(orelse) else rest), env2, ctx, fx, ind + 1))
            out += "%s| Brk st_ =>\n%s%s\n" % (pad, pat, self.block(rest, env2, ctx, fx, ind + 1))
        else:
            out += "%s| Next st_ | Brk st_ =>\n%s%s\n" % (pad, pat, self.block(rest, env2, ctx, fx, ind + 1))
        return out + "%send" % pad

    def body_ctx(self, state, types, ctx):
        def exit_with(tag):
            return lambda e, i: "  " * i + "Ok (%s %s)" % (tag, self.state_tuple(e, state, types))
        return Ctx(exit_with("Next"), lambda t, i: "  " * i + "Ok (Retn %s)" % t,
                   exit_with("Brk"), exit_with("Next"), True)

    def for_stmt(self, s, rest, env, ctx, fx, ind):
        pad = "  " * ind
        it = s.iter
        if isinstance(it, (ast.List, ast.Tuple)) and it.elts and all(
                isinstance(e, ast.Constant) and isinstance(e.value, str) for e in it.elts):
            binds, itv = [], Val(None, ("STRLIST", tuple(e.value for e in it.elts)))
        else:
            try:
                binds, itv = self.iterable(it, env, fx)
            except Reject as exc:
                raise Reject("for over `%s`: %s" % (ast.unparse(it), exc))
        if itv.ty[0] == "STRLIST":          # unrolled statically
            if s.orelse or contains(s.body, (ast.Break, ast.Continue)):
                raise Reject("for/else, break or continue in a statically unrolled loop")
            if not isinstance(s.target, ast.Name):
                raise Reject("for target")
            var = s.target.id
            self.storable(var, env, fx)
            if var in self.assigned_names(s.body, env):
                raise Reject("loop body assigns the loop variable")
            unrolled = []
            for item in itv.ty[1]:
                unrolled.append(Static(var, item))
                unrolled += s.body
            unrolled.append(Static(var, None))
            return self.block(unrolled + rest, env, ctx, fx, ind)
        elem = itv.ty[1]
        targets = self.target_names(s.target)
        for nm in targets:
            self.storable(nm, env, fx)
        elem_tys = [elem] if isinstance(s.target, ast.Name) else (
            list(elem[1]) if is_tuple(elem) and len(elem[1]) == len(targets) else None)
        if elem_tys is None:
            raise Reject("loop target does not match items of type %r" % (elem,))
        state = self.loop_state(s.body, targets, env)
        has_ret = contains(s.body, (ast.Return,))

        def bind_targets(e):
            e = e.copy()
            for nm, ty in zip(targets, elem_tys):
                e.drop(nm)
                e.ty[nm] = ty
            return e
        n0 = fx.n
        types = self.loop_types(env, state, lambda e, c: self.block(s.body, bind_targets(e), c, fx, 0))
        fx.n = n0
        f = fx.fresh()
        env_b = bind_targets(self.loop_env(env, state, types))
        ipad = "  " * (ind + 2)
        tpat = ("%slet v_%s := it_ in\n" % (ipad, targets[0])) if isinstance(s.target, ast.Name) else \
            "%slet '(%s) := it_ in\n" % (ipad, ", ".join("v_" + n for n in targets))
        body = self.block(s.body, env_b, self.body_ctx(state, types, ctx), fx, ind + 2)
        init = self.state_tuple(env, state, types)
        head = "%s%s <- for_flow (R := %s) %s\n%s  (fun (st_ : %s) (it_ : %s) =>\n%s%s%s)\n%s  %s ;;\n" % (
            pad, f, fx.ret_coq() if has_ret else "Empty_set", itv.text, pad, self.state_type(types),
            coq_type(elem), self.state_pattern(state, ipad), tpat, body, pad, init)
        return self.lines(ind, binds, head) + self.after_loop(
            f, state, types, has_ret, s, rest, env, ctx, fx, ind, list(s.orelse))

    @staticmethod
    def normal_while(s):
        """`while True:` whose body starts with `if not c: break` (or `if c: A else: break`) is the
        loop `while c: A; rest of the body` -- the same tests are evaluated at the same points (there
        is no while/else).  Normalised so that both spellings give the same translation."""
        if not (isinstance(s.test, ast.Constant) and s.test.value is True and s.body
                and isinstance(s.body[0], ast.If)):
            return s
        first = s.body[0]

        def only_break(ss):
            return len(ss) == 1 and isinstance(ss[0], ast.Break)
        if only_break(first.body) and not first.orelse:
            t = first.test
            test = t.operand if (isinstance(t, ast.UnaryOp) and isinstance(t.op, ast.Not)) \
                else ast.copy_location(ast.UnaryOp(op=ast.Not(), operand=t), t)
            body = list(s.body[1:])
        elif only_break(first.orelse) and first.body:
            test = first.test
            body = list(first.body) + list(s.body[1:])
            if always_returns(first.body):
                return s
        else:
            return s
        if not body:
            body = [ast.copy_location(ast.Pass(), s)]
        new = ast.While(test=test, body=body, orelse=[])
        ast.copy_location(new, s)
        ast.fix_missing_locations(new)
        return new

    def while_stmt(self, s, rest, env, ctx, fx, ind):
        pad = "  " * ind
        if s.orelse:
            raise Reject("while/else")
        s = self.normal_while(s)
        state = self.loop_state(s.body, [], env)
        has_ret = contains(s.body, (ast.Return,))
        n0 = fx.n
        types = self.loop_types(env, state, lambda e, c: self.block(s.body, e, c, fx, 0))
        fx.n = n0
        f = fx.fresh()
        env_b = self.loop_env(env, state, types)
        ipad = "  " * (ind + 2)
        cb, c, k = self.test(s.test, env_b, fx)
        if k is False:
            raise Reject("while with a test that is statically false")
        if k is True:       # `while True:` left only through break / return
            cb, c = [], "true"
        cond = self.lines(ind + 2, cb, ipad + "Ok " + c)
        body = self.block(s.body, env_b, self.body_ctx(state, types, ctx), fx, ind + 2)
        init = self.state_tuple(env, state, types)
        spat = self.state_pattern(state, ipad)
        head = "%s%s <- while_flow (R := %s) fuel\n%s  (fun (st_ : %s) =>\n%s%s)\n%s  (fun (st_ : %s) =>\n%s%s)\n%s  %s ;;\n" % (
            pad, f, fx.ret_coq() if has_ret else "Empty_set", pad, self.state_type(types), spat, cond,
            pad, self.state_type(types), spat, body, pad, init)
        return head + self.after_loop(f, state, types, has_ret, s, rest, env, ctx, fx, ind, [])

    # ------------------------------------------------------------ methods
    def method(self, name, sig):
        key = (name, sig)
        if key in self.done:
            return self.done[key]
        if key in self.busy:
            if key in self.assume:     # direct recursion: one more unit of fuel per level
                self.recursive.add(key)
                return {"coq": entry_coq(name, sig), "ret": self.assume[key], "ret_kinds": ["fresh"]}
            raise RecursionSeen(key)
        node = self.methods.get(name)
        if node is None:
            raise Reject("%s.%s: no unique def" % (CLS, name))
        self.busy.add(key)
        try:
            try:
                res = self.method_body(node, sig)
            except RecursionSeen as rec:
                if rec.key != key or name in self.mutators:
                    raise Reject("recursion through %s" % rec.key[0])
                res = None
                for guess in (DUR, B, Z, TP):
                    self.assume[key] = guess
                    try:
                        r = self.method_body(node, sig)
                    except Reject:
                        continue
                    if r["ret"] == guess:
                        res = r
                        break
                self.assume.pop(key, None)
                if res is None:
                    raise Reject("recursion through %s" % name)
        finally:
            self.busy.discard(key)
        for other, r in self.done.items():
            if r["coq"] == res["coq"]:
                raise Reject("%s is used at two signatures" % name)
        self.done[key] = res
        self.order.append(key)
        return res

    def module_function(self, name, sig):
        """a module-level def of data.py outside phases 1-2, all parameters ints"""
        key = ("def " + name, sig)
        if key in self.done:
            return self.done[key]
        if key in self.busy:
            raise Reject("recursion through %s" % name)
        node = self.u2.funcs.get(name)
        a = node.args
        if a.posonlyargs or a.vararg or a.kwonlyargs or a.kwarg or a.kw_defaults or a.defaults \
                or node.decorator_list:
            raise Reject("%s: defaults / decorators / special parameters" % name)
        params = [p.arg for p in a.args]
        if len(params) != len(sig) or len(set(params)) != len(params):
            raise Reject("%s: parameter list" % name)
        self.busy.add(key)
        try:
            fx = Fn(name, False)
            fx.top = tuple(node.body)
            fx.params = params
            env = Env()
            for p in params:
                if p in RESERVED or p in self.u2.funcs or p == "self":
                    raise Reject("parameter %s shadows a global" % p)
                env.ty[p] = Z
            ctx = Ctx(lambda e, i: self.emit_return(Val("tt", NONE), ctx, fx, i),
                      lambda t, i: "  " * i + "Ok " + t)
            body = self.translate_body(fx, node, env, ctx)
        finally:
            self.busy.discard(key)
        coq = "py_fn_%s" % name
        text = "Definition %s (fuel : nat) (cal : pyCalendar) %s: exc %s :=\n%s." % (
            coq, "".join("(v_%s : Z) " % p for p in params), coq_type(fx.ret), body)
        text += "\n#[global] Hint Unfold %s : gencode4_helpers." % coq
        res = {"coq": coq, "ret": fx.ret, "ret_kinds": [], "text": text, "src": "data.py: %s" % name,
               "sig": ", ".join("%s : int" % p for p in params), "proc": False}
        self.done[key] = res
        self.order.append(key)
        return res

    def translate_body(self, fx, node, env, ctx):
        """Two passes: the first finds the common return type, the second coerces to it."""
        cuts0 = len(self.cuts)
        self.block(list(node.body), env.copy(), ctx, fx, 1)
        del self.cuts[cuts0:]
        if fx.ret is None and not fx.proc:
            raise Reject("%s: no return" % node.name)
        fx.ret_expect = fx.ret
        fx.n = 0
        fx.ret_kinds = set()
        return self.block(list(node.body), env.copy(), ctx, fx, 1)

    def method_body(self, node, sig):
        a = node.args
        if a.posonlyargs or a.vararg or a.kwonlyargs or a.kwarg or a.kw_defaults:
            raise Reject("%s: parameters other than plain positional ones" % node.name)
        for d in node.decorator_list:
            if not (isinstance(d, ast.Name) and d.id == "property"):
                raise Reject("%s: decorator %s" % (node.name, ast.unparse(d)))
        names = [p.arg for p in a.args]
        if not names or names[0] != "self" or len(set(names)) != len(names):
            raise Reject("%s: parameter list" % node.name)
        params = names[1:]
        if len(sig) > len(params) or len(params) - len(sig) > len(a.defaults):
            raise Reject("%s called with %d arguments" % (node.name, len(sig)))
        defaults = dict(zip(params[len(params) - len(a.defaults):], a.defaults))
        proc = node.name in self.mutators
        fx = Fn(node.name, proc)
        fx.top = tuple(node.body)
        fx.params = params
        env = Env()
        env.ty["self"] = TP
        if proc:
            env.owned.add("self")
        pre, binders, suffix, sigtext = [], [], "", []
        for i, p in enumerate(params):
            if p in RESERVED or p in self.u2.funcs:
                raise Reject("parameter %s shadows a global" % p)
            if i < len(sig):
                ty = sig[i]
                if isinstance(ty, tuple) and ty[0] == "STR":
                    env.ty[p] = ty
                    suffix += "__" + "".join(ch for ch in ty[1] if ch.isalnum())
                    sigtext.append("%s = %r" % (p, ty[1]))
                elif isinstance(ty, tuple) and ty[0] == "SB":
                    env.ty[p] = ty
                    d = defaults.get(p)
                    if not (isinstance(d, ast.Constant) and d.value is ty[1]):
                        suffix += "__T" if ty[1] else "__F"
                    sigtext.append("%s = %r" % (p, ty[1]))
                else:
                    env.ty[p] = ty
                    if node.name in OVERLOADED and is_obj(ty):
                        suffix += "__" + ty[1]
                    binders.append("(v_%s : %s)" % (p, coq_type(ty)))
                    sigtext.append("%s : %s" % (p, ty[1] if is_obj(ty) else "int"))
                continue
            d = defaults[p]
            if not isinstance(d, ast.Constant):
                raise Reject("%s: default of %s is not a constant" % (node.name, p))
            if d.value is True or d.value is False:
                env.ty[p] = ("SB", d.value)
            elif d.value is None:
                env.ty[p] = NONE
                pre.append("  let v_%s := tt in\n" % p)
            elif type(d.value) is int:
                env.ty[p] = Z
                pre.append("  let v_%s := %s in\n" % (p, zlit(d.value)))
            else:
                raise Reject("%s: default %r of %s" % (node.name, d.value, p))
            sigtext.append("%s = %r (default)" % (p, d.value))

        if proc:
            ctx = Ctx(lambda e, i: self.proc_end(e, i), lambda t, i: "  " * i + "Ok " + t)
        else:
            ctx = Ctx(lambda e, i: self.emit_return(Val("tt", NONE), ctx, fx, i),
                      lambda t, i: "  " * i + "Ok " + t)
        body = self.translate_body(fx, node, env, ctx)
        ret = TP if proc else fx.ret
        coq = "py_%s_%s%s" % (CLS, node.name, suffix)
        key = (node.name, sig)
        if key in self.recursive:
            # self-recursive: a Fixpoint on the fuel; each level of recursion takes one unit
            text = ("Fixpoint %s (fuel : nat) (cal : pyCalendar) (v_self : pyTimePoint) %s{struct fuel} : exc %s :=\n"
                    "  match fuel with\n  | O => Raise OutOfFuel\n  | Datatypes.S fuel =>\n%s%s\n  end.") % (
                coq, "".join(b + " " for b in binders), coq_type(ret), "".join(pre), body)
        else:
            text = "Definition %s (fuel : nat) (cal : pyCalendar) (v_self : pyTimePoint) %s: exc %s :=\n%s%s." % (
                coq, "".join(b + " " for b in binders), coq_type(ret), "".join(pre), body)
        return {"coq": coq, "ret": ret, "ret_kinds": sorted(fx.ret_kinds) if not proc else [],
                "text": text, "src": "%s.%s" % (CLS, node.name), "sig": ", ".join(sigtext),
                "proc": proc}

    @staticmethod
    def proc_end(e, i):
        if "self" not in e.owned or "self" in e.partial or e.ty.get("self") != TP:
            raise Reject("internal: self at the end of a mutator")
        return "  " * i + "Ok v_self"


# operators dispatching on the class of their operand: one translation per operand class
OVERLOADED = ("__add__", "__sub__")
CMP_METHOD = {ast.Eq: "__eq__", ast.Lt: "__lt__", ast.LtE: "__le__", ast.Gt: "__gt__", ast.GtE: "__ge__"}

# entry points: (method, parameter types)
REQUIRED = [
    ("_tick_over_day_of_month", ()),
    ("_tick_over", ()),
    ("_copy", ()),
    ("get_is_calendar_date", ()),
    ("get_is_ordinal_date", ()),
    ("get_is_week_date", ()),
    ("get_calendar_date", ()),
    ("get_ordinal_date", ()),
    ("get_week_date", ()),
    ("to_calendar_date", ()),
    ("to_ordinal_date", ()),
    ("to_week_date", ()),
    ("add_months", (Z,)),
    ("__add__", (DUR,)),
    ("__sub__", (DUR,)),
    ("to_time_zone", (TZ,)),
    ("to_utc", ()),
    ("_normalised", ()),
    ("get_hour_minute_second", ()),
    ("get_second_of_day", ()),
    ("__hash__", ()),
    ("_cmp", (TP, ("STR", "eq"))),
    ("_cmp", (TP, ("STR", "lt"))),
    ("_cmp", (TP, ("STR", "le"))),
    ("_cmp", (TP, ("STR", "gt"))),
    ("_cmp", (TP, ("STR", "ge"))),
    ("__sub__", (TP,)),
]
# attempted on every run only to record why they are not covered
ATTEMPTED = [
]
OUT_OF_SCOPE = [
    ("truncated TimePoints",
     "every theorem is about states rep p (p : tp, non-truncated, as __init__ leaves them); branches "
     "guarded by `<obj>._truncated` that are outside the subset are cut (CUTS_code4)"),
    ("_tick_over [check_changes=True]",
     "the dict of changed fields (dict comprehension over __slots__); only the default "
     "check_changes=False is translated, the test is decided statically"),
]

HEAD = '''(* GENERATED by tools/translate_code4.py from the method bodies of class TimePoint
   (metomi/isodatetime/data.py).  Do not edit.

   Object state: one record field per entry of TimePoint.__slots__ (checked on
   this run: %(slots)s); None = Python None.  The time zone (class TimeZone(Duration)) is
   the immutable value record pyTimeZone (hours, minutes, unknown); Duration
   operands are gen/GenCode3.v's pyDuration.
   Numeric convention (the model's own, DESIGN.md section 3): the date slots and
   int parameters are Z; _hour_of_day _minute_of_hour _second_of_minute are exact
   rationals Q (int or ideal float; an int meeting a Q is injected); `/` is exact
   division in Q; `//`, `%%`, divmod are floor division / modulo with an integer
   quotient; int(x) truncates toward zero; float(x) is the injection;
   comparisons are exact; a zero divisor raises ZeroDivisionError; None as an
   arithmetic or ordering operand raises TypeError; None == number is False.
   Every method is a function  fuel -> cal -> self -> arguments -> exc result.
   A method that stores to slots of self (a mutator) returns the new state of
   self.  `while` loops consume fuel (Raise OutOfFuel: not a Python behaviour).
   cal : pyCalendar holds the CALENDAR attributes assigned by Calendar.set_mode at
   call time; upper-case names are class constants from gen/CalTables.v.
   v_<name>: Python parameter/local; t<n>: temporaries in Python evaluation order. *)
From Coq Require Import ZArith QArith Qround Qabs List Bool String.
From Iso Require Import gen.CalTables gen.GenCode gen.GenCode2.
From Iso Require gen.GenCode3.
Import ListNotations.
Open Scope Z_scope.

Record pyCalendar : Type := mkCalendar {
%(calfields)s }.

Record pyTimeZone : Type := mkTimeZone { z_hours : Z; z_minutes : Z; z_unknown : bool }.

Record pyTimePoint : Type := mkTimePoint {
%(fields)s }.
%(setters)s
(* TimePoint(is_empty_instance=True): no slot is assigned yet.  The translator only
   accepts code that assigns every slot before the object is read, passed on
   or returned, so this placeholder content is never observed. *)
Definition py_empty_instance : pyTimePoint := mkTimePoint %(nones)s.

Inductive pyexn : Type :=
| TypeError | ZeroDivisionError | ValueError | IndexError
| NoneResult       (* a helper returned None where a value was needed: not followed further *)
| OutOfFuel        (* a `while` loop was not finished within the fuel: not a Python behaviour *)
| NotTranslated.   (* a branch for truncated TimePoints that is outside the subset (CUTS_code4) *)
Inductive exc (A : Type) : Type := Ok (a : A) | Raise (e : pyexn).
Arguments Ok {A} a.
Arguments Raise {A} e.
Definition ebind {A B : Type} (m : exc A) (f : A -> exc B) : exc B :=
  match m with Ok a => f a | Raise e => Raise e end.
Notation "x <- m ;; k" := (ebind m (fun x => k)) (at level 61, m at next level, right associativity).

(* results of the module-level helpers (gen/GenCode2.v) and of the Duration methods (gen/GenCode3.v) *)
Definition lift2 {A : Type} (r : res A) : exc A :=
  match r with
  | Ret a => Ok a
  | Abn RaiseValueError => Raise ValueError
  | Abn RaiseTypeError => Raise TypeError
  | Abn RetNone => Raise NoneResult
  | Abn NoneStored => Raise NoneResult
  end.
Definition lift3 {A : Type} (r : GenCode3.exc A) : exc A :=
  match r with
  | GenCode3.Ok a => Ok a
  | GenCode3.Raise GenCode3.TypeError => Raise TypeError
  | GenCode3.Raise GenCode3.ZeroDivisionError => Raise ZeroDivisionError
  end.

(* loops: how one execution of a loop body ends *)
Inductive flow (S R : Type) : Type :=
| Next (s : S)     (* fell off the end / continue; for a finished loop: exhausted (for-else runs) *)
| Brk (s : S)      (* break *)
| Retn (r : R).    (* return r *)
Arguments Next {S R} s.
Arguments Brk {S R} s.
Arguments Retn {S R} r.
Fixpoint for_flow {E S R : Type} (l : list E) (body : S -> E -> exc (flow S R)) (s : S) : exc (flow S R) :=
  match l with
  | [] => Ok (Next s)
  | x :: r =>
    f <- body s x ;;
    match f with Next s' => for_flow r body s' | Brk s' => Ok (Brk s') | Retn v => Ok (Retn v) end
  end.
(* fuel = the number of iterations the loop may take *)
Fixpoint while_flow {S R : Type} (fuel : nat) (cond : S -> exc bool) (body : S -> exc (flow S R)) (s : S)
  : exc (flow S R) :=
  c <- cond s ;;
  if c then
    match fuel with
    | O => Raise OutOfFuel
    | Datatypes.S n =>
      f <- body s ;;
      match f with Next s' => while_flow n cond body s' | Brk s' => Ok (Brk s') | Retn v => Ok (Retn v) end
    end
  else Ok (Next s).

(* a number is required: None raises TypeError *)
Definition need {A : Type} (v : option A) : exc A :=
  match v with Some a => Ok a | None => Raise TypeError end.
Definition is_none {A : Type} (v : option A) : bool := match v with None => true | Some _ => false end.
Definition opt_eqb {A : Type} (eqb : A -> A -> bool) (a b : option A) : bool :=
  match a, b with Some x, Some y => eqb x y | None, None => true | _, _ => false end.
Definition truthy_Z (z : Z) : bool := negb (z =? 0).
Definition truthy_Q (q : Q) : bool := negb (Qeq_bool q 0).
Definition truthy_opt {A : Type} (t : A -> bool) (v : option A) : bool :=
  match v with Some a => t a | None => false end.
Definition Qlt_bool (a b : Q) : bool := negb (Qle_bool b a).
Definition py_floordiv_Z (a b : Z) : exc Z := if b =? 0 then Raise ZeroDivisionError else Ok (a / b).
Definition py_mod_Z (a b : Z) : exc Z := if b =? 0 then Raise ZeroDivisionError else Ok (a mod b).
Definition py_divmod_Z (a b : Z) : exc (Z * Z) :=
  if b =? 0 then Raise ZeroDivisionError else Ok (a / b, a mod b).
Definition py_truediv (a b : Q) : exc Q := if Qeq_bool b 0 then Raise ZeroDivisionError else Ok (a / b)%%Q.
Definition py_floordiv_Q (a b : Q) : exc Z :=
  if Qeq_bool b 0 then Raise ZeroDivisionError else Ok (Qfloor (a / b)).
Definition py_mod_Q (a b : Q) : exc Q :=
  if Qeq_bool b 0 then Raise ZeroDivisionError else Ok (a - b * inject_Z (Qfloor (a / b)))%%Q.
Definition py_divmod_Q (a b : Q) : exc (Z * Q) :=
  if Qeq_bool b 0 then Raise ZeroDivisionError
  else Ok (Qfloor (a / b), (a - b * inject_Z (Qfloor (a / b)))%%Q).
Definition py_int_Q (x : Q) : Z := if Qle_bool 0 x then Qfloor x else Qceiling x.
(* L[i] with Python's negative indices and IndexError *)
Definition py_getitem (l : list Z) (i : Z) : exc Z :=
  let n := Z.of_nat (List.length l) in
  if (0 <=? i) && (i <? n) then Ok (nth (Z.to_nat i) l 0)
  else if (- n <=? i) && (i <? 0) then Ok (nth (Z.to_nat (n + i)) l 0)
  else Raise IndexError.

(* class TimeZone(Duration): the Duration a TimeZone is (TimeZone.__init__, checked on this run:
   _years = _months = _days = _seconds = 0, _weeks = None, _hours/_minutes ints); Duration._copy
   on a TimeZone copies every slot of TimeZone.__slots__: the same value *)
Definition tz_duration (z : pyTimeZone) : GenCode3.pyDuration :=
  GenCode3.mkDuration (Some 0) (Some 0) None (Some 0)
    (Some (inject_Z (z_hours z))) (Some (inject_Z (z_minutes z))) (Some (inject_Z 0)).
Definition py_TimeZone__copy (z : pyTimeZone) : exc pyTimeZone := Ok z.

(* module-level helpers of data.py outside phases 1-2, translated here (py_fn_<name>): the proofs
   see through them (code4_helpers) *)
Create HintDb gencode4_helpers.
Ltac code4_helpers := try autounfold with gencode4_helpers in *.

'''

PRELUDE_NAMES = ["ebind", "need", "is_none", "opt_eqb", "truthy_Z", "truthy_Q", "truthy_opt",
                 "py_empty_instance", "lift2", "lift3", "py_TimeZone__copy"]


def field_coq_type(t):
    return coq_type(t)


def head_text():
    fields = ";\n".join("  %s : %s" % (fld(s), field_coq_type(t)) for s, t in SLOTS)
    calfields = ";\n".join("  c_%s : %s" % (a, coq_type(t)) for a, t in CAL_FIELDS)
    setters = ""
    for s, t in SLOTS:
        args = " ".join("v" if s2 == s else "(%s o)" % fld(s2) for s2, _ in SLOTS)
        setters += "Definition %s (o : pyTimePoint) (v : %s) : pyTimePoint := mkTimePoint %s.\n" % (
            setter(s), field_coq_type(t), args)
    nones = []
    for s, t in SLOTS:
        nones.append("0" if t == Z else "false" if t == B else "(mkTimeZone 0 0 false)" if t == TZ else "None")
    return HEAD % {"slots": ", ".join(s for s, _ in SLOTS), "fields": fields, "setters": setters,
                   "nones": " ".join(nones), "calfields": calfields}


def entry_coq(name, sig):
    suffix = ""
    for ty in sig:
        if isinstance(ty, tuple) and ty[0] == "STR":
            suffix += "__" + "".join(ch for ch in ty[1] if ch.isalnum())
        elif name in OVERLOADED and is_obj(ty):
            suffix += "__" + ty[1]
    return "py_%s_%s%s" % (CLS, name, suffix)


def build_text():
    failures, body, covered, emitted = [], [], [], []
    unit = ClassUnit()

    def flush():
        for coq, text in unit.extra2:
            if coq not in emitted:
                emitted.append(coq)
                body.append(text)
        for key in list(unit.order):   # callees first, each once
            r = unit.done[key]
            if r["coq"] not in emitted:
                emitted.append(r["coq"])
                note = (" [%s]" % r["sig"]) if r["sig"] else ""
                kind = " -- mutator: the result is the new state of self" if r["proc"] else ""
                text = r["text"]
                meth = key[0]
                if not r["proc"] and not meth.startswith("def ") and not meth.startswith("__") \
                        and not any(meth == q[0] for q in REQUIRED):
                    # a private helper method that the entry points call (none today; after a
                    # refactor e.g. `_get_max_day_in_month(self)`): the proofs see through it
                    text += "\n#[global] Hint Unfold %s : gencode4_helpers." % r["coq"]
                body.append("(* %s%s%s *)\n%s\n" % (r["src"], note, kind, text))

    for name, sig in REQUIRED:
        coq = entry_coq(name, sig)
        try:
            unit.method(name, sig)
            flush()
            covered.append(coq)
        except Exception as exc:  # fail closed on anything, translator bugs included
            failures.append((coq, "%s: %s" % (type(exc).__name__, exc)))
            if coq not in emitted:
                emitted.append(coq)
                body.append("(* %s.%s: REJECTED: %s *)\nDefinition %s : unit := tt.\n"
                            % (CLS, name, clean(exc), coq))
    rejected = []
    for name, sig in ATTEMPTED:
        label = "%s.%s" % (CLS, name)
        try:
            ClassUnit().method(name, sig)
            rejected.append((label, "inside the subset, but no model function is tied to it (not emitted)"))
        except Exception as exc:
            rejected.append((label, "%s" % exc))
    known = {r[0] for r in REQUIRED + ATTEMPTED} | {k[0] for k in unit.done if not k[0].startswith("def ")}
    for nm in sorted(unit.methods):
        if nm in known:
            continue
        try:
            ClassUnit().method(nm, ())
            rejected.append(("%s.%s" % (CLS, nm), "inside the subset, but no model function is tied to it (not emitted)"))
        except Exception as exc:
            rejected.append(("%s.%s" % (CLS, nm), "no entry point; as m(self): %s" % exc))
    rejected += OUT_OF_SCOPE
    cuts = list({a: (a, b) for a, b in reversed(unit.cuts)}.values())[::-1]
    names = PRELUDE_NAMES + [fld(s) for s, _ in SLOTS] + [setter(s) for s, _ in SLOTS] + \
        [c for c in emitted if c.startswith("py_" + CLS) or c.startswith("py_fn_")]
    if not failures:
        body.append("(* unfold the generated code (not the arithmetic, not the loops) *)\n"
                    "Ltac code4_unfold :=\n  cbv beta iota zeta delta [%s]." % " ".join(dict.fromkeys(names)))
    else:
        body.append("Ltac code4_unfold := idtac.")
    body.append("Definition COVERED_code4 : list string :=\n  [%s]%%string." % "; ".join(
        coq_str(c) for c in covered))
    body.append("(* branches guarded by `<obj>._truncated` that were cut (Raise NotTranslated), with the reason *)\n"
                "Definition CUTS_code4 : list (string * string) :=\n  [%s]%%string." % ";\n   ".join(
                    "(%s, %s)" % (coq_str(a), coq_str(clean(b))) for a, b in cuts))
    body.append("(* attempted and not covered, or deliberately out of scope, with the reason *)\n"
                "Definition REJECTED_code4 : list (string * string) :=\n  [%s]%%string." % ";\n   ".join(
                    "(%s, %s)" % (coq_str(a), coq_str(clean(b))) for a, b in rejected))
    if failures:
        body.append("".join("(* REJECTED: %s: %s *)\n" % (c, clean(w)) for c, w in failures) +
                    "Definition translator_ok_code4 : bool := false.")
    else:
        body.append("Definition translator_ok_code4 : bool := true.")
    return head_text() + "\n".join(body) + "\n"


def gen_code4():
    try:
        text = build_text()
    except Exception as exc:  # fail closed
        text = head_text() + "(* REJECTED: %s: %s *)\n" % (type(exc).__name__, clean(exc)) + "".join(
            "Definition %s : unit := tt.\n" % entry_coq(n, s) for n, s in REQUIRED) + \
            "Ltac code4_unfold := idtac.\nDefinition translator_ok_code4 : bool := false.\n"
    return write_if_changed("GenCode4.v", text)


if __name__ == "__main__":
    os.makedirs(translate.OUT, exist_ok=True)
    print("translate_code4: %s" % ("regenerated GenCode4.v" if gen_code4() else "nothing changed"))
