#!/venv/bin/python
"""Differential smoke test of the TRANSLATOR (not of the model): evaluate the
generated definitions of coq/gen/GenCode3.v by vm_compute on random Durations
and compare with what the real package returns (PYTHONPATH=/repo).

Only binary-exact fractions with small numerators are generated, so CPython's
float arithmetic is exact and must agree with the Q semantics bit for bit.
Writes a scratch Coq file under /tmp/gencode3_diff and compiles it there
(against the compiled /verif/coq tree); removed afterwards.
Usage: tools/gencode3_diff.py [ncases] [seed]
"""
import os
import random
import shutil
import subprocess
import sys
from fractions import Fraction

REPO = os.environ.get("ISO_REPO", "/repo")
sys.path.insert(0, REPO)
from metomi.isodatetime.data import Duration, CALENDAR  # noqa: E402

COQ = os.path.normpath(os.path.join(os.path.dirname(os.path.abspath(__file__)), "..", "coq"))
OUT = "/tmp/gencode3_diff"
MODES = {"gregorian": "G", "360day": "D360", "365day": "D365", "366day": "D366"}


def z(n):
    return "(%d)" % n if n < 0 else "%d" % n


def q(x):
    f = Fraction(x)
    return "(Qmake %s %d)" % (z(f.numerator), f.denominator)


def dur(d):
    if d._weeks is not None:
        assert all(getattr(d, s) is None for s in d.__slots__ if s != "_weeks")
        return "(DW %s)" % z(d._weeks)
    return "(DU %s %s %s %s %s %s)" % (z(d._years), z(d._months), z(d._days),
                                      q(d._hours), q(d._minutes), q(d._seconds))


def rand_dur(rng):
    k = rng.random()
    if k < 0.2:
        return Duration(weeks=rng.choice([0, 1, -1, 2, 52, -7, rng.randint(-400, 400)]))

    def zi(p0=0.4, lim=40):
        return 0 if rng.random() < p0 else rng.randint(-lim, lim)

    def qi():
        if rng.random() < 0.4:
            return 0
        if rng.random() < 0.5:
            return rng.randint(-200, 200)
        return rng.randint(-4000, 4000) / rng.choice([2, 4, 8])
    nominal = rng.random() < 0.5
    d = Duration(years=zi() if nominal else 0, months=zi() if nominal else 0, days=zi(0.3, 400),
                 hours=qi(), minutes=qi(), seconds=qi() * rng.choice([1, 1, 1000]))
    return d


def b(v):
    return "true" if v else "false"


def main():
    n = int(sys.argv[1]) if len(sys.argv) > 1 else 150
    rng = random.Random(int(sys.argv[2]) if len(sys.argv) > 2 else 20261001)
    checks = []
    for i in range(n):
        mode = rng.choice(list(MODES))
        CALENDAR.set_mode(mode)
        md = MODES[mode]
        a, c = rand_dur(rng), rand_dur(rng)
        if rng.random() < 0.15:
            c = a + Duration(days=0)            # an equal duration spelled differently
        k = rng.choice([0, 1, -1, 2, -3, 7, rng.randint(-50, 50)])
        A, C = "(rep %s)" % dur(a), "(rep %s)" % dur(c)
        cal2, cal3 = "(cSIH %s) (cSID %s)" % (md, md), "(cSIH %s) (cSID %s) (cRDY %s)" % (md, md, md)
        ds = a.get_days_and_seconds()
        checks += [
            "ds_is (py_Duration_get_days_and_seconds %s %s) %s %s" % (cal3, A, z(int(ds[0])), q(ds[1])),
            "q_is (py_Duration_get_seconds %s %s) %s" % (cal3, A, q(a.get_seconds())),
            "q_is (py_Duration__get_non_nominal_seconds %s %s) %s" % (cal2, A, q(a._get_non_nominal_seconds())),
            "b_is (py_Duration_is_exact %s) %s" % (A, b(a.is_exact())),
            "b_is (py_Duration_get_is_in_weeks %s) %s" % (A, b(a.get_is_in_weeks())),
            "b_is (py_Duration___bool__ %s) %s" % (A, b(bool(a))),
            "b_is (py_Duration___eq__ %s %s %s) %s" % (cal2, A, C, b(a == c)),
            "b_is (py_Duration___lt__ %s %s %s) %s" % (cal3, A, C, b(a < c)),
            "b_is (py_Duration___le__ %s %s %s) %s" % (cal3, A, C, b(a <= c)),
            "b_is (py_Duration___gt__ %s %s %s) %s" % (cal3, A, C, b(a > c)),
            "b_is (py_Duration___ge__ %s %s %s) %s" % (cal3, A, C, b(a >= c)),
            "obj_is (py_Duration___add__ %s %s) %s" % (A, C, dur(a + c)),
            "obj_is (py_Duration___sub__ %s %s) %s" % (A, C, dur(a - c)),
            "obj_is (py_Duration___mul__ %s %s) %s" % (A, z(k), dur(a * k)),
            "obj_is (py_Duration___rmul__ %s %s) %s" % (A, z(k), dur(k * a)),
            "obj_is (py_Duration___abs__ %s) %s" % (A, dur(abs(a))),
            "obj_is (py_Duration_to_days %s) %s" % (A, dur(a.to_days())),
            "obj_is (py_Duration_to_weeks %s) %s" % (A, dur(a.to_weeks())),
            "obj_is (py_Duration__copy %s) %s" % (A, dur(a._copy())),
        ]
        if k != 0:
            checks.append("obj_is (py_Duration___floordiv__ %s %s) %s" % (A, z(k), dur(a // k)))
        else:
            checks.append("raises (py_Duration___floordiv__ %s 0) ZeroDivisionError" % A)
        # hash key: hash((0, 0, nns)) in week form, hash((years, months, nns)) otherwise
        ky, km = (0, 0) if a.get_is_in_weeks() else (a._years, a._months)
        checks.append("match py_Duration___hash__ %s %s with Ok (Some y, Some m, s) => (y =? %s) && (m =? %s) && "
                      "Qeq_bool s %s | _ => false end" % (cal2, A, z(ky), z(km), q(a._get_non_nominal_seconds())))
        if (a == c) and hash(a) != hash(c):
            print("FINDING: equal durations with different hashes", a, c)
        if not a.get_is_in_weeks():
            w = rng.choice([0, 0, 1, -2, 5])
            args = dict(years=a._years, months=a._months, weeks=w, days=a._days,
                        hours=a._hours, minutes=a._minutes, seconds=a._seconds)
            if rng.random() < 0.3:
                args.update(years=0, months=0, days=0, hours=0, minutes=0.0, seconds=0)
            r = Duration(**args)
            checks.append("obj_is (py_Duration___init___days_hours_minutes_months_seconds_weeks_years "
                          "%s %s %s %s %s %s %s) %s" % (
                              z(args["days"]), q(args["hours"]), q(args["minutes"]), z(args["months"]),
                              q(args["seconds"]), z(w), z(args["years"]), dur(r)))
    CALENDAR.set_mode("gregorian")
    shutil.rmtree(OUT, ignore_errors=True)
    os.makedirs(OUT)
    with open(os.path.join(OUT, "Diff.v"), "w") as fh:
        fh.write("From Coq Require Import QArith List Bool.\n"
                 "From Iso Require Import Proofs.Tac Spec.Cal Model.Duration gen.GenCode3 "
                 "Proofs.GenCode3Ok Props.C11Code.\nImport ListNotations.\nOpen Scope Z_scope.\n"
                 "Definition checks : list bool := [\n  " + ";\n  ".join(checks) + "].\n"
                 "Definition failing := filter (fun p => negb (snd p)) "
                 "(combine (map Z.of_nat (seq 0 (length checks))) checks).\n"
                 "Eval vm_compute in (map fst failing).\n"
                 "Example all_agree : forallb (fun x => x) checks = true.\nProof. vm_compute. reflexivity. Qed.\n")
    r = subprocess.run("ulimit -v 8000000; timeout 900 coqc -Q %s Iso -Q . Diff Diff.v" % COQ, shell=True, cwd=OUT,
                       capture_output=True, text=True)
    print("%d checks on %d random cases: %s" % (len(checks), n, "ALL AGREE" if r.returncode == 0 else "DISAGREE"))
    if r.returncode != 0:
        out = r.stdout + r.stderr
        print(out[-1500:])
        import re
        m = re.search(r"= \[([^\]]*)\]", out)
        if m:
            for idx in [int(x) for x in m.group(1).replace("\n", " ").split(";") if x.strip()][:10]:
                print("  failing check %d: %s" % (idx, checks[idx]))
    shutil.rmtree(OUT, ignore_errors=True)
    return r.returncode


if __name__ == "__main__":
    sys.exit(main())
