#!/bin/bash
# Evaluate a seeded change without touching /repo or the live /verif:
#   try_mutant.sh <repo-with-change-applied> <Cxx> [<Cyy> ...]
# Runs the quick checks from a scratch copy of /verif against that repository
# (ISO_REPO) and prints, per property, the exit code and the VIOLATION line.
repo="$1"; shift
scratch=/tmp/vmut.$$
rsync -a --exclude='work' --exclude='.git' /verif/ "$scratch"/
cd "$scratch" || exit 2
for p in "$@"; do
  out=$(ISO_REPO="$repo" timeout 1800 ./check "$p" --tier quick 2>&1)
  rc=$?
  echo "== $p rc=$rc"
  echo "$out" | grep -E "^VIOLATION|^KNOWN|obligations" | cut -c1-400
  echo "$out" | grep -A1 "^VIOLATION" | tail -1 | cut -c1-400
done
cd /; rm -rf "$scratch"
