#!/bin/bash
# confirm_mutant.sh <worktree> <id> <property> "<needs>" "<caught by>": verify a seeded change (suite passes with it; its
# demonstration fails with it and passes without it) and store it under /verif/seeded/<id>/.
wt="$1"; id="$2"; prop="$3"; needs="$4"; caught="$5"
cd "$wt" || exit 2
suite_with=$(TZ=UTC /venv/bin/python -m pytest -q -p no:cacheprovider --deselect metomi/isodatetime/tests/test_main.py::test_pipe 2>&1 | tail -1)
TZ=UTC /venv/bin/python MUTANT/demo.py > /tmp/demo_with.txt 2>&1; rc_with=$?
patch -s -p1 -R < MUTANT/patch.diff
TZ=UTC /venv/bin/python MUTANT/demo.py > /tmp/demo_without.txt 2>&1; rc_without=$?
suite_without=$(TZ=UTC /venv/bin/python -m pytest -q -p no:cacheprovider --deselect metomi/isodatetime/tests/test_main.py::test_pipe 2>&1 | tail -1)
patch -s -p1 < MUTANT/patch.diff
echo "suite with: $suite_with | without: $suite_without | demo rc with=$rc_with without=$rc_without"
if [ "$rc_with" = 1 ] && [ "$rc_without" = 0 ] && echo "$suite_with" | grep -q "85 passed"; then
  d=/verif/seeded/$id; mkdir -p "$d"
  cp MUTANT/patch.diff MUTANT/demo.py "$d"/
  [ -f MUTANT/notes.md ] && cp MUTANT/notes.md "$d"/
  /venv/bin/python - "$d" "$prop" "$needs" "$caught" "$suite_with" "$(tail -3 /tmp/demo_with.txt | tr '\n' ' ' | cut -c1-300)" <<'PY'
import json, sys
d, prop, needs, caught, suite, demo = sys.argv[1:7]
json.dump({"property": prop, "needs_to_manifest": needs, "confirmed": {
    "suite_with_change": suite, "demo_with_change": "exit 1: " + demo, "demo_without_change": "exit 0 (PASS)",
    "how": "tools/confirm_mutant.sh in a scratch git worktree of /repo (never applied to /repo)"},
    "caught_by": caught}, open(d + "/meta.json", "w"), indent=1)
PY
  echo "stored in $d"
else
  echo "NOT CONFIRMED"
fi
