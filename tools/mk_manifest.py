#!/venv/bin/python
"""Writes MANIFEST.json from the table below (kept in one place so that the
claimed set, the commands and the notes stay consistent)."""
import json
import os

VERIF = os.path.dirname(os.path.dirname(os.path.abspath(__file__)))

COMMON_NOTE = (
    "Trusted: Coq 8.16.1 kernel (vm_compute in reflection lemmas, no native_compute); every property theorem's "
    "Print Assumptions is audited on each run and must be 'Closed under the global context' (no axioms, no Admitted); "
    "extraction via ExtrOcamlBasic+ExtrOcamlString only with Z/Q kept as extracted inductives; tools/translate.py "
    "(regenerates coq/gen/*.v from /repo on every run, fail closed); the hand-written Gallina model of the algorithms "
    "is tied to the code only by the correspondence run (same cases on the extracted model and on the real package), "
    "so agreement outside the explored cases is assumed; CPython int/float/re/str-formatting are modelled, not verified. ")

CLAIMED = {
    "C03": dict(
        text=("Machine-checked theorems (Props/C03.v, all years in Z, all four modes) that the model of the calendar helpers "
              "refines the closed-form proleptic calendar: leap rule, year/month/week lengths, days-in-year-range, week-year "
              "start = Monday of the week containing 4 January, all six conversions total on valid dates / rejecting invalid "
              "ones / preserving the day number, day numbers injective (hence lossless and mutually inverse), weekdays "
              "continuous through year 0. Tables regenerated from class Calendar each run. The model is tied to the code by "
              "an enumerated correspondence (every day and every near-invalid date of the catalogue years, 800 year boundaries) "
              "and the implementation's outputs are judged by the proved Spec functions."),
        note="Day-by-day list walks over iter_months_days are modelled at month granularity; the bounded search in _get_days_in_year_range by its closed form.",
        technique="Coq proof of refinement to a closed-form calendar + generated tables + enumerated model/implementation correspondence",
        design="7 C03"),
}

NOT_YET = "check not built yet in this round (the design covers it; work in progress)"
ALL = ["C%02d" % i for i in range(1, 21)]


def main():
    checks = []
    for pid in ALL:
        if pid not in CLAIMED:
            continue
        c = CLAIMED[pid]
        checks.append(dict(
            property_id=pid,
            quick_cmd="./check %s --tier quick" % pid,
            thorough_cmd="./check %s --tier thorough" % pid,
            evidence_file="evidence/%s.json" % pid,
            replay_cmd_template="./check %s --replay {path}" % pid,
            engine="coq-model",
            level_claimed=dict(category="proof", text=c["text"], design_ref="DESIGN.md section " + c["design"]),
            level_note=COMMON_NOTE + c["note"],
            technique=c["technique"]))
    man = dict(
        version=1,
        setup_cmd="tools/build.sh",
        hooks=dict(guard="METOMI_ISODATETIME_VERIF",
                   enable="no hooks: the harness wraps the imported package from outside; ./check unsets the guard variable",
                   baseline_off_cmd="tools/baseline_off.sh",
                   source_commits=[], add_only=True),
        engines=[dict(name="coq-model", path="coq/",
                      serves_properties=sorted(CLAIMED),
                      kind_free_text="Coq 8.16.1 development (Spec/, Model/, Proofs/, Props/), regenerated tables in coq/gen, extracted OCaml evaluator, Python correspondence harness (check, tools/)")],
        checks=checks,
        notes="fix: commits in /repo: bceba77 (F1), 91c3651 (F2), 6fc128e (F5), c92b60c (F6), 58c8956 (F7a); see known_findings.json and DESIGN.md section 8.",
        not_applicable=[dict(property_id=p, reason=NOT_YET) for p in ALL if p not in CLAIMED])
    with open(os.path.join(VERIF, "MANIFEST.json"), "w") as fh:
        json.dump(man, fh, indent=1)
        fh.write("\n")


if __name__ == "__main__":
    main()
