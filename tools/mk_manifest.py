#!/venv/bin/python
"""Writes MANIFEST.json from the table below (kept in one place so that the
claimed set, the commands and the notes stay consistent)."""
import json
import os

VERIF = os.path.dirname(os.path.dirname(os.path.abspath(__file__)))

COMMON_NOTE = (
    "Trusted: Coq 8.16.1 kernel (vm_compute in reflection lemmas, no native_compute); every property theorem's "
    "Print Assumptions is audited on each run and must be 'Closed under the global context' (no axioms, no Admitted); "
    "extraction via ExtrOcamlBasic+ExtrOcamlString only with Z/Q kept as extracted inductives; tools/translate*.py "
    "(regenerate coq/gen/*.v from /repo on every run, fail closed: data tables, regexes, cache keys, write effects, and the bodies of the "
    "calendar helpers, of the TimePoint arithmetic/constructor/truncated-addition methods and of the Duration and TimeRecurrence methods, which are proved equal to the model); the rest of the hand-written "
    "Gallina model (parts of the parser and of the dumper - see C07/C08 -, the recurrence parser, main.py's argparse layer) is tied to the code by the correspondence run (same cases on the extracted "
    "model and on the real package), so agreement outside the explored cases is assumed there; CPython int/float/re/str-formatting are "
    "modelled, not verified. ")

CLAIMED = {
    "C01": dict(
        text=("Theorems (Props/C01.v) for every mode, every valid time point (3 representations, 3 precision shapes incl. 24:00 and "
              "fractional forms in exact rational arithmetic, any offset, any year in Z) and every exact duration: p+d exists, its "
              "Spec instant is instant(p)+len(d), representation/precision form/offset are kept, every field is in range with h<24 "
              "as soon as d is non-empty; p-d = p+(-d). Proved through loop invariants for the three carry chains of _tick_over "
              "(Pos.iter loops with proven-sufficient bounds). Correspondence: seeded p x d in all modes, exact on the integer "
              "regime, 1 microsecond on the float regime; the oracle evaluates Spec instant/valid on the implementation's result."),
        note="Props/C01Code.v: the bodies of TimePoint._tick_over, _tick_over_day_of_month, __add__/__sub__ with a Duration (and of the conversion, re-zoning, comparison and difference methods) are translated from /repo on every run (gen/GenCode4.v) and proved to return what the model functions return for every fuel at least the model's loop bounds, i.e. the Python loops terminate with the model's result; the C01 instant law is also stated of the translated __add__ itself. Python floats are modelled as exact rationals (ideal semantics); float rounding itself is not modelled.",
        technique="Coq proof by loop invariants over the carry chains + model/implementation correspondence + Spec oracle",
        design="7 C01"),
    "C02": dict(
        text=("Theorems (Props/C02.v): for all valid a, b in any mix of representations, offsets and precision forms (24:00 included) "
              "the model's three-way _cmp equals Qcompare of the Spec instants; hence the six operators are the order of instants, "
              "trichotomy/complementarity/unions, symmetry, transitivity; equal points have equal hash keys; sign of a-b agrees. "
              "Correspondence on pairs re-zoned and re-expressed by the implementation itself, all six operators + hash + a-b."),
        note="Props/C02Code.v: the bodies of TimePoint._cmp (five operators) and the tuple __hash__ hashes, translated from /repo on every run (gen/GenCode4.v), compute tp_cmp and tp_hash_key (zones within TimeZone's bounds). Float regime (fractional hour/minute forms across different offsets) is known finding F3; only the integer regime is compared exactly.",
        technique="Coq proof (comparison = order of Spec instants) + pairwise model/implementation correspondence",
        design="7 C02"),
    "C04": dict(
        text=("Theorems (Props/C04.v): a-b is DU 0 0 dd h m s with len = instant a - instant b, normalised with one sign, h and m whole; "
              "(a-b) == -(b-a); b+(a-b) compares equal to a in b's representation/offset; (p+d)-p == d for exact d. "
              "Correspondence on pairs at distances 0..1e6 days across year 0 and all spellings."),
        note="Props/C04Code.v: the body of TimePoint.__sub__ for two points, translated from /repo on every run (gen/GenCode4.v), computes tp_sub. Float regime falls under known finding F3 (a-b can recurse forever when float rounding makes a>b and b>a both true).",
        technique="Coq proof + pairwise model/implementation correspondence + Spec oracle",
        design="7 C04"),
    "C05": dict(
        text=("Theorems (Props/C05.v): add_months = n single clamping steps (Spec month_shift) with closed form for the month reached, "
              "n+k months = n then k, any representation via calendar form and back with time/offset/shape preserved and result "
              "normal; year shifts = min(day, target month/year/week-year length) per representation and stay valid; mixed durations "
              "apply exact part, then months, then years; any sum of a valid point is valid."),
        note="Props/C05Code.v: the body of TimePoint.add_months, translated from /repo on every run (gen/GenCode4.v), computes the model's add_months (the year clamps are part of the translated __add__, Props/C01Code.v). Syntactic equality of the time of day holds up to the reduced form of the same rational (tod_eqv).",
        technique="Coq proof of refinement to an iterate-and-clamp spec + correspondence + Spec oracle",
        design="7 C05"),
    "C06": dict(
        text=("Theorems (Props/C06.v): to_time_zone/to_utc of a valid point to any valid offset exists, has the same Spec instant, carries "
              "exactly the requested offset, keeps representation and precision form, is valid; it compares Eq both ways, has an "
              "equivalent hash key and an empty difference. Correspondence incl. to_local_time_zone with a faked system zone; "
              "thorough tier sweeps all 11 999 destination offsets."),
        note="Props/C06Code.v: the bodies of TimePoint.to_time_zone and to_utc, translated from /repo on every run (gen/GenCode4.v), compute the model functions. The dump-with-literal-zone clause is covered with the dumper model under C08 when claimed; float regime hashes are known finding F3.",
        technique="Coq proof (corollary of C01/C02/C04) + correspondence + Spec oracle",
        design="7 C06"),
    "C07": dict(
        text=("Theorems (Props/C07.v) over the form tables REGENERATED from the package's compiled regexes on every run: a generic render/match "
              "lemma (every well-formed assignment of digit strings rendered through a form's tokens is matched back to exactly its bindings), a "
              "sound shape-disjointness test and, by reflection over all searched lists (24 date, 12 time, 6 zone configurations: expanded digits "
              "0/2/3 x allow_truncated x allow_only_basic x reduced allowed or not), every form is reached by the parser's search (or its identical "
              "basic-table twin) with three exceptions listed in the file; get_info on date 'T' time zone returns the three forms' bindings and the "
              "concatenated expression text (dump_as_parsed format) for every triple the tables offer; parse_text = the constructor applied to the "
              "numbers the digit groups denote, zone resolved by the configuration; explicit end-to-end instances; basic-only parsers search no "
              "extended form; accepted texts never mix basic and extended parts."),
        note=("Props/C07Code.v: the bodies of TimePointParser.process_time_zone_info, get_date_info, get_time_info, get_time_zone_info and of _create_timepoint_from_info from its first loop on are translated from /repo on every run (gen/GenCode8.v; regex.match as the model's matcher on the regenerated token lists) and proved equal to the model; the rest of _create_timepoint_from_info, get_info and parse are translated and checked by a closed example only. Props/C07Ext.v closes the gap left by C07_decode_partial: C07_decode_full gives the parse result as an explicit point (year from the digits and "
              "sign, representation per form, fraction on the last unit, written or configured zone) exactly when that point is Spec-valid and BadInput "
              "otherwise; a date alone; dump_as_parsed reproduces the text (decimals canonicalised; the three necessary side conditions have refuted "
              "witnesses); truncated date/time forms incl. a truncated time without zone. Sign-prefixed forms with 0 expanded digits (they raise ValueError "
              "in the package: int('')) and three shadowed '-'-signed century forms under allow_truncated are excluded; decimals are exact "
              "rationals in the model and compared to 1e-9 (printed texts: one unit in the last digit beyond six decimals) with the implementation's floats."),
        technique="Coq proof (generic regex-token lemma + vm_compute reflection over generated tables) + exhaustive form x configuration correspondence",
        design="7 C07"),
    "C08": dict(
        text=("Theorems (Props/C08.v): str(p) is characterised explicitly for every point (per representation x precision form x Z or "
              "sign hh:mm) and overflows only for negative years without expanded digits; for expanded digits 0/2/3, every valid point whose "
              "year fits and whose fractions have at most six digits (all three representations, hh:mm:ss[,tt], hh:mm,nn, hh,ii, 24:00, every "
              "offset, negative and expanded years) parses back from str(p) to a point equal field by field, and str of that point is the "
              "same text; the decimal printer/reader inverse is proved in full; custom formats: complete date expression x time down to "
              "seconds x Z, a literal numeric zone (+-hh, +-hhmm, +-hh:mm) or the +hhmm/+hh:mm placeholder, same notation throughout, whole "
              "seconds: the dumped text parses back to a point that compares Eq and carries the format's zone. Counterexamples for what is "
              "outside the hypotheses (1/3 s, year 10000 without expanded digits, mixed basic/extended formats, '+hh' on a half-hour zone) "
              "are evaluated in the file."),
        note=("Props/C08Code.v: the dumper side is translated from /repo on every run (gen/GenCode9.v): the property getters, the decimal strings, _get_dump_format, strftime, _dump_expression_with_properties (every branch incl. custom zones and the year bounds) and _get_expression_and_properties are proved equal to the model; the last composition of dump against do_dump is open. Custom-format theorems carry _partial: fractional seconds, hh:mm / hh points, reduced or decimal expressions and formats without a "
              "zone designator are covered by the correspondence only; ned restricted to the values with generated tables (0, 2, 3)."),
        technique="Coq proof (explicit string form + C07 render/match machinery + constructor characterisation) + correspondence with exact string comparison",
        design="7 C08"),
    "C09": dict(
        text=("Theorems (Props/C09.v): the constructor accepts a calendar / ordinal / week date tuple exactly when Spec valid_cal / valid_ord / "
              "valid_week holds in the mode and the time and zone fields are in range (both directions); every full point the time-point parser "
              "returns, for ANY text and configuration, is a valid point with exactly one date representation. Correspondence: every field tuple in "
              "and just outside its range per mode and year type through the constructor and the text notations, and a malformed stream (mutations, "
              "splices, noise incl. non-ASCII digits) for the three parsers: a valid object or a ValueError-derived error, never another exception, "
              "never a hang (10 s)."),
        note=("Props/C09Code.v: the bodies of TimePoint.__init__, TimePoint._check_bounds (with _bounds_checker) and TimeZone.__init__ are translated from /repo on every run (gen/GenCode7.v) and proved to leave exactly the point the model's construct builds, or raise BadInputError exactly where construct / check_bounds / valid_zone refuse; the three 'accepts iff Spec-valid' statements are also proved of the translated constructor itself. The duration and recurrence parsers are judged on the implementation only in this check (duration text is modelled under C10); "
              "implicit CPython exceptions and Unicode digits are covered by the malformed stream, not by a theorem; 'never a hang' is a per-call "
              "time limit, with known finding F8 (astronomical repetition counts)."),
        technique="Coq proof (constructor accepts iff Spec-valid; parser results valid) + boundary enumeration + malformed-input correspondence",
        design="7 C09"),
    "C19": dict(
        text=("Theorems (Props/C19.v) over the command-line model (Model/Cli.v: date_parse with the two ISO strptime formats then the ISO 8601 "
              "parser with dump_as_parsed, --utc, signed offsets, date_diff, recurrence expansion with --max): unparsable items or offsets in "
              "any slot give the exit outcome (exact characterisation of when date_parse exits); parsed points are valid; the format used is "
              "the expression text the parser matched (same notation) or the given print format; the printed point is the left fold of the "
              "signed additions (exact offsets: Spec instant + sum of lengths; any offsets: valid, same shape and zone); the printed difference "
              "is sign ++ str(d) with sign '-' iff second < first, and adding the printed text back to the first point compares Eq with the "
              "second; the recurrence output is the first N points (none for N <= 0) with C12's series theorems carried through. The model is "
              "compared with main(argv) run in-process (stdout/SystemExit captured) on every case, next to an implementation-side oracle "
              "(library API vs command line, first + d == second, total = seconds/unit), and malformed arguments in every slot."),
        note=("Props/C19Code.v: the bodies of DateTimeOperator.__init__, date_parse, date_shift, date_format, date_diff, process_time_point_str and diff_time_point_strs (date_parse both without and with --parse-format) are translated from /repo on every run (gen/GenCode11.v; parsers, dumper and arithmetic as parameters instantiated with the model's) and proved equal to the functions of Model/Cli.v. argparse, stdin, now/--ref, the time.strptime fallback for ctime formats, --as-total arithmetic, environment variables and the "
              "exit-status/message mapping are outside the model (the correspondence exercises --calendar, --utc, --max, --offset, "
              "--print-format, ISODATETIMECALENDAR through the real main). A shift smaller than the printed precision is invisible in the "
              "output: the theorems state the output as the dump of the shifted point, not that it parses back to it."),
        technique="Coq proof (compositions of C01/C02/C04/C07/C09/C10/C12 over a model of the CLI) + in-process CLI correspondence + library-level oracle",
        design="7 C19"),
    "C20": dict(
        text=("Theorems (Props/C20.v): the specification next_match really is the least matching (day, second) not earlier than the start "
              "(soundness and least-ness of the bounded search; date-of-day-number inverse functions proved); for a truncated point with time "
              "fields only (all seven hour/minute/second combinations), unknown zone, and any valid whole-second point: the model's result is "
              "that least match, valid, in the point's offset and representation, and idempotent; for one day designator (weekday, day of month "
              "<= 28, day of year <= 360) without time fields (C20_day_least) or with an hour and optional minute/second (C20_day_time_least): "
              "the result is the least match, valid, in the point's offset (and idempotent); T24 runs to the loop bound and the hour-less "
              "day+minute target is not least (refuted statements = known findings F8b, F10)."),
        note=("Props/C20Code.v: the bodies of add_truncated, get_truncated_properties and the truncated branch of __add__ (both operand orders) are translated from /repo on every run (gen/GenCode6.v) and proved to return the model's result for every sufficient fuel, to be still looping where the model says Hang (F8b, F11) and to raise where it says Err. Props/C20Ext.v extends this to week+weekday (week 53 included; 52 in the 360-day calendar, the constructor's own bound since fix F15), day of month "
              "29-31, day of year 361-366, truncated points carrying their own UTC offset (fields read in that offset) and both operand orders: no hang within the "
              "proven loop bounds, valid, least match, idempotent. Props/C20Tables.v ties the week bound to the set_mode expression translated from the source. "
              "Fractional hour/minute forms of the full point are the float regime (known finding F11)."),
        technique="Coq proof (loop invariants for unit stepping; specification proved least) + correspondence with per-call timeout + Spec oracle",
        design="7 C20"),
    "C10": dict(
        text=("Theorems (Props/C10.v) about the executable model of Duration.__str__ and DurationParser.parse (three regexes incl. "
              "greedy backtracking time groups, sign factor, date-time-like fallback): for every single-signed duration in the "
              "printer's exact domain (ints up to CPython's 4300-digit limit, hours/minutes/seconds integers or finite decimals of "
              "<= 15 significant digits, >= 1e-4; week form) parse(str(d)) exists, == d, equals d component-wise, and str is a "
              "fixpoint; closed-form integer case; parse(render c) = make c for every well-formed designator string (digit "
              "strings with leading zeros, comma/point decimals, leading '-', bare P/PT/trailing T, PnW); the date-time-like "
              "spelling (calendar/ordinal, basic/extended) parses to the same duration as its designator spelling. The regex "
              "pattern strings and the time point tables the fallback uses are regenerated from the package and compared with "
              "the strings the matcher was written for (vm_compute). Correspondence on round trips, well-formed strings in the "
              "three notations and ~20k mutated/backtracking strings; oracle: eq, fixpoint, designator values, alt == designator."),
        note=("Props/C10Code.v: the bodies of Duration.__str__ and DurationParser.parse are translated from /repo on every run (gen/GenCode10.v) and proved equal to dur_str and (on designator texts) dur_parse; the fall-back to the date-time-like notation is translated and checked by a closed example. Floats are ideal rationals: values needing more than 15 significant digits, exponent notation (<1e-4), non-ASCII "
              "digits, float() spellings such as 1e5/1_0 and most non-complete date-time-like forms are explicit UNMODELLED "
              "results, excluded from theorems and comparison. Int h/m/s beyond 2^53 and totals >= 2^53 s break == in the "
              "implementation (float rounding; notes/C10_REPORT.md)."),
        technique="Coq proof (printer/parser inverse incl. decimal long division, backtracking matcher lemmas) + reflection on regenerated regex strings + model/implementation correspondence + oracle",
        design="7 C10"),
    "C11": dict(
        text=("Theorems (Props/C11.v) over arbitrary rational components: value of a sum, commutativity, associativity, identity, inverse, "
              "n*d = n-fold sum, a-b = a+(-1)b; == is an equivalence, exact durations equal iff lengths equal, general characterisation "
              "(exactness, years, months, length); equal durations have equal hash keys; (days, seconds) is a normal form of the rough "
              "length and < <= > >= are its order (year = common-year length of the mode, month = 30 days)."),
        note=("Props/C11Code.v: the bodies of 22 methods of class Duration (observers, ==, the hashed tuple, the four orderings, + - * // abs bool, "
              "__init__, to_days, to_weeks) are translated from /repo on every run (gen/GenCode3.v, exception monad over a state record mirroring "
              "__slots__) and proved equal to the model functions the theorems above are about, on every state that denotes a duration; "
              "Props/C11Tables.v ties the calendar constants (rough year = common-year length) to the translated set_mode expressions. "
              "TimeZone (subclass) excluded as the property says; decimal components compared exactly only when binary-exact."),
        technique="Coq algebraic proofs over Q + method bodies translated from the source and proved equal to the model + correspondence on a duration pool",
        design="7 C11"),
    "C12": dict(
        text=("Theorems (Props/C12.v), for exact intervals of positive length, any valid anchor, unbounded or n >= 2: each of the three "
              "notations constructs; the first k iterated points are exactly min(k, n) points whose Spec instants are anchor + i*len "
              "(anchor - i*len for unbounded duration/end), valid and written like the anchor; bounded duration/end ends on the given "
              "end; one repetition or a zero interval yields exactly the anchor; the three notations of one finite series are ==; for "
              "any interval (nominal included) consecutive points differ by one application of the interval. The full-strength claim "
              "for bounded nominal intervals is refuted by a vm_compute witness (known finding F4)."),
        note="Props/C12Code.v: the bodies of TimeRecurrence.__init__, __iter__, __getitem__, get_next/get_prev, _get_is_in_bounds (and the other methods) are translated from /repo on every run (gen/GenCode5.v; TimePoint/Duration operations as parameters instantiated with the model's) and proved to compute rec_make, iter_take, ... for every fuel. min_point/max_point are left None (the parser never sets them); generators are modelled as 'take the first k'.",
        technique="Coq proof by induction over iteration on top of the C01/C02 theorems + correspondence + Spec oracle",
        design="7 C12"),
    "C13": dict(
        text=("Theorems (Props/C13.v) for start-anchored exact recurrences: bounds test = instant between the ends; get_is_valid true iff the "
              "probe's instant is start + i*len for an index in range (and the scan answers given enough fuel); r[i] is the i-th point; "
              "get_next/get_prev give the adjacent instant or None past the ends; get_first_after (whole-second interval and probe) is the "
              "earliest later member, the first member before the series, None past a bounded end."),
        note=("Props/C13Code.v: the bodies of get_is_valid, get_first_after, _get_is_in_bounds translated from /repo on every run (gen/GenCode5.v) compute the model functions these theorems are about. Props/C13Ext.v adds the reverse (duration/end, unbounded) series in closed form and, for any stepping interval incl. months/years, the queries against "
              "iteration itself (get_is_valid <-> some iterated point at that instant; r[i]; get_next/get_prev in the direction of iteration; the scanning "
              "get_first_after). Scans carry explicit fuel in the model (3000 in the correspondence)."),
        technique="Coq proof on top of C12 + correspondence with probes re-zoned/re-expressed by the implementation + oracle from iteration",
        design="7 C13"),
    "C14": dict(
        text=("Theorems (Props/C14.v): r + x for exact x keeps repetitions and interval and moves the anchors by len x (the end anchor up to "
              "spelling), so every iterated point moves by exactly len x; (r + x) - x == r; == is component-wise; equal exact recurrences "
              "iterate the same instants. Correspondence incl. single-point recurrences of all notations, either operand order, crafted "
              "unequal/equal pairs, and the str/parse round trip (implementation-side oracle only)."),
        note=("Props/C14Code.v: the bodies of __add__, __sub__, __eq__, the hashed tuple and __str__ translated from /repo on every run (gen/GenCode5.v) compute rec_add, rec_sub, rec_eqb, rec_hash_key, rec_str. Props/C14Text.v: equal recurrences hash equivalent tuples (any interval); explicit text of str; parse(str r) exists, == r and iterates the same points "
              "for every parser-producible recurrence (any mode, any local offset, all notations, exact/nominal/week/zero intervals; counts below 10^4300, where str "
              "itself raises). The text, the re-parsed recurrence and the hashed tuple are compared with the implementation on every text case."),
        technique="Coq proof (10-shape constructor inversion; congruence of rec_make/iteration under respelling) + correspondence + round-trip oracle",
        design="7 C14"),
    "C15": dict(
        text=("Theorems (Props/C15.v): the process-wide mode and the lru_cache'd helpers as a state machine (state = spelling last set + cache as a finite "
              "map, nested cached calls included; keys carry the spelling iff the regenerated table says every call site passes CALENDAR.mode). Every cache "
              "entry always equals the pure helper at its key's mode; for ALL histories of set_mode (7 spellings, any case, None, invalid) and calls every "
              "output equals the pure helper under the mode last set and equals what a fresh process prints after one set_mode of the current spelling; "
              "reflection over the regenerated call graph: every cached function that reads mode-dependent CALENDAR state transitively has the mode in its "
              "key, get_is_leap_year reads none, no caller mutates a cached list, nothing but set_mode writes the singleton; set_mode's derived constants "
              "are a function of its argument and never-shadowed class constants (def/use checker + its soundness); 12x30, 365, 366, Gregorian rule through "
              "the helpers; a key table lacking the mode for get_days_in_month is refuted by a 2-call history. Correspondence: seeded histories (5-40 steps) "
              "in one process incl. conversions, validation, arithmetic, recurrences and in-process CLI calls (--calendar / ISODATETIMECALENDAR / neither), "
              "judged per step against the single-mode model answer, against fresh subprocesses per spelling (sample) and on lru_cache sizes."),
        note="lru_cache is modelled as an unbounded map; the AST analysis of tools/translate_cache.py is trusted; TimePointDumper caches and "
             "_iter_months_days are covered by the table obligations only; strftime's datetime fallback (%a, %b ...) is outside the model and is "
             "Gregorian in every mode (observation O3 in notes/C15_REPORT.md).",
        technique="Coq proof (cache invariant by induction over histories, reflection over generated tables) + history correspondence + fresh-process oracle",
        design="7 C15"),
    "C16": dict(
        text=("Theorems (Props/C16.v) over a heap semantics of a write-effect IR regenerated from data.py on every run (every "
              "method of TimePoint, Duration, TimeZone, TimeRecurrence; name-based dispatch, untracked arguments, any statement "
              "may raise, external code = arbitrary calls of public methods): the generated table passes the checker; for any "
              "table that passes, no execution of a public method changes an object that existed before the call (frame theorem, "
              "by soundness of a flow-insensitive freshness analysis with per-method summaries, proved in full); hence after every "
              "step of every sequence of public operations the heap extends every earlier heap, and every earlier value shows the "
              "same tree of slots to any depth (state, str, hash; shared sub-objects included). Run-time side: 400 (6000) random "
              "sequences x 30 operations over a growing pool with a class-level __setattr__ hook (every write must hit an object "
              "allocated in the current call), slot/str/hash snapshots of every value after every step, and comparison of each "
              "method's observed result identity with its inferred summary; all public names enumerated by reflection."),
        note=("Proved about the IR, not about Python: that the IR over-approximates the source is the translator's job (fails closed on "
              "writes through attribute chains/subscripts, reflective identifiers, try/lambda/global, foreign writes to slots, monkey "
              "patching, subclasses) and is trusted; generators are modelled as run-to-completion with locals forgotten at each yield; "
              "values other than the four classes are assumed immutable primitives."),
        technique="Coq proof (soundness of an effect analysis w.r.t. a heap semantics) + generated IR table + write-trace/snapshot correspondence",
        design="7 C16"),
    "C17": dict(
        text=("Theorems (Props/C17.v): the regenerated directive table has exactly the eleven supported directives with the POSIX shapes "
              "(reflection); any other %-letter anywhere in the format makes strftime and strptime fail with the library's syntax error; for "
              "every valid point (any representation, time form incl. 24:00 and fractions, offset, mode) with civil year 0..9999 and every "
              "format over the supported directives and literal text, strftime equals a POSIX strftime written in Spec/Posix.v applied to the "
              "civil date-time defined from the Spec instant only; strptime of that text is the constructor call with absent fields defaulted "
              "(year 0 / month 1 / day 1 / 00:00:00 / the configuration's zone), and for full formats it returns a point comparing Eq with "
              "the original (whole-second points). Correspondence: random directive sequences, full and partial formats, unsupported letters."),
        note=("The bodies of TimePointDumper.strftime and TimePoint.strftime are translated from /repo on every run and proved against the model (Props/C08Code.v, C08_code_strftime). strptime theorems exclude %s (parsed through float()) and are stated for the canonical text; a stray '%' in literal text is outside "
              "the model; %s of an instant before the epoch with a fractional second was truncated toward zero by the package (defect F14, repaired by fix: ecba00f; the strftime theorem now covers %s everywhere)."),
        technique="Coq proof (strftime = Spec POSIX rendering of the civil date-time; reflection over the generated directive table) + correspondence",
        design="7 C17"),
    "C18": dict(
        text=("Theorems (Props/C18.v): for every whole-minute offset (no bound) the (hours, minutes) split is exact with both parts carrying "
              "the sign; DST selection rule; the three text forms denote the pair (finite reflection over the whole legal box, Z for "
              "zero, reduced falls back); from_unix n denotes epoch+n in UTC or the local zone and is valid; seconds_since_unix_epoch "
              "is floor(instant-epoch) at/after the epoch and exact when integral. Correspondence: zone configurations fed through a "
              "replaced `time` module (thorough: every minute in +-24 h x 16 DST deltas x flags) and 40 POSIX TZ strings via tzset."),
        note="time.*, the OS zone database and tzset are CPython/libc; for instants before the epoch with a fractional part int() truncates toward zero (outside the property).",
        technique="Coq proof (lia + finite reflection) + correspondence with a faked time module + Spec oracle",
        design="7 C18"),
    "C03": dict(
        text=("Machine-checked theorems (Props/C03.v, all years in Z, all four modes) that the model of the calendar helpers "
              "refines the closed-form proleptic calendar: leap rule, year/month/week lengths, days-in-year-range, week-year "
              "start = Monday of the week containing 4 January, all six conversions total on valid dates / rejecting invalid "
              "ones / preserving the day number, day numbers injective (hence lossless and mutually inverse), weekdays "
              "continuous through year 0. Tables regenerated from class Calendar each run. The model is tied to the code by "
              "an enumerated correspondence (every day and every near-invalid date of the catalogue years, 800 year boundaries) "
              "and the implementation's outputs are judged by the proved Spec functions."),
        note=("The function BODIES of every calendar helper are translated from /repo on every run and proved equal to the model for all arguments: "
              "the integer helpers and _get_days_in_year_range's bounded search (gen/GenCode.v, C03_code) and the day-by-day walks over "
              "iter_months_days - the six conversions, the week-year start, weeks in a year (gen/GenCode2.v, Props/C03Code.v, 25 theorems); the model "
              "holds the walks at month granularity / closed forms. Props/C03Tables.v ties the derived calendar constants to set_mode's own expressions."),
        technique="Coq proof of refinement to a closed-form calendar + function bodies translated from the source and proved equal to the model + generated tables + enumerated correspondence",
        design="7 C03"),
}

NOT_YET = "check not built yet in this round (the design covers it; work in progress)"
ALL = ["C%02d" % i for i in range(1, 21)]


def main():
    checks = []
    for pid in ALL:
        if pid not in CLAIMED:
            continue
        c = CLAIMED[pid]
        checks.append(dict(
            property_id=pid,
            quick_cmd="./check %s --tier quick" % pid,
            thorough_cmd="./check %s --tier thorough" % pid,
            evidence_file="evidence/%s.json" % pid,
            replay_cmd_template="./check %s --replay {path}" % pid,
            engine="coq-model",
            level_claimed=dict(category="proof", text=c["text"], design_ref="DESIGN.md section " + c["design"]),
            level_note=COMMON_NOTE + c["note"],
            technique=c["technique"]))
    man = dict(
        version=1,
        setup_cmd="tools/build.sh",
        hooks=dict(guard="METOMI_ISODATETIME_VERIF",
                   enable="no hooks: the harness wraps the imported package from outside; ./check unsets the guard variable",
                   baseline_off_cmd="tools/baseline_off.sh",
                   source_commits=[], add_only=True),
        engines=[dict(name="coq-model", path="coq/",
                      serves_properties=sorted(CLAIMED),
                      kind_free_text="Coq 8.16.1 development (Spec/, Model/, Proofs/, Props/), regenerated tables in coq/gen, extracted OCaml evaluator, Python correspondence harness (check, tools/)")],
        checks=checks,
        notes="fix: commits in /repo: bceba77 (F1), 91c3651 (F2), 6fc128e (F5), c92b60c (F6), 58c8956 (F7a), bfe93b1 (F12), 37639a2 (F7b), 5d7142b (F9), 444ddb1 (F13), ecba00f (F14), 636f555 (F15), 44372fd (F17); known findings kept: F3, F4, F8, F8b, F10, F11, F16; see known_findings.json and DESIGN.md section 8.",
        not_applicable=[dict(property_id=p, reason=NOT_YET) for p in ALL if p not in CLAIMED])
    with open(os.path.join(VERIF, "MANIFEST.json"), "w") as fh:
        json.dump(man, fh, indent=1)
        fh.write("\n")


if __name__ == "__main__":
    main()
