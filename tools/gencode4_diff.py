#!/venv/bin/python
"""Differential smoke test of the TRANSLATOR translate_code4.py (not of the model):
evaluate the generated definitions of GenCode4.v by vm_compute on random
TimePoints / Durations / TimeZones and compare with what the real package
returns (PYTHONPATH=$ISO_REPO, default /repo).

Only binary-exact fractions are generated (and, for the H / HM forms, only second
and minute increments whose quotient by 3600 / 60 is binary exact), so CPython's
float arithmetic is exact and must agree with the Q semantics.
The generated file is taken from $G4_GEN (default /verif/coq/gen/GenCode4.v),
copied to a scratch directory and compiled there under the logical name
Diff.GenCode4 (against the compiled /verif/coq tree); removed afterwards.
Usage: tools/gencode4_diff.py [ncases] [seed]
"""
import os
import random
import shutil
import subprocess
import sys
from fractions import Fraction

REPO = os.environ.get("ISO_REPO", "/repo")
sys.path.insert(0, REPO)
from metomi.isodatetime.data import TimePoint, Duration, TimeZone, CALENDAR  # noqa: E402
from metomi.isodatetime import data  # noqa: E402

COQ = os.path.normpath(os.path.join(os.path.dirname(os.path.abspath(__file__)), "..", "coq"))
GEN = os.environ.get("G4_GEN", os.path.join(COQ, "gen", "GenCode4.v"))
OUT = "/tmp/gencode4_diff"
MODES = {"gregorian": "G", "360day": "D360", "365day": "D365", "366day": "D366"}
FUEL = 400


def z(n):
    return "(%d)" % n if n < 0 else "%d" % n


def q(x):
    f = Fraction(x)
    return "(Qmake %s %d)" % (z(f.numerator), f.denominator)


def oz(v):
    return "None" if v is None else "(Some %s)" % z(v)


def oq(v):
    return "None" if v is None else "(Some %s)" % q(v)


def b(v):
    return "true" if v else "false"


def tzv(t):
    return "(mkTimeZone %s %s %s)" % (z(t._hours), z(t._minutes), b(t._unknown))


def tp(p):
    return "(mkTimePoint %s %s %s %s %s %s %s %s %s %s %s None None None %s)" % (
        z(p._num_expanded_year_digits), oz(p._year), oz(p._month_of_year), oz(p._day_of_year),
        oz(p._day_of_month), oz(p._day_of_week), oz(p._week_of_year), oq(p._hour_of_day),
        oq(p._minute_of_hour), oq(p._second_of_minute), b(p._truncated), tzv(p._time_zone))


def dur(d):
    return "(GenCode3.mkDuration %s %s %s %s %s %s %s)" % (
        oz(d._years), oz(d._months), oz(d._weeks), oz(d._days), oq(d._hours), oq(d._minutes), oq(d._seconds))


def rand_zone(rng):
    k = rng.random()
    if k < 0.4:
        return (0, 0)
    h = rng.choice([0, 1, -1, 5, -5, 9, -11, 12, 13, -23, 30])
    m = rng.choice([0, 0, 30, 45, 15])   # quarters of an hour: exact also for the H form
    if h < 0:
        m = -m
    elif h == 0 and rng.random() < 0.5:
        m = -m
    return (h, m)


def rand_point(rng):
    y = rng.choice([2000, 2001, 2004, 1900, 1999, 2023, 2024, 1, 0, -1, -400, rng.randint(-3000, 4000)])
    form = rng.choice("cow")
    kw = dict(year=y)
    if form == "c":
        kw["month_of_year"] = rng.randint(1, 12)
        kw["day_of_month"] = rng.randint(1, data.get_days_in_month(kw["month_of_year"], y))
    elif form == "o":
        kw["day_of_year"] = rng.choice([1, data.get_days_in_year(y), rng.randint(1, data.get_days_in_year(y))])
    else:
        kw["week_of_year"] = rng.choice([1, data.get_weeks_in_year(y), rng.randint(1, data.get_weeks_in_year(y))])
        kw["day_of_week"] = rng.randint(1, 7)
    tform = rng.choice(["hms", "hms", "hm", "h"])
    eighth = rng.choice([0, 0, 1, 2, 4, 7]) / 8.0
    if rng.random() < 0.08:
        kw["hour_of_day"] = 24
        if tform != "h":
            kw["minute_of_hour"] = 0
        if tform == "hms":
            kw["second_of_minute"] = 0
    else:
        kw["hour_of_day"] = rng.randint(0, 23)
        if tform == "h":
            kw["hour_of_day_decimal"] = eighth
        else:
            kw["minute_of_hour"] = rng.randint(0, 59)
            if tform == "hm":
                kw["minute_of_hour_decimal"] = eighth
            else:
                kw["second_of_minute"] = rng.randint(0, 59)
                kw["second_of_minute_decimal"] = eighth
    zh, zm = rand_zone(rng)
    kw["time_zone_hour"], kw["time_zone_minute"] = zh, zm
    if y < 0 or y > 9999:
        kw["num_expanded_year_digits"] = 2
    p = TimePoint(**kw)
    tform = "hms" if p._second_of_minute is not None else "hm" if p._minute_of_hour is not None else "h"
    return p, tform


def rand_dur(rng, tform):
    if rng.random() < 0.15:
        return Duration(weeks=rng.choice([0, 1, -1, 2, 52, -7, rng.randint(-300, 300)]))

    def zi(p0=0.45, lim=30):
        return 0 if rng.random() < p0 else rng.randint(-lim, lim)
    sec_unit = {"hms": 0.125, "hm": 7.5, "h": 450.0}[tform]
    min_unit = {"hms": 0.125, "hm": 0.125, "h": 7.5}[tform]

    def qi(unit, lim):
        if rng.random() < 0.4:
            return 0
        v = rng.randint(-lim, lim) * unit
        return int(v) if v == int(v) and rng.random() < 0.5 else v
    nominal = rng.random() < 0.5
    return Duration(years=zi() if nominal else 0, months=zi() if nominal else 0, days=zi(0.3, 800),
                    hours=qi(0.125, 4000), minutes=qi(min_unit, 4000), seconds=qi(sec_unit, 40000))


def outcome(fn):
    try:
        return ("ok", fn())
    except ValueError:
        return ("raise", "ValueError")
    except TypeError:
        return ("raise", "TypeError")


def main():
    n = int(sys.argv[1]) if len(sys.argv) > 1 else 150
    rng = random.Random(int(sys.argv[2]) if len(sys.argv) > 2 else 20261001)
    checks = []

    def add(kind, call, res, conv):
        if res[0] == "ok":
            checks.append("%s (%s) %s" % (kind, call, conv(res[1])))
        else:
            checks.append("raises (%s) %s" % (call, res[1]))

    for _i in range(n):
        mode = rng.choice(list(MODES))
        CALENDAR.set_mode(mode)
        cal = "(cal_of %s)" % MODES[mode]
        p, tform = rand_point(rng)
        p2, _ = rand_point(rng)
        if rng.random() < 0.2:
            p2 = p.to_time_zone(TimeZone(hours=rng.choice([0, 3, -7]), minutes=0))
            if rng.random() < 0.5:
                p2 = p2.to_ordinal_date()
        d = rand_dur(rng, tform)
        P, P2, D = tp(p), tp(p2), dur(d)
        pre = "%d %s" % (FUEL, cal)

        def call(m, *args):
            return "py_TimePoint_%s %s %s" % (m, pre, " ".join(args))
        # _tick_over on a copy pushed out of range
        t = p._copy()
        if rng.random() < 0.8:
            delta = rng.choice([0, 1, -1, 40, -40, 400, -400, rng.randint(-3000, 3000)])
            if t._day_of_month is not None:
                t._day_of_month += delta
            elif t._day_of_year is not None:
                t._day_of_year += delta
            else:
                t._day_of_week += delta
                t._week_of_year += rng.choice([0, 0, 60, -60])
        t._hour_of_day += rng.choice([0, 0, 25, -25, 0.5, -49.5])
        if t._minute_of_hour is not None:
            t._minute_of_hour += rng.choice([0, 61, -61, 0.25, -1000.5])
        if t._second_of_minute is not None:
            t._second_of_minute += rng.choice([0, 61, -61, 0.125, -100000.5])
        T0 = tp(t)
        t._tick_over()
        checks.append("tp_is (%s) %s" % (call("_tick_over", T0), tp(t)))
        if p._day_of_month is not None:
            t = p._copy()
            t._day_of_month += rng.choice([0, 1, -1, 31, -31, 366, -366, 800, -800, rng.randint(-4000, 4000)])
            T0 = tp(t)
            t._tick_over_day_of_month()
            checks.append("tp_is (%s) %s" % (call("_tick_over_day_of_month", T0), tp(t)))
        add("tp_is", call("__add____Duration", P, D), outcome(lambda: p + d), tp)
        add("tp_is", call("__sub____Duration", P, D), outcome(lambda: p - d), tp)
        k = rng.choice([0, 1, -1, 12, -12, 13, -25, rng.randint(-60, 60)])
        add("tp_is", call("add_months", P, z(k)), outcome(lambda: p.add_months(k)), tp)
        checks.append("tp_is (%s) %s" % (call("_copy", P), tp(p._copy())))
        add("tp_is", call("to_calendar_date", P), outcome(p.to_calendar_date), tp)
        add("tp_is", call("to_ordinal_date", P), outcome(p.to_ordinal_date), tp)
        add("tp_is", call("to_week_date", P), outcome(p.to_week_date), tp)
        add("zs_is", call("get_calendar_date", P), outcome(p.get_calendar_date),
            lambda r: "[%s]" % "; ".join(z(x) for x in r))
        add("zs_is", call("get_ordinal_date", P), outcome(p.get_ordinal_date),
            lambda r: "[%s]" % "; ".join(z(x) for x in r))
        add("zs_is", call("get_week_date", P), outcome(p.get_week_date),
            lambda r: "[%s]" % "; ".join(z(x) for x in r))
        zh, zm = rand_zone(rng)
        tzo = TimeZone(hours=zh, minutes=zm)
        add("tp_is", call("to_time_zone", P, tzv(tzo)), outcome(lambda: p.to_time_zone(tzo)), tp)
        add("tp_is", call("to_utc", P), outcome(p.to_utc), tp)
        add("tp_is", call("_normalised", P), outcome(p._normalised), tp)
        add("qs_is", call("get_hour_minute_second", P), outcome(p.get_hour_minute_second),
            lambda r: "[%s]" % "; ".join(q(x) for x in r))
        add("q_is", call("get_second_of_day", P), outcome(p.get_second_of_day), q)
        u = p.to_utc()._normalised()
        add("hash_is", call("__hash__", P),
            outcome(lambda: (u.get_calendar_date(), u.get_hour_minute_second())),
            lambda r: "[%s] [%s]" % ("; ".join(z(x) for x in r[0]), "; ".join(q(x) for x in r[1])))
        for op in ("eq", "lt", "le", "gt", "ge"):
            add("b_is", call("_cmp__" + op, P, P2), outcome(lambda: p._cmp(p2, op)), b)
            add("b_is", call("_cmp__" + op, P, P), outcome(lambda: p._cmp(p, op)), b)
        add("dur_is", call("__sub____TimePoint", P, P2), outcome(lambda: p - p2), dur)
        if (p == p2) and hash(p) != hash(p2):
            print("FINDING: equal time points with different hashes", p, p2)
    CALENDAR.set_mode("gregorian")
    shutil.rmtree(OUT, ignore_errors=True)
    os.makedirs(OUT)
    shutil.copy(GEN, os.path.join(OUT, "GenCode4.v"))
    with open(os.path.join(OUT, "Diff.v"), "w") as fh:
        fh.write('''From Coq Require Import QArith List Bool String.
From Iso Require Import Proofs.Tac Spec.Cal Model.Helpers gen.CalTables Proofs.GenCode2Ok.
From Iso Require gen.GenCode3.
From Diff Require Import GenCode4.
Import ListNotations.
Open Scope Z_scope.
Definition cal_of (md : mode) : pyCalendar :=
  let dim := DAYS_IN_MONTHS md in let diml := DAYS_IN_MONTHS_LEAP md in
  mkCalendar (sm_DAYS_IN_YEAR dim diml) (sm_DAYS_IN_YEAR_LEAP dim diml) dim diml
    (idx_months md) (idx_months_leap md) (sm_MONTHS_IN_YEAR dim diml)
    (sm_SECONDS_IN_HOUR dim diml) (sm_SECONDS_IN_DAY dim diml) (sm_ROUGH_DAYS_IN_YEAR dim diml).
Definition oz_eqb := opt_eqb Z.eqb.
Definition oq_eqb := opt_eqb Qeq_bool.
Definition tz_eqb (a b : pyTimeZone) := (z_hours a =? z_hours b) && (z_minutes a =? z_minutes b) &&
  Bool.eqb (z_unknown a) (z_unknown b).
Definition tp_eqb (a b : pyTimePoint) : bool :=
  (s_num_expanded_year_digits a =? s_num_expanded_year_digits b) && oz_eqb (s_year a) (s_year b) &&
  oz_eqb (s_month_of_year a) (s_month_of_year b) && oz_eqb (s_day_of_year a) (s_day_of_year b) &&
  oz_eqb (s_day_of_month a) (s_day_of_month b) && oz_eqb (s_day_of_week a) (s_day_of_week b) &&
  oz_eqb (s_week_of_year a) (s_week_of_year b) && oq_eqb (s_hour_of_day a) (s_hour_of_day b) &&
  oq_eqb (s_minute_of_hour a) (s_minute_of_hour b) && oq_eqb (s_second_of_minute a) (s_second_of_minute b) &&
  Bool.eqb (s_truncated a) (s_truncated b) && tz_eqb (s_time_zone a) (s_time_zone b).
Definition tp_is (m : exc pyTimePoint) (o : pyTimePoint) := match m with Ok r => tp_eqb r o | _ => false end.
Definition b_is (m : exc bool) (v : bool) := match m with Ok r => Bool.eqb r v | _ => false end.
Definition q_is (m : exc Q) (v : Q) := match m with Ok r => Qeq_bool r v | _ => false end.
Fixpoint zs_eqb (a : list (option Z)) (b : list Z) := match a, b with
  | [], [] => true | Some x :: r, y :: r' => (x =? y) && zs_eqb r r' | _, _ => false end.
Fixpoint qs_eqb (a : list (option Q)) (b : list Q) := match a, b with
  | [], [] => true | Some x :: r, y :: r' => Qeq_bool x y && qs_eqb r r' | _, _ => false end.
Class Listable (A : Type) := to_zs : A -> list (option Z).
#[global] Instance l2 : Listable (option Z * option Z) := fun '(a, b) => [a; b].
#[global] Instance l3 : Listable (option Z * option Z * option Z) := fun '(a, b, c) => [a; b; c].
Definition zs_is {A} `{Listable A} (m : exc (option A)) (v : list Z) :=
  match m with Ok (Some r) => zs_eqb (to_zs r) v | _ => false end.
Definition qs_is (m : exc (option Q * option Q * option Q)) (v : list Q) :=
  match m with Ok (a, b, c) => qs_eqb [a; b; c] v | _ => false end.
Definition hash_is (m : exc (option Z * option Z * option Z * option Q * option Q * option Q)) (v : list Z) (w : list Q) :=
  match m with Ok (a, b, c, d, e, f) => zs_eqb [a; b; c] v && qs_eqb [d; e; f] w | _ => false end.
Definition dur_eqb (a b : GenCode3.pyDuration) :=
  oz_eqb (GenCode3.s_years a) (GenCode3.s_years b) && oz_eqb (GenCode3.s_months a) (GenCode3.s_months b) &&
  oz_eqb (GenCode3.s_weeks a) (GenCode3.s_weeks b) && oz_eqb (GenCode3.s_days a) (GenCode3.s_days b) &&
  oq_eqb (GenCode3.s_hours a) (GenCode3.s_hours b) && oq_eqb (GenCode3.s_minutes a) (GenCode3.s_minutes b) &&
  oq_eqb (GenCode3.s_seconds a) (GenCode3.s_seconds b).
Definition dur_is (m : exc GenCode3.pyDuration) (o : GenCode3.pyDuration) :=
  match m with Ok r => dur_eqb r o | _ => false end.
Definition exn_eqb (a b : pyexn) := match a, b with
  | TypeError, TypeError | ValueError, ValueError | ZeroDivisionError, ZeroDivisionError => true | _, _ => false end.
Definition raises {A} (m : exc A) (e : pyexn) := match m with Raise x => exn_eqb x e | _ => false end.
Definition checks : list bool := [
  ''' + ";\n  ".join(checks) + '''].
Definition failing := filter (fun p => negb (snd p))
  (combine (map Z.of_nat (seq 0 (length checks))) checks).
Eval vm_compute in (map fst failing).
Example all_agree : forallb (fun x => x) checks = true.
Proof. vm_compute. reflexivity. Qed.
''')
    r = subprocess.run("ulimit -v 8000000; timeout 600 coqc -Q %s Iso -Q . Diff GenCode4.v && "
                       "timeout 3000 coqc -Q %s Iso -Q . Diff Diff.v" % (COQ, COQ), shell=True, cwd=OUT,
                       capture_output=True, text=True)
    print("%d checks on %d random cases: %s" % (len(checks), n, "ALL AGREE" if r.returncode == 0 else "DISAGREE"))
    if r.returncode != 0:
        out = r.stdout + r.stderr
        print(out[-1500:])
        import re
        m = re.search(r"= \[([^\]]*)\]", out)
        if m:
            for idx in [int(x) for x in m.group(1).replace("\n", " ").split(";") if x.strip()][:10]:
                print("  failing check %d: %s" % (idx, checks[idx][:1500]))
    if not os.environ.get("G4_KEEP"):
        shutil.rmtree(OUT, ignore_errors=True)
    return r.returncode


if __name__ == "__main__":
    sys.exit(main())
