#!/venv/bin/python
"""Demonstration for gen/GenCode3.v (class Duration method bodies).

Harmless rewrites of the source must leave coq/Proofs/GenCode3Ok.v provable;
genuinely breaking edits must fail an obligation (an equality lemma, or
`translator_ok_code3 = true` when the edit leaves the accepted subset).

Works on scratch copies only (/tmp/gencode3_repo, /tmp/gencode3_coq), removed
afterwards; neither /repo nor /verif/coq is written.
Usage: tools/gencode3_mutants.py [name-substring]
"""
import glob
import os
import re
import shutil
import subprocess
import sys
import time

TOOLS = os.path.dirname(os.path.abspath(__file__))
COQ = os.path.normpath(os.path.join(TOOLS, "..", "coq"))
REPO_SCRATCH = "/tmp/gencode3_repo"
COQ_SCRATCH = "/tmp/gencode3_coq"
OWN = ("GenCode3", "GenCode3Ok", "C11Code")

CASES = [
    # (kind, name, [(old, new), ...])   kind: "same" must still prove, "break" must fail
    ("same", "control (no change)", []),
    ("same", "H1 renamed locals in get_days_and_seconds", [
        ("""        new_days = (self._years * CALENDAR.ROUGH_DAYS_IN_YEAR +
                    self._months * CALENDAR.ROUGH_DAYS_IN_MONTH +
                    self._days)
        new_seconds = (self._hours * CALENDAR.SECONDS_IN_HOUR +
                       self._minutes * CALENDAR.SECONDS_IN_MINUTE +
                       self._seconds)
        diff_days, new_seconds = divmod(new_seconds, CALENDAR.SECONDS_IN_DAY)
        new_days += diff_days
        return new_days, new_seconds
""", """        nd = (self._years * CALENDAR.ROUGH_DAYS_IN_YEAR +
              self._months * CALENDAR.ROUGH_DAYS_IN_MONTH +
              self._days)
        total = (self._hours * CALENDAR.SECONDS_IN_HOUR +
                 self._minutes * CALENDAR.SECONDS_IN_MINUTE +
                 self._seconds)
        carry, rest = divmod(total, CALENDAR.SECONDS_IN_DAY)
        return nd + carry, rest
""")]),
    ("same", "H2 reordered independent statements (seconds before days; __add__ updates permuted)", [
        ("""        new_days = (self._years * CALENDAR.ROUGH_DAYS_IN_YEAR +
                    self._months * CALENDAR.ROUGH_DAYS_IN_MONTH +
                    self._days)
        new_seconds = (self._hours * CALENDAR.SECONDS_IN_HOUR +
                       self._minutes * CALENDAR.SECONDS_IN_MINUTE +
                       self._seconds)
""", """        new_seconds = (self._seconds +
                       self._minutes * CALENDAR.SECONDS_IN_MINUTE +
                       self._hours * CALENDAR.SECONDS_IN_HOUR)
        new_days = (self._days +
                    self._months * CALENDAR.ROUGH_DAYS_IN_MONTH +
                    CALENDAR.ROUGH_DAYS_IN_YEAR * self._years)
"""),
        ("""            new._years += other._years
            new._months += other._months
            new._days += other._days
            new._hours += other._hours
            new._minutes += other._minutes
            new._seconds += other._seconds
""", """            new._seconds += other._seconds
            new._minutes += other._minutes
            new._hours += other._hours
            new._days += other._days
            new._months += other._months
            new._years += other._years
""")]),
    ("same", "H3 sum([...]) instead of explicit + in _get_non_nominal_seconds", [
        ("""        return (self._days * CALENDAR.SECONDS_IN_DAY +
                self._hours * CALENDAR.SECONDS_IN_HOUR +
                self._minutes * CALENDAR.SECONDS_IN_MINUTE + self._seconds)
""", """        return sum([self._days * CALENDAR.SECONDS_IN_DAY,
                    self._hours * CALENDAR.SECONDS_IN_HOUR,
                    self._minutes * CALENDAR.SECONDS_IN_MINUTE, self._seconds])
""")]),
    ("same", "H4 // and % instead of divmod in get_days_and_seconds", [
        ("""        diff_days, new_seconds = divmod(new_seconds, CALENDAR.SECONDS_IN_DAY)
""", """        diff_days = new_seconds // CALENDAR.SECONDS_IN_DAY
        new_seconds = new_seconds % CALENDAR.SECONDS_IN_DAY
""")]),
    ("same", "H5 is_exact as one boolean expression; __sub__ via __mul__ instead of the reflected product", [
        ("""        if self._years or self._months:
            return False
        return True
""", """        return not (self._years or self._months)
"""),
        ("""        return self + -1 * other

    def __mul__(self, other):
        # TODO: support float multiplication?""", """        negated = other * -1
        return self + negated

    def __mul__(self, other):
        # TODO: support float multiplication?""")]),
    ("same", "H6 SECONDS_IN_MINUTE spelled MINUTES_IN_HOUR (both 60) in _get_non_nominal_seconds", [
        ("""                self._minutes * CALENDAR.SECONDS_IN_MINUTE + self._seconds)
""", """                self._minutes * CALENDAR.MINUTES_IN_HOUR + self._seconds)
""")]),
    ("same", "H7 __mul__ skips zero components (`if value:`): 0 * n = 0 anyway", [
        ("""            if value is not None:
                setattr(new, attr, value * other)
""", """            if value:
                setattr(new, attr, value * other)
""")]),
    ("same", "H8 a new method is added to the class (nothing translated changes)", [
        ("""    def _get_non_nominal_seconds(self):
""", """    def total_minutes(self):
        return self.get_seconds() / CALENDAR.SECONDS_IN_MINUTE

    def _get_non_nominal_seconds(self):
""")]),
    ("same", "R3 stored refactor notes/refactors/R3.diff (hoisted local and chained assignments in __init__, any() in "
     "__bool__, early return in to_weeks, isinstance with a tuple, renamed locals)",
     [("PATCH", "/verif/notes/refactors/R3.diff")]),
    ("same", "T4 stored refactor notes/refactors/T4.diff (__hash__ key as `nominal + (seconds,)` with a conditional "
     "expression of tuples, // and % on a hoisted local, renamed locals in __mul__, early returns in __eq__)",
     [("PATCH", "/verif/notes/refactors/T4.diff")]),
    ("break", "B18 T4-style __hash__ with the key components in the wrong order", [
        ("""        if self.get_is_in_weeks():
            return hash((0, 0, self._get_non_nominal_seconds()))
        return hash(
            (self._years, self._months, self._get_non_nominal_seconds()))
""", """        nominal = (
            (0, 0) if self.get_is_in_weeks()
            else (self._years, self._months))
        return hash((self._get_non_nominal_seconds(),) + nominal)
""")]),
    ("break", "B19 T4-style __hash__ whose week-form key is (0, 1)", [
        ("""        if self.get_is_in_weeks():
            return hash((0, 0, self._get_non_nominal_seconds()))
        return hash(
            (self._years, self._months, self._get_non_nominal_seconds()))
""", """        nominal = (
            (0, 1) if self.get_is_in_weeks()
            else (self._years, self._months))
        return hash(nominal + (self._get_non_nominal_seconds(),))
""")]),
    ("break", "B1 wrong constant: months counted as DAYS_IN_WEEK days in get_days_and_seconds", [
        ("""                    self._months * CALENDAR.ROUGH_DAYS_IN_MONTH +
""", """                    self._months * CALENDAR.DAYS_IN_WEEK +
""")]),
    ("break", "B2 dropped term: __add__ forgets the minutes", [
        ("""            new._minutes += other._minutes
""", "")]),
    ("break", "B3 swapped operands in __lt__", [
        ("""            return self.get_days_and_seconds() < other.get_days_and_seconds()
""", """            return other.get_days_and_seconds() < self.get_days_and_seconds()
""")]),
    ("break", "B4 __eq__ ignores the months of nominal durations", [
        ("""                self._months == other._months and
""", "")]),
    ("break", "B5 __hash__ key with years and months swapped", [
        ("""            (self._years, self._months, self._get_non_nominal_seconds()))
""", """            (self._months, self._years, self._get_non_nominal_seconds()))
""")]),
    ("break", "B6 to_days leaves _weeks set", [
        ("""            new._weeks = None
            return new
""", """            return new
""")]),
    ("break", "B7 __sub__ with the operands swapped", [
        ("""        return self + -1 * other

    def __mul__(self, other):
        # TODO: support float multiplication?""", """        return other + -1 * self

    def __mul__(self, other):
        # TODO: support float multiplication?""")]),
    ("break", "B8 hours weighted by SECONDS_IN_MINUTE in _get_non_nominal_seconds", [
        ("""                self._hours * CALENDAR.SECONDS_IN_HOUR +
                self._minutes * CALENDAR.SECONDS_IN_MINUTE + self._seconds)
""", """                self._hours * CALENDAR.SECONDS_IN_MINUTE +
                self._minutes * CALENDAR.SECONDS_IN_MINUTE + self._seconds)
""")]),
    ("break", "B9 <= falls back to False on equal tuples (strict comparison)", [
        ("""            return self.get_days_and_seconds() <= other.get_days_and_seconds()
""", """            return self.get_days_and_seconds() < other.get_days_and_seconds()
""")]),
    ("break", "B10 leaves the subset: __mul__ mutates self instead of a copy", [
        ("""        new = self._copy()
        for attr in new.__slots__:
            value = getattr(new, attr)
            if value is not None:
                setattr(new, attr, value * other)
        return new
""", """        new = self
        for attr in new.__slots__:
            value = getattr(new, attr)
            if value is not None:
                setattr(new, attr, value * other)
        return new
""")]),
    ("break", "B12 class-level `__hash__ = None` after the def", [
        ("""    def __eq__(self, other: "Duration") -> bool:
        if isinstance(other, Duration):
            if self.is_exact():""", """    __hash__ = None

    def __eq__(self, other: "Duration") -> bool:
        if isinstance(other, Duration):
            if self.is_exact():""")]),
    ("break", "S1 seeded C11-days-and-seconds-memo (lru_cache on a method of a mutable object)",
     [("PATCH", "/verif/seeded/C11-days-and-seconds-memo/patch.diff")]),
    ("break", "S2 seeded C11-days-seconds-trunc (carry of a negative time part truncates)",
     [("PATCH", "/verif/seeded/C11-days-seconds-trunc/patch.diff")]),
    ("break", "S3 seeded C11-rough-year-constant (ROUGH_DAYS_IN_YEAR a class constant 365)",
     [("PATCH", "/verif/seeded/C11-rough-year-constant/patch.diff")]),
    ("break", "B13 _type_checker lets years be a float (an int slot could hold a float)", [
        ("""            (years, "years", int, None),""", """            (years, "years", int, float, None),""")]),
    ("break", "B14 __init__ stores hours and minutes crosswise", [
        ("""        self._hours = hours
        self._minutes = minutes
        self._seconds = seconds
""", """        self._hours = minutes
        self._minutes = hours
        self._seconds = seconds
""")]),
    ("break", "B15 __init__ stores an int-or-float parameter in the int slot _months", [
        ("""        self._months = months
""", """        self._months = minutes
""")]),
    ("break", "B16 chained assignment that forgets _seconds when switching to week form", [
        ("""            self._hours, self._minutes, self._seconds = (None, None, None)
""", """            self._hours = self._minutes = None
""")]),
    ("break", "B17 __bool__ as any() over a list that omits _seconds", [
        ("""        for attr in self.__slots__:
            if getattr(self, attr, None):
                return True
        return False
""", """        return any(getattr(self, attr, None) for attr in
                   ["_years", "_months", "_weeks", "_days", "_hours", "_minutes"])
""")]),
    ("break", "B11 a new slot in __slots__ (state record out of date)", [
        ("""                 "_hours", "_minutes", "_seconds"]

    def __init__(self, years=0, months=0, weeks=0, days=0,""",
         """                 "_hours", "_minutes", "_seconds", "_micro"]

    def __init__(self, years=0, months=0, weeks=0, days=0,""")]),
]


def fresh_tree():
    shutil.rmtree(COQ_SCRATCH, ignore_errors=True)
    for d in ("gen", "Proofs", "Props"):
        os.makedirs(os.path.join(COQ_SCRATCH, d))
    for d in ("Spec", "Model"):
        os.symlink(os.path.join(COQ, d), os.path.join(COQ_SCRATCH, d))
    for f in glob.glob(os.path.join(COQ, "gen", "*.vo")) + glob.glob(os.path.join(COQ, "Proofs", "*.vo")):
        if os.path.basename(f)[:-3] not in OWN:
            os.symlink(f, os.path.join(COQ_SCRATCH, os.path.relpath(f, COQ)))
    shutil.copy(os.path.join(COQ, "Proofs", "GenCode3Ok.v"), os.path.join(COQ_SCRATCH, "Proofs"))
    shutil.copy(os.path.join(COQ, "Props", "C11Code.v"), os.path.join(COQ_SCRATCH, "Props"))


def coqc(path):
    t0 = time.time()
    r = subprocess.run("ulimit -v 8000000; timeout 900 coqc -Q . Iso %s" % path, shell=True,
                       cwd=COQ_SCRATCH, capture_output=True, text=True)
    return r.returncode, (r.stdout + r.stderr), time.time() - t0


def lemma_at(path, out):
    m = re.search(r'line (\d+)', out)
    if not m:
        return "?"
    lines = open(os.path.join(COQ_SCRATCH, path)).read().split("\n")[:int(m.group(1))]
    names = re.findall(r"^(?:Lemma|Theorem|Example)\s+(\w+)", "\n".join(lines), re.M)
    return names[-1] if names else "?"


def run(kind, name, edits):
    print("=== [%s] %s" % (kind, name))
    shutil.rmtree(REPO_SCRATCH, ignore_errors=True)
    shutil.copytree("/repo", REPO_SCRATCH, ignore=shutil.ignore_patterns(".git"))
    path = os.path.join(REPO_SCRATCH, "metomi", "isodatetime", "data.py")
    for old, new in [e for e in edits if e[0] == "PATCH"]:   # a seeded change of /verif/seeded
        subprocess.run("patch -s -p1 < %s" % new, shell=True, cwd=REPO_SCRATCH, check=True)
    src = open(path).read()
    for old, new in [e for e in edits if e[0] != "PATCH"]:
        assert src.count(old) == 1, "expected exactly one occurrence of %r, found %d" % (old, src.count(old))
        src = src.replace(old, new)
    open(path, "w").write(src)
    if edits:   # the edited package must still import (a syntax slip is not a mutant)
        r = subprocess.run(["/venv/bin/python", "-c", "import metomi.isodatetime.data"],
                           env=dict(os.environ, PYTHONPATH=REPO_SCRATCH), capture_output=True, text=True)
        assert r.returncode == 0, r.stderr
    fresh_tree()
    env = dict(os.environ, ISO_REPO=REPO_SCRATCH, VERIF_GEN_OUT=os.path.join(COQ_SCRATCH, "gen"))
    subprocess.run(["/venv/bin/python", os.path.join(TOOLS, "translate_code3.py")], env=env, check=True,
                   capture_output=True)
    gen = open(os.path.join(COQ_SCRATCH, "gen", "GenCode3.v")).read()
    changed = gen != open(os.path.join(COQ, "gen", "GenCode3.v")).read()
    ok_flag = re.search(r"translator_ok_code3 : bool := (\w+)", gen).group(1)
    print("    generated file %s; translator_ok_code3 := %s" % ("CHANGED" if changed else "unchanged", ok_flag))
    for m in re.finditer(r"^\(\* REJECTED: (.*) \*\)$", gen, re.M):
        print("    " + m.group(1)[:200])
    verdict = "PROVES"
    for f in ("gen/GenCode3.v", "Proofs/GenCode3Ok.v", "Props/C11Code.v"):
        rc, out, dt = coqc(f)
        if rc != 0:
            err = " ".join(out.strip().split("\n")[-3:])[:260]
            verdict = "FAILS at %s, %s (%.1fs): %s" % (f, lemma_at(f, out), dt, err)
            break
    print("    -> " + verdict)
    good = (verdict == "PROVES") == (kind == "same")
    print("    %s" % ("as required" if good else "*** NOT as required ***"))
    shutil.rmtree(REPO_SCRATCH, ignore_errors=True)
    shutil.rmtree(COQ_SCRATCH, ignore_errors=True)
    return good


if __name__ == "__main__":
    sel = sys.argv[1] if len(sys.argv) > 1 else ""
    results = [run(*c) for c in CASES if sel in c[1]]
    print("%d of %d as required" % (sum(results), len(results)))
    sys.exit(0 if all(results) else 1)
