#!/venv/bin/python
"""Demonstration for gen/GenCode7.v (TimePoint.__init__, TimePoint._check_bounds, TimeZone.__init__).

Harmless rewrites of the source must leave coq/Proofs/GenCode7Ok.v and coq/Props/C09Code.v
provable; the seeded changes of /verif/seeded that touch the constructor or _check_bounds, and
a few edits of my own, must fail an obligation (an equality theorem, `translator_ok_code7 =
true` when the edit leaves the accepted subset, or an obligation of an earlier phase that
C09Code rests on, e.g. Proofs/TablesOk.v for Calendar.set_mode).

Every case works on scratch copies only: the package in /tmp/gencode7_repo, and a copy of
/verif/tools + /verif/coq in /tmp/gencode7_verif, where that copy's own tools/build.sh
(translate.py -> coq_makefile -> make Props/C09Code.vo) and translate_code7.py run with
ISO_REPO pointing at the edited package.  Neither /repo nor /verif is written; the scratch
directories are removed afterwards.
Usage: tools/gencode7_mutants.py [name-substring]
Environment: G7_C09CODE = a Props/C09Code.v to use when the live tree has none yet; G7_KEEP=1.
"""
import os
import re
import shutil
import subprocess
import sys
import time

TOOLS = os.path.dirname(os.path.abspath(__file__))
VERIF = os.path.normpath(os.path.join(TOOLS, ".."))
REPO_SCRATCH = "/tmp/gencode7_repo"
VERIF_SCRATCH = "/tmp/gencode7_verif"

S = "/verif/seeded/%s/patch.diff"

CASES = [
    # (kind, name, edits)   kind: "same" must still prove, "break" must fail, "info" is reported only
    ("same", "control (no change)", []),
    ("same", "H1 renamed locals in __init__, _check_bounds, TimeZone.__init__, _bounds_checker, _int_caster", [
        ("has_unknown_tz", "tz_is_unknown"),
        ("month_is_specified", "has_month"),
        ("week_is_specified", "has_week"),
        ("max_days_in_month", "day_limit"),
        ("min_minutes", "lowest"),
        ("max_minutes", "highest"),
        ("int_number", "as_int"),
        ("float_number", "as_float"),
    ]),
    ("same", "S4 = notes/refactors/S4.diff (staticmethod _check_format_type, module-level _decimal_caster, "
             "_decimal_string a staticmethod, _get_max_day_in_month, ...)",
     [("PATCH", "/verif/notes/refactors/S4.diff")]),
    ("same", "H2 reordered independent checks whose error is the same BadInputError (week/day-of-year and "
             "minute/second in _check_bounds; the two format checks, the minute/second conflicts of the hour "
             "decimal, week_is_specified computed first and the three date conflicts in another order in __init__)", [
        ("""            _bounds_checker(self._week_of_year, "week_of_year",
                            min_val=1, max_val=get_weeks_in_year(self._year))
            _bounds_checker(self._day_of_year, "day_of_year",
                            min_val=1, max_val=get_days_in_year(self._year))
""", """            _bounds_checker(self._day_of_year, "day_of_year",
                            min_val=1, max_val=get_days_in_year(self._year))
            _bounds_checker(self._week_of_year, "week_of_year",
                            min_val=1, max_val=get_weeks_in_year(self._year))
"""),
        ("""            _bounds_checker(self._minute_of_hour, "minute_of_hour",
                            min_val=0, upper_val=CALENDAR.MINUTES_IN_HOUR)
            _bounds_checker(self._second_of_minute, "second_of_minute",
                            min_val=0, upper_val=CALENDAR.SECONDS_IN_MINUTE)
""", """            _bounds_checker(self._second_of_minute, "second_of_minute",
                            min_val=0, upper_val=CALENDAR.SECONDS_IN_MINUTE)
            _bounds_checker(self._minute_of_hour, "minute_of_hour",
                            min_val=0, upper_val=CALENDAR.MINUTES_IN_HOUR)
"""),
        ("""            if minute_of_hour is not None:
                raise BadInputError(
                    BadInputError.CONFLICT, "minute_of_hour",
                    "hour_of_day_decimal")
            if second_of_minute is not None:
                raise BadInputError(
                    BadInputError.CONFLICT, "second_of_minute",
                    "hour_of_day_decimal")
""", """            if second_of_minute is not None:
                raise BadInputError(
                    BadInputError.CONFLICT, "second_of_minute",
                    "hour_of_day_decimal")
            if minute_of_hour is not None:
                raise BadInputError(
                    BadInputError.CONFLICT, "minute_of_hour",
                    "hour_of_day_decimal")
"""),
        ("""        month_is_specified = bool(self._month_of_year or self._day_of_month)
        week_is_specified = bool(self._week_of_year or self._day_of_week)
        if month_is_specified and week_is_specified:
            raise BadInputError(BadInputError.CONFLICT,
                                "[week_of_year or day_of_week]",
                                "[month_of_year or day_of_month]")
        if month_is_specified and self._day_of_year is not None:
            raise BadInputError(BadInputError.CONFLICT,
                                "day_of_year",
                                "[month_of_year or day_of_month]")
        if week_is_specified and self._day_of_year is not None:
            raise BadInputError(BadInputError.CONFLICT,
                                "day_of_year",
                                "[week_of_year or day_of_week]")
""", """        week_is_specified = bool(self._week_of_year or self._day_of_week)
        month_is_specified = bool(self._month_of_year or self._day_of_month)
        if week_is_specified and self._day_of_year is not None:
            raise BadInputError(BadInputError.CONFLICT,
                                "day_of_year",
                                "[week_of_year or day_of_week]")
        if month_is_specified and self._day_of_year is not None:
            raise BadInputError(BadInputError.CONFLICT,
                                "day_of_year",
                                "[month_of_year or day_of_month]")
        if week_is_specified and month_is_specified:
            raise BadInputError(BadInputError.CONFLICT,
                                "[week_of_year or day_of_week]",
                                "[month_of_year or day_of_month]")
"""),
    ]),
    ("same", "H3 other spellings: x = x + y for +=, an early return and reordered disjuncts in "
             "_bounds_checker, two ifs for if/elif in TimeZone.__init__, `not truncated` tested on the "
             "parameter, MINUTES_IN_HOUR spelled SECONDS_IN_MINUTE (both 60)", [
        ("""            self._hour_of_day += hour_of_day_decimal
""", """            self._hour_of_day = hour_of_day_decimal + self._hour_of_day
"""),
        ("""            self._second_of_minute += second_of_minute_decimal
""", """            self._second_of_minute = self._second_of_minute + second_of_minute_decimal
"""),
        ("""    if (value is not None and
            (value < min_val or
             (max_val is not None and value > max_val) or
             (upper_val is not None and value >= upper_val))):
        raise BadInputError(BadInputError.OUT_OF_BOUNDS, name, value)
""", """    if value is None:
        return
    if ((max_val is not None and max_val < value) or
            (upper_val is not None and not value < upper_val) or
            value < min_val):
        raise BadInputError(BadInputError.OUT_OF_BOUNDS, name, value)
"""),
        ("""            if hours > 0:
                min_minutes = 0
            elif hours < 0:
                max_minutes = 0
""", """            if hours > 0:
                min_minutes = 0
            if 0 > hours:
                max_minutes = 0
"""),
        ("""        if not self._truncated:
            if self._year is None:
                raise BadInputError("Missing input: year")
""", """        if not truncated:
            if self._year is None:
                raise BadInputError("Missing input: year")
"""),
        ("""            min_minutes = 1 - CALENDAR.MINUTES_IN_HOUR
            max_minutes = CALENDAR.MINUTES_IN_HOUR - 1
""", """            min_minutes = 1 - CALENDAR.SECONDS_IN_MINUTE
            max_minutes = CALENDAR.SECONDS_IN_MINUTE - 1
"""),
    ]),
    ("same", "H4 a new method added to the class (nothing translated changes)", [
        ("""    def _check_bounds(self):
""", """    def get_is_truncated(self):
        return self._truncated

    def _check_bounds(self):
""")]),
    ("same", "T2 = notes/refactors/T2.diff (renamed loop variable and one conditional expression in "
             "_type_checker, early returns, De Morgan, hoisted locals, swapped branches, conditional expressions, "
             "merged ifs, a hoisted conjunct of the conflict checks, `if is_duration: return`, the date defaults "
             "extracted into the mutator _set_date_defaults, ...)",
     [("PATCH", "/verif/notes/refactors/T2.diff")]),
    ("break", "S1 seeded C09-24h-second-unchecked", [("PATCH", S % "C09-24h-second-unchecked")]),
    ("break", "S2 seeded C09-year-zero-falsy-bounds", [("PATCH", S % "C09-year-zero-falsy-bounds")]),
    ("break", "S3 seeded C09-max-days-360-truncated (Calendar.set_mode)", [("PATCH", S % "C09-max-days-360-truncated")]),
    ("break", "S4x seeded C08-zero-fraction-minute", [("PATCH", S % "C08-zero-fraction-minute")]),
    ("break", "S5 seeded C07-truncated-zero-zone-unknown", [("PATCH", S % "C07-truncated-zero-zone-unknown")]),
    ("break", "S6 seeded C20-zero-zone-unknown", [("PATCH", S % "C20-zero-zone-unknown")]),
    ("info", "S7 seeded C09-days-in-month-key (the lru_cache key of get_days_in_month: caching is not "
             "modelled by the translation of phases 1-2)", [("PATCH", S % "C09-days-in-month-key")]),
    ("break", "B1 _check_bounds allows month 13", [
        ("""                        min_val=1, max_val=CALENDAR.MONTHS_IN_YEAR)
""", """                        min_val=1, max_val=CALENDAR.MONTHS_IN_YEAR + 1)
""")]),
    ("break", "B2 TimeZone.__init__ allows hours up to 100", [
        ("""                            min_val=-99, max_val=99)
""", """                            min_val=-99, max_val=100)
""")]),
    ("break", "B3 the defaulted day_of_month is 0", [
        ("""                    if self._day_of_month is None:
                        self._day_of_month = 1
""", """                    if self._day_of_month is None:
                        self._day_of_month = 0
""")]),
    ("break", "B4 __init__ does not call _check_bounds", [
        ("""                        self._day_of_week = 1
            self._check_bounds()
""", """                        self._day_of_week = 1
""")]),
    ("break", "B5 hour_of_day_decimal may be 1.0 (max_val for upper_val)", [
        ("""            _bounds_checker(hour_of_day_decimal, "hour_of_day_decimal",
                            min_val=0, upper_val=1)
""", """            _bounds_checker(hour_of_day_decimal, "hour_of_day_decimal",
                            min_val=0, max_val=1)
""")]),
    ("break", "B6 the week / day_of_year conflict is not raised", [
        ("""        if week_is_specified and self._day_of_year is not None:
            raise BadInputError(BadInputError.CONFLICT,
                                "day_of_year",
                                "[week_of_year or day_of_week]")
""", "")]),
    ("break", "B7 _int_caster lets a remainder through (hour_of_day=1.5 accepted)", [
        ("""    if float(int_number) != float_number:
        raise BadInputError(
            BadInputError.INT_REMAINDER, name, number)
    return int_number
""", """    return int_number
""")]),
    ("break", "B8 __init__ leaves _truncated_property unassigned when it is None", [
        ("""        self._truncated_property = truncated_property
""", """        if truncated_property is not None:
            self._truncated_property = truncated_property
""")]),
    ("break", "B9 raise BadInputError(BadInputError.OUT_OF_RANGE, ...): no such attribute (AttributeError)", [
        ("""        raise BadInputError(BadInputError.OUT_OF_BOUNDS, name, value)
""", """        raise BadInputError(BadInputError.OUT_OF_RANGE, name, value)
""")]),
    ("break", "B11 _type_checker lacks the `any(isinstance ...)` acceptance (a float time field would raise)", [
        ("""        if any(isinstance(value, type_) for type_ in allowed_types):
            continue
""", "")]),
    ("break", "B12 _type_checker looks at the value itself (refuses negative numbers)", [
        ("""        if allowed_types and isinstance(value, allowed_types[0]):
            continue
""", """        if allowed_types and isinstance(value, allowed_types[0]) and value >= 0:
            continue
""")]),
    ("break", "B10 _type_checker no longer allows a float hour_of_day", [
        ("""            (hour_of_day, "hour_of_day", None, int, float),
""", """            (hour_of_day, "hour_of_day", None, int),
""")]),
]


def sh(cmd, **kw):
    return subprocess.run(cmd, shell=True, capture_output=True, text=True, **kw)


def lemma_at(path, line):
    try:
        lines = open(path).read().split("\n")[:line]
    except OSError:
        return "?"
    names = re.findall(r"^\s*(?:Lemma|Theorem|Example|Corollary)\s+(\w+)", "\n".join(lines), re.M)
    return names[-1] if names else "?"


def run(kind, name, edits):
    print("=== [%s] %s" % (kind, name))
    sys.stdout.flush()
    t0 = time.time()
    shutil.rmtree(REPO_SCRATCH, ignore_errors=True)
    shutil.copytree("/repo", REPO_SCRATCH, ignore=shutil.ignore_patterns(".git"))
    path = os.path.join(REPO_SCRATCH, "metomi", "isodatetime", "data.py")
    for _old, new in [e for e in edits if e[0] == "PATCH"]:
        subprocess.run("patch -s -p1 < %s" % new, shell=True, cwd=REPO_SCRATCH, check=True)
    src = open(path).read()
    for old, new in [e for e in edits if e[0] != "PATCH"]:
        if "\n" in old:
            assert src.count(old) == 1, "expected exactly one occurrence of %r, found %d" % (old, src.count(old))
            src = src.replace(old, new)
        else:   # an identifier: every whole-word occurrence
            assert re.search(r"\b%s\b" % re.escape(old), src), old
            src = re.sub(r"\b%s\b" % re.escape(old), new, src)
    open(path, "w").write(src)
    if edits:   # the edited package must still import (a syntax slip is not a mutant)
        r = subprocess.run(["/venv/bin/python", "-c", "import metomi.isodatetime.data"],
                           env=dict(os.environ, PYTHONPATH=REPO_SCRATCH), capture_output=True, text=True)
        assert r.returncode == 0, r.stderr
    shutil.rmtree(VERIF_SCRATCH, ignore_errors=True)
    os.makedirs(VERIF_SCRATCH)
    sh("cp -a %s/tools %s/coq %s/" % (VERIF, VERIF, VERIF_SCRATCH))
    scoq = os.path.join(VERIF_SCRATCH, "coq")
    c09 = os.path.join(scoq, "Props", "C09Code.v")
    if not os.path.exists(c09):
        shutil.copy(os.environ["G7_C09CODE"], c09)
    # translate.py calls gen_code7 itself when it is hooked; running it first is harmless
    env = dict(os.environ, ISO_REPO=REPO_SCRATCH)
    env.pop("VERIF_GEN_OUT", None)
    live = {f: open(os.path.join(scoq, "gen", f)).read() for f in os.listdir(os.path.join(scoq, "gen"))
            if f.endswith(".v")}
    r = subprocess.run(["/venv/bin/python", os.path.join(VERIF_SCRATCH, "tools", "translate_code7.py")],
                       env=env, capture_output=True, text=True)
    assert r.returncode == 0, r.stderr
    r = subprocess.run([os.path.join(VERIF_SCRATCH, "tools", "build.sh"), "Props/C09Code.vo"],
                       env=env, capture_output=True, text=True)
    out = r.stdout + r.stderr
    changed = sorted(f for f, old in live.items() if open(os.path.join(scoq, "gen", f)).read() != old)
    gen = open(os.path.join(scoq, "gen", "GenCode7.v")).read()
    flag = re.search(r"translator_ok_code7 : bool := (\w+)", gen).group(1)
    print("    generated files that differ: %s; translator_ok_code7 := %s" % (", ".join(changed) or "none", flag))
    for m in list(re.finditer(r"^\(\* REJECTED: (.*) \*\)$", gen, re.M))[:2]:
        print("    " + m.group(1)[:260])
    verdict = "PROVES"
    if r.returncode != 0 or not os.path.exists(c09 + "o") or os.path.getmtime(c09 + "o") < os.path.getmtime(c09) - 1:
        m = re.search(r'File "\./([\w/]+\.v)", line (\d+), characters[^\n]*\n((?:.*\n){0,6})', out)
        if m:
            err = " ".join(m.group(3).split())[:240]
            verdict = "FAILS at %s, %s: %s" % (m.group(1), lemma_at(os.path.join(scoq, m.group(1)), int(m.group(2))), err)
        else:
            verdict = "FAILS: " + " ".join(out.strip().split("\n")[-3:])[:300]
    else:
        rr = sh("coqc -Q . Iso -w -notation-overridden Props/C09Code.v", cwd=scoq)
        closed = rr.stdout.count("Closed under the global context")
        verdict += " (%d x Closed under the global context)" % closed
    print("    -> %s   [%.0f s]" % (verdict, time.time() - t0))
    proves = verdict.startswith("PROVES")
    good = True if kind == "info" else (proves == (kind == "same"))
    print("    %s" % ("(reported only)" if kind == "info" else "as required" if good else "*** NOT as required ***"))
    sys.stdout.flush()
    if not os.environ.get("G7_KEEP"):
        shutil.rmtree(REPO_SCRATCH, ignore_errors=True)
        shutil.rmtree(VERIF_SCRATCH, ignore_errors=True)
    return good


if __name__ == "__main__":
    sel = sys.argv[1] if len(sys.argv) > 1 else ""
    results = [run(*c) for c in CASES if sel in c[1]]
    print("%d of %d as required" % (sum(results), len(results)))
    sys.exit(0 if all(results) else 1)
