"""pyimports.py -- import spelling is not behaviour.

`import re as _re` + `_re.compile(..)`, `from .parser_spec import TIME_DESIGNATOR` + `TIME_DESIGNATOR`,
`import functools` + `@functools.lru_cache(..)`, `from .exceptions import X` ... bind the same objects as the
spellings the pinned tree uses (`re.compile`, `parser_spec.TIME_DESIGNATOR`, `lru_cache`,
`from metomi.isodatetime.exceptions import X`).  canonicalise(tree) resolves every name bound by a module-level
import to the dotted path of the object it denotes and re-spells it the one way the body translators read:

    metomi.isodatetime.<submodule>            ->  <submodule>            (from . import <submodule>)
    metomi.isodatetime.<submodule>.<attr>     ->  <submodule>.<attr>
    metomi.isodatetime.exceptions.<E>         ->  <E>                    (from metomi.isodatetime.exceptions import <E>)
    functools.lru_cache, math.floor,
    datetime.datetime, typing.<T>             ->  lru_cache, floor, datetime, <T>   (from <m> import <n>)
    <stdlib module>[.<attr>..]                ->  <module>[.<attr>..]    (import <module>)

It is an identity on a module already spelled that way.  Whenever the rewriting is not provably the same program
(an imported or a canonical name is assigned, deleted, used as a parameter, a def/class name, an exception
variable, declared global, or bound by a nested import anywhere in the module; a star import; two imports of one
name; two objects that would share a canonical name) the tree is returned untouched, so that the translators'
own expected-import tests refuse it (fail closed).  Assumed, as everywhere in the translators: nobody rebinds a
module attribute of the package at run time (`from m import x` reads m.x once, `m.x` reads it at each use)."""
import ast

PKG = "metomi.isodatetime"
SUBMODULES = ("data", "dumpers", "parsers", "parser_spec", "timezone", "exceptions", "datetimeoper", "main")
STD_FROM = {("functools", "lru_cache"), ("math", "floor"), ("datetime", "datetime")}
PKG_T = tuple(PKG.split("."))


def _spelled(path):
    """(canonical local name) of a dotted path, or None."""
    if len(path) == len(PKG_T) + 2 and path[:len(PKG_T)] == PKG_T and path[len(PKG_T)] == "exceptions":
        return path[-1]
    if len(path) == len(PKG_T) + 1 and path[:len(PKG_T)] == PKG_T and path[-1] in SUBMODULES:
        return path[-1]
    if len(path) == 2 and (tuple(path) in STD_FROM or path[0] == "typing"):
        return path[1]
    if len(path) == 1 and path[0] != PKG_T[0]:
        return path[0]
    return None


def _import_stmt(path):
    if path[:len(PKG_T)] == PKG_T and len(path) == len(PKG_T) + 2:
        return ast.ImportFrom(module=PKG + ".exceptions", names=[ast.alias(name=path[-1], asname=None)], level=0)
    if path[:len(PKG_T)] == PKG_T:
        return ast.ImportFrom(module=None, names=[ast.alias(name=path[-1], asname=None)], level=1)
    if len(path) == 2:
        return ast.ImportFrom(module=path[0], names=[ast.alias(name=path[1], asname=None)], level=0)
    return ast.Import(names=[ast.alias(name=path[0], asname=None)])


class _Abort(Exception):
    pass


def canonicalise(tree):
    try:
        return _canonicalise(tree)
    except _Abort:
        return tree


def _canonicalise(tree):
    stored = set()
    for n in ast.walk(tree):
        if isinstance(n, ast.Name) and isinstance(n.ctx, (ast.Store, ast.Del)):
            stored.add(n.id)
        elif isinstance(n, ast.arg):
            stored.add(n.arg)
        elif isinstance(n, (ast.FunctionDef, ast.ClassDef, ast.AsyncFunctionDef)):
            stored.add(n.name)
        elif isinstance(n, (ast.Global, ast.Nonlocal)):
            stored.update(n.names)
        elif isinstance(n, ast.ExceptHandler) and n.name:
            stored.add(n.name)
        elif isinstance(n, (ast.Import, ast.ImportFrom)) and n not in tree.body:
            stored.update((a.asname or a.name).split(".")[0] for a in n.names)
    bound = {}   # local name -> dotted path (tuple)

    def bind(k, path):
        if k in bound and bound[k] != path:
            raise _Abort()
        bound[k] = path
    first = None
    for i, n in enumerate(tree.body):
        if isinstance(n, ast.Import):
            first = i if first is None else first
            for a in n.names:
                if a.asname:
                    bind(a.asname, tuple(a.name.split(".")))
                else:
                    bind(a.name.split(".")[0], (a.name.split(".")[0],))
        elif isinstance(n, ast.ImportFrom):
            first = i if first is None else first
            if n.level == 0:
                base = tuple(n.module.split("."))
            elif n.level == 1:
                base = PKG_T + (tuple(n.module.split(".")) if n.module else ())
            else:
                raise _Abort()
            for a in n.names:
                if a.name == "*":
                    raise _Abort()
                bind(a.asname or a.name, base + (a.name,))
    if first is None or any(k in stored for k in bound):
        raise _Abort()
    canon = {}   # canonical local name -> dotted path

    def claim(path):
        nm = _spelled(path)
        if nm is None:
            return None
        if nm in stored or canon.setdefault(nm, path) != path:
            raise _Abort()
        return nm
    for k, path in bound.items():   # keep a binding for every import, used or not
        for j in range(len(path), 0, -1):
            if claim(path[:j]) is not None:
                break
        else:
            raise _Abort()

    class Rw(ast.NodeTransformer):
        def visit_Attribute(self, n):
            chain, e = [], n
            while isinstance(e, ast.Attribute):
                chain.append(e.attr)
                e = e.value
            if isinstance(e, ast.Name) and isinstance(e.ctx, ast.Load) and e.id in bound:
                return self.respell(bound[e.id] + tuple(reversed(chain)), n, len(bound[e.id]))
            return self.generic_visit(n)

        def visit_Name(self, n):
            if isinstance(n.ctx, ast.Load) and n.id in bound:
                return self.respell(bound[n.id], n, len(bound[n.id]))
            return n

        def respell(self, path, node, nbound):
            for j in range(len(path), 0, -1):
                nm = claim(path[:j])
                if nm is not None:
                    break
            else:
                raise _Abort()
            out = ast.Name(id=nm, ctx=ast.Load())
            for a in path[j:]:
                out = ast.Attribute(value=out, attr=a, ctx=ast.Load())
            if isinstance(node, ast.Attribute) and not isinstance(node.ctx, ast.Load):
                if not isinstance(out, ast.Attribute):
                    raise _Abort()
                out.ctx = node.ctx
            return ast.copy_location(out, node)
    rest = [n for n in tree.body if not isinstance(n, (ast.Import, ast.ImportFrom))]
    nfirst = len([n for n in tree.body[:first] if not isinstance(n, (ast.Import, ast.ImportFrom))])
    holder = ast.Module(body=rest, type_ignores=[])
    Rw().visit(holder)
    if any(k in stored for k in canon):
        raise _Abort()
    imports = [_import_stmt(canon[k]) for k in sorted(canon)]
    tree.body = holder.body[:nfirst] + imports + holder.body[nfirst:]
    ast.fix_missing_locations(tree)
    return tree


def inline_test_only_locals(fn):
    """`v = E` immediately followed by `if v:` / `if not v:` where the local v occurs nowhere else in the function is
    `if E:` / `if not E:` (E is evaluated once, at the same point, and v cannot be observed).  Rewrites fn in place."""
    counts = {}
    for n in ast.walk(fn):
        if isinstance(n, ast.Name):
            counts[n.id] = counts.get(n.id, 0) + 1
        elif isinstance(n, ast.arg):
            counts[n.arg] = counts.get(n.arg, 0) + 10
        elif isinstance(n, (ast.Global, ast.Nonlocal)):
            for x in n.names:
                counts[x] = counts.get(x, 0) + 10

    def block(stmts):
        out, i = [], 0
        while i < len(stmts):
            s = stmts[i]
            nxt = stmts[i + 1] if i + 1 < len(stmts) else None
            if (isinstance(s, ast.Assign) and len(s.targets) == 1 and isinstance(s.targets[0], ast.Name)
                    and counts.get(s.targets[0].id) == 2 and isinstance(nxt, ast.If)):
                v, t = s.targets[0].id, nxt.test
                if isinstance(t, ast.Name) and t.id == v:
                    nxt.test = s.value
                    i += 1
                    continue
                if isinstance(t, ast.UnaryOp) and isinstance(t.op, ast.Not) and isinstance(t.operand, ast.Name) \
                        and t.operand.id == v:
                    t.operand = s.value
                    i += 1
                    continue
            out.append(s)
            i += 1
        for s in out:
            for f in ("body", "orelse", "finalbody"):
                if isinstance(getattr(s, f, None), list) and not isinstance(s, (ast.FunctionDef, ast.ClassDef)):
                    setattr(s, f, block(getattr(s, f)))
            for h in getattr(s, "handlers", []) or []:
                h.body = block(h.body)
        return out
    fn.body = block(fn.body)
    return fn
