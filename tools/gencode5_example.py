#!/venv/bin/python
"""Expected values of `Example C12_code_ex` (coq/Props/C12Code.v), computed by the REAL package.

Evaluates, on metomi.isodatetime (PYTHONPATH=/repo or ISO_REPO), the same scenario as
`ex_results` of coq/Proofs/GenCode5Ok.v and prints one Coq string per item, in order.
Usage: /venv/bin/python tools/gencode5_example.py            -> the list, as Coq text
       /venv/bin/python tools/gencode5_example.py --check    -> compare with Props/C12Code.v
"""
import os
import re
import sys
from fractions import Fraction

sys.path.insert(0, os.environ.get("ISO_REPO", "/repo"))
from metomi.isodatetime.data import Calendar, Duration, TimePoint, TimeRecurrence  # noqa: E402


def pt(y, m, d, h=0):
    return TimePoint(year=y, month_of_year=m, day_of_month=d, hour_of_day=h, minute_of_hour=0,
                     second_of_minute=0, time_zone_hour=0, time_zone_minute=0)


def sh_o(f, v):
    return "None" if v is None else f(v)


def sh_state(r):
    try:
        second = sh_o(str, r._second_point)
    except AttributeError:
        second = "unset"
    return "|".join([sh_o(str, r._repetitions), sh_o(str, r._start_point), sh_o(str, r._duration),
                     sh_o(str, r._end_point), second, sh_o(str, r._format_number)])


def sh_q(x):
    f = Fraction(x)
    return str(f.numerator) if f.denominator == 1 else "%d/%d" % (f.numerator, f.denominator)


def sh_pk(p):
    u = p.to_utc()._normalised()
    return " ".join([str(v) for v in u.get_calendar_date()] + [sh_q(v) for v in u.get_hour_minute_second()])


def sh_dk(d):
    if d.get_is_in_weeks():
        return " ".join(["0", "0", sh_q(d._get_non_nominal_seconds())])
    return " ".join([str(d._years), str(d._months), sh_q(d._get_non_nominal_seconds())])


def sh_hash(r):
    hash(r)   # must not raise
    return ";".join([sh_o(str, r._repetitions), sh_o(sh_pk, r._start_point), sh_o(sh_pk, r._end_point),
                     sh_o(sh_dk, r._duration), sh_o(sh_pk, r._min_point), sh_o(sh_pk, r._max_point)])


def attempt(f, show):
    try:
        return show(f())
    except Exception as exc:     # the class name only, as the generated code models it
        return "raise " + type(exc).__name__


def yields(r, k):
    out = []
    for x in r:
        if len(out) == k:
            break
        out.append(sh_o(str, x))
    return ",".join(out)


def sh_b(b):
    assert b is True or b is False
    return "True" if b else "False"


def results():
    out = []
    Calendar.default().set_mode("gregorian")
    p0, d1, dm = pt(2000, 1, 1), Duration(days=1), Duration(months=1)

    def init(**kw):
        return attempt(lambda: TimeRecurrence(**kw), sh_state)
    r3 = TimeRecurrence(repetitions=3, start_point=p0, duration=d1)
    ru = TimeRecurrence(start_point=p0, duration=dm)
    r4 = TimeRecurrence(repetitions=3, duration=dm, end_point=pt(2000, 3, 31))
    r1 = TimeRecurrence(repetitions=3, start_point=p0, end_point=pt(2000, 1, 2))
    rs = TimeRecurrence(duration=dm, end_point=pt(2000, 3, 31))
    out += [sh_state(r3), sh_state(r1), sh_state(r4), sh_state(ru)]
    out.append(init(repetitions=0, start_point=p0, duration=d1))
    out.append(init(repetitions=2, start_point=p0, duration=Duration(days=-1)))
    out.append(init())
    out.append(init(repetitions=5, start_point=p0, duration=Duration(years=0)))
    out.append(init(start_point=pt(2000, 1, 2), end_point=p0))
    out.append(init(repetitions=4, start_point=p0, end_point=p0))
    Calendar.default().set_mode("360day")
    out.append(init(repetitions=3, start_point=pt(2000, 2, 30), duration=dm))
    Calendar.default().set_mode("gregorian")
    out += [yields(r3, 5), yields(ru, 4), yields(r4, 5), yields(r1, 5)]
    pstr = (lambda v: sh_o(str, v))
    out.append(attempt(lambda: r3[2], pstr))
    out.append(attempt(lambda: r3[3], pstr))
    out.append(attempt(lambda: r3[-1], pstr))
    out.append(attempt(lambda: ru[13], pstr))
    out.append(attempt(lambda: r3.get_next(pt(2000, 1, 2)), pstr))
    out.append(attempt(lambda: r3.get_next(pt(2000, 1, 3)), pstr))
    out.append(attempt(lambda: r3.get_prev(p0), pstr))
    out.append(attempt(lambda: r3.get_prev(None), pstr))
    out.append(attempt(lambda: r3._get_is_in_bounds(pt(2000, 1, 3)), sh_b))
    out.append(attempt(lambda: r3._get_is_in_bounds(pt(2000, 1, 3, 1)), sh_b))
    out.append(attempt(lambda: r3._get_is_in_bounds(None), sh_b))
    out.append(attempt(lambda: r3.get_is_valid(pt(2000, 1, 2)), sh_b))
    out.append(attempt(lambda: r3.get_is_valid(pt(2000, 1, 2, 12)), sh_b))
    out.append(attempt(lambda: ru.get_is_valid(pt(2001, 5, 1)), sh_b))
    out.append(attempt(lambda: ru.get_is_valid(pt(2001, 5, 2)), sh_b))
    out.append(attempt(lambda: r4.get_is_valid(pt(2000, 2, 29)), sh_b))
    out.append(attempt(lambda: rs.get_is_valid(pt(1999, 12, 29)), sh_b))
    out.append(attempt(lambda: r3.get_first_after(pt(2000, 1, 2, 12)), pstr))
    out.append(attempt(lambda: r3.get_first_after(pt(1999, 12, 31)), pstr))
    out.append(attempt(lambda: r3.get_first_after(pt(2000, 1, 3)), pstr))
    out.append(attempt(lambda: ru.get_first_after(pt(2000, 1, 15)), pstr))
    out.append(attempt(lambda: rs.get_first_after(pt(2000, 1, 15)), pstr))
    out.append(attempt(lambda: rs.get_first_after(pt(2000, 4, 15)), pstr))
    out.append(attempt(lambda: r3 + Duration(hours=12), sh_state))
    out.append(attempt(lambda: r1 + dm, sh_state))
    out.append(attempt(lambda: r4 - d1, sh_state))
    out.append(attempt(lambda: TimeRecurrence(repetitions=1, duration=d1, end_point=p0) + d1, sh_state))
    out.append(attempt(lambda: r3 == r3, sh_b))
    out.append(attempt(lambda: r3 == r1, sh_b))
    out.append(attempt(lambda: r3 == r4, sh_b))
    out.append(attempt(lambda: sh_hash(r3), str))
    out.append(attempt(lambda: sh_hash(rs), str))
    out += [str(r3), str(r1), str(r4), str(rs)]
    out.append(str(TimeRecurrence(repetitions=5, start_point=p0, duration=Duration(years=0))))
    return out


def coq_list(items):
    return "[ " + ";\n    ".join('"%s"' % s.replace('"', '""') for s in items) + " ]"


if __name__ == "__main__":
    res = results()
    if "--check" in sys.argv:
        path = os.path.join(os.path.dirname(os.path.abspath(__file__)), "..", "coq", "Props", "C12Code.v")
        text = open(path).read()
        m = re.search(r"Example C12_code_ex : ex_results =\s*(\[.*?\])%string\.", text, re.S)
        have = re.findall(r'"((?:[^"]|"")*)"', m.group(1))
        ok = have == res
        print("C12Code.v expected values %s the real package (%d items)" % ("MATCH" if ok else "DIFFER FROM", len(res)))
        if not ok:
            for i, (a, b) in enumerate(zip(have, res)):
                if a != b:
                    print("  item %d: file %r, package %r" % (i, a, b))
        sys.exit(0 if ok else 1)
    print(coq_list(res))
