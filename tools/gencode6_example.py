#!/venv/bin/python
"""Produces the conjuncts of Example C20_code_ex (coq/Props/C20Code.v): the generated definitions of
gen/GenCode6.v applied to concrete states, with the values the real package (PYTHONPATH=/repo) returns.
Usage: TZ=UTC /venv/bin/python tools/gencode6_example.py           (prints the Coq text of the Example)
       TZ=UTC /venv/bin/python tools/gencode6_example.py --check   (compares with coq/Props/C20Code.v)"""
import os
import sys
sys.path.insert(0, os.path.dirname(os.path.abspath(__file__)))
os.environ.setdefault("ISO_REPO", "/repo")
import gencode4_diff as g  # noqa: E402
import gencode6_diff as g6  # noqa: E402
from metomi.isodatetime.data import TimePoint, CALENDAR  # noqa: E402

out = []


def chk(kind, call, val=""):
    out.append(("%s (%s) %s" % (kind, call, val)).rstrip() + " = true")


def add(md, fuel, a, b):
    return "py_TimePoint___add____TimePoint %d (cal_of %s) %s %s" % (fuel, md, g.tp(a), g.tp(b))


def trunc_rec(t):
    """the model's `trunc` record of a truncated TimePoint of the package"""
    z = t._time_zone
    zone = "None" if z._unknown else "(Some (mkZone %s %s))" % (g.z(z._hours), g.z(z._minutes))
    return "(mkTrunc %s %s %s %s %s %s %s %s)" % (
        g.oq(t._hour_of_day), g.oq(t._minute_of_hour), g.oq(t._second_of_minute), g.oz(t._day_of_week),
        g.oz(t._day_of_month), g.oz(t._day_of_year), g.oz(t._week_of_year), zone)


def run(mode):
    CALENDAR.set_mode(mode)
    md = g.MODES[mode]
    full = [
        TimePoint(year=2000, month_of_year=1, day_of_month=1, hour_of_day=12, time_zone_hour=0),
        TimePoint(year=2001, day_of_year=40, hour_of_day=23, minute_of_hour=59, second_of_minute=59,
                  time_zone_hour=5, time_zone_minute=30),
        TimePoint(year=2003, week_of_year=51, day_of_week=7, hour_of_day=24, time_zone_hour=-3),
    ]
    trunc = [
        TimePoint(truncated=True, hour_of_day=6),
        TimePoint(truncated=True, minute_of_hour=30, second_of_minute=15),
        TimePoint(truncated=True, day_of_month=30 if mode == "360day" else 31),
        TimePoint(truncated=True, day_of_week=3, hour_of_day=0, time_zone_hour=1),
        TimePoint(truncated=True, week_of_year=52 if mode == "360day" else 53, day_of_week=1),
    ]
    for p in full:
        for t in trunc:
            chk("tp_is", add(md, 2000, t, p), g.tp(t + p))
        chk("tp_is", add(md, 2000, p, trunc[0]), g.tp(p + trunc[0]))
    for t in trunc:      # rep_trunc is the state the constructor leaves behind
        chk("tp_eqb", "rep_trunc (mkFlags 0 None None None) %s" % trunc_rec(t), g.tp(t))
    t = trunc[3]
    chk("props_is", "py_TimePoint_get_truncated_properties 0 (cal_of %s) %s" % (md, g.tp(t)),
        g6.props(t.get_truncated_properties()))
    chk("props_is", "py_TimePoint_get_truncated_properties 0 (cal_of %s) %s" % (md, g.tp(full[0])), "None")


run("gregorian")
n_g = len(out)
run("360day")
n_3 = len(out) - n_g
CALENDAR.set_mode("gregorian")
# both sides of the fuel: day 366 of the year from 2001-001 is reached after 1460 day steps
p = TimePoint(year=2001, day_of_year=1, hour_of_day=12, time_zone_hour=0)
t = TimePoint(truncated=True, day_of_year=366)
chk("out_of_fuel", add("G", 1400, t, p))
chk("tp_is", add("G", 1500, t, p), g.tp(t + p))
# known finding F8b: hour 24 is never reached (tick_over turns 24 into 0): the loop is still running after
# the model's 25 iterations -- and after 5000
t24 = TimePoint(truncated=True, hour_of_day=24)
p5 = TimePoint(year=2000, month_of_year=1, day_of_month=1, hour_of_day=5, time_zone_hour=0)
chk("out_of_fuel", add("G", 26, t24, p5))
chk("out_of_fuel", add("G", 5000, t24, p5))
# known finding F11: a full point with a fraction of a second never meets a whole-second target
ph = TimePoint(year=2000, month_of_year=1, day_of_month=1, hour_of_day=5, minute_of_hour=0, second_of_minute=0,
               second_of_minute_decimal=0.5, time_zone_hour=0)
tm = TimePoint(truncated=True, minute_of_hour=30)
chk("out_of_fuel", add("G", 62, tm, ph))
chk("out_of_fuel", add("G", 5000, tm, ph))
# neither operand truncated / both truncated: ValueError
chk("raises_value_error", add("G", 10, p, p5))
chk("raises_value_error", add("G", 10, t, tm))

text = "(* %d checks in mode gregorian, %d in 360day, %d on fuel / known findings / errors *)\n  " % (
    n_g, n_3, len(out) - n_g - n_3) + " /\\\n  ".join(out)
if "--check" in sys.argv:
    with open(os.path.join(os.path.dirname(os.path.abspath(__file__)), "..", "coq", "Props", "C20Code.v")) as fh:
        have = fh.read()
    print("MATCH" if text in have else "MISMATCH")
    sys.exit(0 if text in have else 1)
print(text)
