"""C14 (text and hash of recurrences) on the real package.

    recstr  <mode> <reps|-> <start tp|-> <dur|-> <end tp|->   str(TimeRecurrence(...))
    recrt   same: the text ; TimeRecurrenceParser().parse(text) shown like
            `rmake` ; eq <parsed == original>
    rechash same: the tuple TimeRecurrence.__hash__ hashes, every component
            reduced to the tuple its own __hash__ hashes

Mirrors coq/Model/DriverRecText.v line by line.
"""
import impl
from impl import _md, _b, rd_rec, sh_rec, sh_o, sh_q
from impl_text import enc
from metomi.isodatetime.parsers import TimeRecurrenceParser


def sh_tp_key(p):
    """What TimePoint.__hash__ hashes (cf. impl.op_hashkey)."""
    u = p.to_utc()
    if hasattr(u, "_normalised"):
        u = u._normalised()
    y, m, d = u.get_calendar_date()
    h, mi, s = u.get_hour_minute_second()
    return "%d %d %d %s %s %s" % (y, m, d, sh_q(h), sh_q(mi), sh_q(s))


def sh_dur_key(d):
    """What Duration.__hash__ hashes."""
    if d.get_is_in_weeks():
        return "0 0 %s" % sh_q(d._get_non_nominal_seconds())
    return "%d %d %s" % (d._years, d._months,
                         sh_q(d._get_non_nominal_seconds()))


def op_recstr(t):
    _md(t)
    return enc(str(rd_rec(t)))


def op_recrt(t):
    _md(t)
    r = rd_rec(t)
    text = str(r)
    try:
        r2 = TimeRecurrenceParser().parse(text)
        back = "%s ; eq %s" % (sh_rec(r2), _b(r2 == r))
    except ValueError:
        back = "ERR"
    return "%s ; %s" % (enc(text), back)


def op_rechash(t):
    _md(t)
    r = rd_rec(t)
    hash(r)     # the real call: must not raise where the model has a key
    return " ; ".join([
        sh_o(str, r._repetitions), sh_o(sh_tp_key, r._start_point),
        sh_o(sh_tp_key, r._end_point), sh_o(sh_dur_key, r._duration),
        sh_o(sh_tp_key, r._min_point), sh_o(sh_tp_key, r._max_point)])


impl.register("recstr", op_recstr)
impl.register("recrt", op_recrt)
impl.register("rechash", op_rechash)
