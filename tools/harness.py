"""Shared machinery of ./check: build, proof obligations, running the model
and the implementation on the same lines, judging, known findings, evidence.
"""
import json
import multiprocessing
import os
import re
import subprocess
import sys
import time

VERIF = os.path.dirname(os.path.dirname(os.path.abspath(__file__)))
COQ = os.path.join(VERIF, "coq")
MODELRUN = os.environ.get("VERIF_MODELRUN") or os.path.join(COQ, "Extract", "out", "modelrun")
WORK = os.path.join(VERIF, "work")
REPO = os.environ.get("ISO_REPO", "/repo")
NPROC = int(os.environ.get("VERIF_NPROC", "16"))

TRUSTED_BASE = [
    "Coq 8.16.1 kernel as run by coqc (vm_compute used in reflection lemmas; no native_compute)",
    "extraction with ExtrOcamlBasic + ExtrOcamlString only; OCaml 4.13.1 ocamlfind ocamlopt; coq/Extract/main.ml (10 lines of I/O glue)",
    "tools/translate*.py (source -> coq/gen/*.v on every run, fail closed: tables, regexes, cache keys, write effects, and the bodies of the calendar helpers and of the TimePoint, Duration and TimeRecurrence methods, proved equal to the model)",
    "tools/impl.py + tools/harness.py + tools/props/*.py (generators, canonicalisation, comparison)",
    "hand-written Gallina model of the remaining algorithms (parsers, dumper, strftime, CLI, text forms), tied to the code by the correspondence run of this check",
    "CPython: int, float, re, str formatting are modelled, not verified",
]

FORBIDDEN = re.compile(
    r"\b(Admitted|admit|Axiom|Axioms|Parameter|Parameters|Conjecture|"
    r"Admit Obligations|bypass_check|Unset Guard Checking|"
    r"Unset Positivity Checking|Unset Universe Checking)\b")


def log(*a):
    print(*a, file=sys.stderr, flush=True)


# --------------------------------------------------------------------------
# build + obligations
# --------------------------------------------------------------------------
def build(targets):
    """Translate, make the targets, build the extracted binary."""
    t0 = time.time()
    r = subprocess.run([os.path.join(VERIF, "tools", "build.sh")] + targets,
                       capture_output=True, text=True)
    return r.returncode, (r.stdout + r.stderr), time.time() - t0


def scan_forbidden():
    """No Admitted/Axiom/... anywhere in the development."""
    bad = []
    for root, _, files in os.walk(COQ):
        if "Extract/out" in root:
            continue
        for f in files:
            if not f.endswith(".v"):
                continue
            path = os.path.join(root, f)
            with open(path) as fh:
                text = re.sub(r"\(\*.*?\*\)", "", fh.read(), flags=re.S)
            for m in FORBIDDEN.finditer(text):
                bad.append("%s: %s" % (os.path.relpath(path, COQ), m.group(0)))
    return bad


ALLOWED_AXIOMS = set()  # the development is axiom-free; see DESIGN.md 6


def props_files(prop):
    """Props/Cxx.v plus its extension files Props/Cxx<Name>.v (e.g. C13Ext.v, C14Text.v)."""
    import glob
    main = os.path.join(COQ, "Props", prop + ".v")
    more = sorted(f for f in glob.glob(os.path.join(COQ, "Props", prop + "*.v")) if f != main)
    return [main] + more


def check_obligations(prop, tier="quick"):
    """Compile Props/<prop>*.v (dependencies first) and audit their output.

    Returns dict(ok, obligations, discharged, theorems, axioms, detail).
    """
    files = props_files(prop)
    if not os.path.exists(files[0]):
        return dict(ok=False, obligations=1, discharged=0, theorems=[], axioms=[],
                    detail="Props/%s.v does not exist" % prop)
    texts = {}
    theorems = []
    for f in files:
        with open(f) as fh:
            texts[f] = fh.read()
        theorems += re.findall(r"^\s*(?:Theorem|Example|Lemma)\s+(\w+)", texts[f], re.M)
    res = dict(ok=False, obligations=len(theorems) + 1, discharged=0,
               theorems=theorems, axioms=[], detail="", files=[os.path.basename(f) for f in files])
    forb = scan_forbidden()
    if forb:
        res["detail"] = "forbidden constructs: " + "; ".join(forb[:5])
        return res
    mods = [os.path.basename(f)[:-2] for f in files]
    rc, out, _ = build(["Props/%s.vo" % m for m in mods] + ["Extract/Extract.vo"])
    if rc != 0:
        res["detail"] = "build failed:\n" + out[-3000:]
        # how many theorems of the Props files were reached before the error?
        done = 0
        for f, m in zip(files, mods):
            mm = re.search(r'File "\./Props/%s\.v", line (\d+)' % m, out)
            if mm:
                lines = texts[f].split("\n")[:int(mm.group(1))]
                done += max(0, len(re.findall(r"^\s*(?:Theorem|Example|Lemma)\s+\w+", "\n".join(lines), re.M)) - 1)
            elif os.path.exists(f + "o") and os.path.getmtime(f + "o") >= os.path.getmtime(f):
                done += len(re.findall(r"^\s*(?:Theorem|Example|Lemma)\s+\w+", texts[f], re.M))
        res["discharged"] = done if re.search(r'File "\./Props/', out) else 0
        return res
    names = []
    for f, m in zip(files, mods):
        # re-run coqc on the Props file itself to capture Print Assumptions
        r = subprocess.run(
            ["timeout", "900", "coqc", "-Q", ".", "Iso", "-w",
             "-notation-overridden,-deprecated-hint-without-locality,"
             "-deprecated-instance-without-locality",
             "Props/%s.v" % m],
            cwd=COQ, capture_output=True, text=True)
        if r.returncode != 0:
            res["detail"] = "coqc Props/%s.v failed:\n%s" % (m, (r.stdout + r.stderr)[-3000:])
            return res
        out = r.stdout
        closed = out.count("Closed under the global context")
        axioms = re.findall(r"^Axioms:\n((?:.+\n)+)", out, re.M)
        for block in axioms:
            for line in block.split("\n"):
                mm = re.match(r"^(\S+)\s*:", line)
                if mm:
                    names.append(mm.group(1))
        n_print = len(re.findall(r"^\s*Print Assumptions", texts[f], re.M))
        if closed + len(axioms) < n_print:
            res["detail"] = "Print Assumptions output incomplete for Props/%s.v" % m
            return res
    res["axioms"] = sorted(set(names))
    if set(names) - ALLOWED_AXIOMS:
        res["detail"] = "axioms not in the trusted base: %s" % sorted(set(names))
        return res
    if tier == "thorough":
        # independent re-check of the compiled files and everything they depend on
        r = subprocess.run(["timeout", "3000", "coqchk", "-silent", "-Q", ".", "Iso", "-o"] + ["Iso.Props.%s" % m for m in mods],
                           cwd=COQ, capture_output=True, text=True)
        out = r.stdout + r.stderr
        m = re.search(r"\* Axioms:\s*(.*?)\n\s*\n", out, re.S)
        axioms_chk = m.group(1).strip() if m else "?"
        res["coqchk"] = axioms_chk
        if r.returncode != 0 or axioms_chk != "<none>":
            res["detail"] = "coqchk: rc=%d axioms=%s\n%s" % (r.returncode, axioms_chk, out[-1500:])
            return res
    res["ok"] = True
    res["discharged"] = res["obligations"]
    return res


# --------------------------------------------------------------------------
# running the model and the implementation
# --------------------------------------------------------------------------
def run_model(lines):
    if not lines:
        return []
    if not os.access(MODELRUN, os.X_OK):
        raise RuntimeError("extracted model binary missing: " + MODELRUN)
    nchunk = max(1, min(NPROC, len(lines) // 2000 + 1))
    size = (len(lines) + nchunk - 1) // nchunk
    procs = []
    for i in range(nchunk):
        chunk = lines[i * size:(i + 1) * size]
        p = subprocess.Popen([MODELRUN], stdin=subprocess.PIPE,
                             stdout=subprocess.PIPE, text=True)
        procs.append((p, chunk))
    import threading
    outs = [None] * len(procs)

    def feed(i, p, chunk):
        o, _ = p.communicate("\n".join(chunk) + "\n")
        outs[i] = o.split("\n")[:len(chunk)]
    ths = [threading.Thread(target=feed, args=(i, p, c))
           for i, (p, c) in enumerate(procs)]
    for t in ths:
        t.start()
    for t in ths:
        t.join()
    res = []
    for o, (_, chunk) in zip(outs, procs):
        if len(o) != len(chunk):
            raise RuntimeError("model binary produced %d lines for %d inputs"
                               % (len(o), len(chunk)))
        res.extend(o)
    return res


_IMPL = None


def _impl_init(extra_modules):
    global _IMPL
    os.environ["TZ"] = "UTC"
    time.tzset()
    sys.path.insert(0, os.path.join(VERIF, "tools"))
    import impl
    for m in extra_modules:
        __import__(m)
    _IMPL = impl


def _impl_eval(args):
    chunk, timeout = args
    return [_IMPL.eval_line(l, timeout) for l in chunk]


def run_impl(lines, timeout=10, extra_modules=()):
    """Evaluate lines on the real package in worker processes."""
    if not lines:
        return []
    env_ok = os.environ.get("PYTHONHASHSEED") == "0"
    if not env_ok:
        raise RuntimeError("run with PYTHONHASHSEED=0 (./check sets it)")
    # pre-flight: a worker that dies while importing would be respawned forever
    pre = subprocess.run([sys.executable, "-c",
                          "import sys; sys.path.insert(0, %r); import impl\nfor m in %r: __import__(m)" % (
                              os.path.join(VERIF, "tools"), tuple(extra_modules))],
                         capture_output=True, text=True,
                         env=dict(os.environ, ISO_REPO=REPO))
    if pre.returncode != 0:
        raise RuntimeError("the implementation cannot be imported: " + pre.stderr[-800:])
    size = max(1, min(500, len(lines) // (NPROC * 4) + 1))
    chunks = [(lines[i:i + size], timeout) for i in range(0, len(lines), size)]
    ctx = multiprocessing.get_context("spawn")
    with ctx.Pool(min(NPROC, len(chunks)), initializer=_impl_init,
                  initargs=(tuple(extra_modules),)) as pool:
        outs = pool.map(_impl_eval, chunks)
    return [o for chunk in outs for o in chunk]


# --------------------------------------------------------------------------
# cases
# --------------------------------------------------------------------------
class Case:
    """One generated case: the lines evaluated on the implementation, tags
    for the distribution histogram, free-form meta for the judge."""
    __slots__ = ("lines", "tags", "meta", "impl", "mq", "model")

    def __init__(self, lines, tags=(), **meta):
        self.lines = list(lines)
        self.tags = tuple(tags)
        self.meta = meta
        self.impl = None
        self.mq = None
        self.model = None

    def key(self):
        return "\n".join(self.lines)

    def to_json(self):
        def plain(v):
            if isinstance(v, (str, int, float, bool, type(None))):
                return v
            if isinstance(v, (list, tuple)):
                return [plain(x) for x in v]
            if isinstance(v, dict):
                return {str(k): plain(x) for k, x in v.items()}
            return str(v)
        return dict(lines=self.lines, tags=list(self.tags),
                    meta={k: plain(v) for k, v in self.meta.items()},
                    impl=self.impl, model_queries=self.mq, model=self.model)


class Finding:
    def __init__(self, kind, msg, case):
        self.kind = kind      # 'violation' (property false on the implementation)
        self.msg = msg        # or 'disagree' (model and implementation differ)
        self.case = case


def evaluate(mod, cases, timeout=10):
    """impl -> model queries -> judge.  Returns list of Finding."""
    flat = [l for c in cases for l in c.lines]
    outs = run_impl(flat, timeout=timeout,
                    extra_modules=getattr(mod, "IMPL_MODULES", ()))
    i = 0
    for c in cases:
        c.impl = outs[i:i + len(c.lines)]
        i += len(c.lines)
    for c in cases:
        c.mq = list(mod.model_lines(c))
    flat = [l for c in cases for l in c.mq]
    outs = run_model(flat)
    i = 0
    for c in cases:
        c.model = outs[i:i + len(c.mq)]
        i += len(c.mq)
    findings = []
    for c in cases:
        for kind, msg in mod.judge(c):
            findings.append(Finding(kind, msg, c))
    return findings


def crosscheck_extraction(prop, cases, limit=120):
    """Thorough tier: evaluate a sample of the model lines inside coqc with
    vm_compute and require the extracted binary's answers (so that extraction
    and the OCaml glue are checked, not only trusted).  Returns (n, error)."""
    pairs = []
    step = max(1, len(cases) // limit)
    for c in cases[::step]:
        if c.mq and c.model:
            pairs.append((c.mq[0], c.model[0]))
        if len(pairs) >= limit:
            break
    if not pairs:
        return 0, None
    os.makedirs(WORK, exist_ok=True)
    path = os.path.join(WORK, "xcheck_%s.v" % prop)

    def lit(x):
        return '"' + x.replace('"', '""') + '"'
    with open(path, "w") as fh:
        fh.write("From Coq Require Import List String.\nFrom Iso Require Import Model.DriverAll.\n"
                 "Import ListNotations.\nOpen Scope string_scope.\n")
        fh.write("Lemma extraction_agrees : map run_line [%s] = [%s].\nProof. vm_compute. reflexivity. Qed.\n" % (
            "; ".join(lit(a) for a, _ in pairs), "; ".join(lit(b) for _, b in pairs)))
    r = subprocess.run(["timeout", "1800", "coqc", "-Q", COQ, "Iso", path], capture_output=True, text=True, cwd=WORK)
    if r.returncode != 0:
        return len(pairs), (r.stdout + r.stderr)[-1500:]
    return len(pairs), None


# --------------------------------------------------------------------------
# known findings
# --------------------------------------------------------------------------
def load_known():
    path = os.path.join(VERIF, "known_findings.json")
    with open(path) as fh:
        return json.load(fh)


def match_known(prop, finding, known):
    import findings as fmod
    for ent in known.get("findings", []):
        if ent.get("status") != "finding":
            continue
        if prop not in ent.get("properties", [ent.get("property")]):
            continue
        matcher = getattr(fmod, ent["matcher"], None)
        if matcher is not None and matcher(finding.case, finding.msg):
            return ent
    return None


# --------------------------------------------------------------------------
# evidence
# --------------------------------------------------------------------------
def write_evidence(prop, tier, seed, obl, cases, nontrivial, hist, samples,
                   wall, violations, extra=None, rule=""):
    os.makedirs(os.path.join(VERIF, "evidence"), exist_ok=True)
    cov = dict(
        obligations=obl["obligations"], discharged=obl["discharged"],
        checker_cmd="tools/build.sh %s Extract/Extract.vo && coqc -Q . Iso <each of these Props files> (full .vo build via coq_makefile; Print Assumptions audited)" % (
            " ".join("Props/" + f + "o" for f in obl.get("files", [prop + ".v"]))),
        trusted_base=TRUSTED_BASE + ["axioms reported by Print Assumptions: %s" % (
            ", ".join(obl["axioms"]) or "none (Closed under the global context)")],
        theorems=obl["theorems"], coqchk_axioms=obl.get("coqchk", "not run in the quick tier"),
        evaluations=len(cases), distinct_nontrivial=nontrivial,
        rule=rule, samples=samples, distribution=hist,
        traces_validated_against_impl=len(cases),
    )
    if extra:
        cov.update(extra)
    ev = dict(property_id=prop, tier=tier, seed=seed, level="proof",
              coverage=cov, wall_s=round(wall, 2), violations=violations,
              assumptions=[
                  "the hand-written Gallina model agrees with the implementation outside the explored cases (residual risk of a hand-written model)",
                  "decimal (float) regime compared to 1 microsecond, not bit-exactly",
              ])
    with open(os.path.join(VERIF, "evidence", prop + ".json"), "w") as fh:
        json.dump(ev, fh, indent=1, default=str)
        fh.write("\n")
