#!/venv/bin/python
"""CacheTable.v generator for property C15 (fail closed).

By Python `ast` over the package source (ISO_REPO or /repo):

* every function decorated with lru_cache (data.py, dumpers.py; anywhere
  else in the package is picked up as well): parameter list, the functions
  that call it (its public wrapper), whether EVERY call site passes exactly
  `CALENDAR.mode` for some parameter (= the mode is part of the cache key),
  whether it returns a list/dict object and whether any caller mutates the
  returned object in place;
* the call graph reachable from the cached functions: for each function the
  `CALENDAR.<attr>` attributes it reads and the functions it calls, so that
  mode dependence can be closed transitively by the Coq checker.  Anything
  that cannot be resolved appears as a callee `<...>` without a row; the Coq
  checker treats such callees as mode dependent (conservative);
* which CALENDAR attributes are mode dependent: a forward taint analysis of
  Calendar.set_mode from its `mode` parameter;
* writes to attributes of the Calendar singleton outside set_mode;
* the `--calendar` choices of main.py and the environment variable name.

Unknown shapes => `Definition translator_ok_cache : bool := false.`
"""
import ast
import os
import sys

sys.path.insert(0, os.path.dirname(os.path.abspath(__file__)))
import translate  # noqa: E402
from translate import Reject, write_if_changed, coq_list, coq_str, SRC  # noqa: E402

if os.environ.get("VERIF_GEN_OUT"):  # scratch output directory (mutant experiments)
    translate.OUT = os.environ["VERIF_GEN_OUT"]

PKG = "metomi.isodatetime"
CACHE_DECORATORS = {"lru_cache", "cache", "cached_property"}
PLAIN_DECORATORS = {"staticmethod", "classmethod", "property"}
BUILTINS = {
    "range", "reversed", "len", "sum", "max", "min", "int", "float", "str",
    "abs", "enumerate", "divmod", "isinstance", "tuple", "list", "dict",
    "set", "sorted", "zip", "bool", "round", "floor", "ValueError",
    "TypeError", "KeyError", "IndexError", "getattr", "hasattr", "type",
    "repr", "any", "all", "map", "filter", "iter", "next", "print", "super",
    "object", "NotImplementedError", "OverflowError", "format", "id",
    "ISO8601SyntaxError", "TimePointDumperBoundsError", "BadInputError",
    "issubclass", "callable", "ord", "chr", "hash",
}
# methods of str / list / dict / tuple / re objects: cannot observe the mode
BENIGN_METHODS = {
    "append", "extend", "insert", "split", "rsplit", "splitlines", "strip",
    "lstrip", "rstrip", "startswith", "endswith", "replace", "join",
    "format", "lower", "upper", "get", "pop", "items", "keys", "values",
    "setdefault", "update", "sub", "match", "search", "groupdict", "group",
    "groups", "compile", "index", "count", "copy", "isdigit", "zfill",
    "is_integer", "finditer", "findall", "fullmatch", "end", "start",
    "find", "rfind", "title", "ljust", "rjust", "sort", "reverse",
}
MUTATORS = {"append", "extend", "insert", "pop", "remove", "sort", "reverse",
            "clear", "update", "setdefault", "popitem", "add", "discard",
            "__setitem__", "__delitem__"}


def is_calendar_mode(node):
    return (isinstance(node, ast.Attribute) and node.attr == "mode"
            and isinstance(node.value, ast.Name)
            and node.value.id == "CALENDAR")


class Mod:
    def __init__(self, name, path):
        self.name = name
        with open(path) as fh:
            self.tree = ast.parse(fh.read())
        self.funcs = {}      # qualname (without module) -> FunctionDef
        self.classes = {}    # class name -> ClassDef
        self.cls_of = {}     # qualname -> class name or None
        self.mod_alias = {}  # local alias -> dotted module
        self.from_names = {}  # local name -> (dotted module, name)
        self.globals = set()
        self.attr_types = {}  # (class, attr) -> (module alias or None, Class)
        for node in self.tree.body:
            if isinstance(node, (ast.FunctionDef, ast.AsyncFunctionDef)):
                self.funcs[node.name] = node
                self.cls_of[node.name] = None
            elif isinstance(node, ast.ClassDef):
                self.classes[node.name] = node
                for sub in node.body:
                    if isinstance(sub, (ast.FunctionDef, ast.AsyncFunctionDef)):
                        q = node.name + "." + sub.name
                        self.funcs[q] = sub
                        self.cls_of[q] = node.name
            elif isinstance(node, ast.Assign):
                for tgt in node.targets:
                    for n in ast.walk(tgt):
                        if isinstance(n, ast.Name):
                            self.globals.add(n.id)
        for node in ast.walk(self.tree):
            if isinstance(node, ast.Import):
                for a in node.names:
                    self.mod_alias[a.asname or a.name.split(".")[0]] = a.name
            elif isinstance(node, ast.ImportFrom):
                base = node.module or ""
                if node.level:
                    base = PKG + ("." + base if base else "")
                for a in node.names:
                    full = base + "." + a.name
                    self.from_names[a.asname or a.name] = (base, a.name)
                    # `from . import data` binds a module
                    self.mod_alias.setdefault(a.asname or a.name, full)
        for cname, cnode in self.classes.items():
            for n in ast.walk(cnode):
                if isinstance(n, ast.Assign) and len(n.targets) == 1:
                    t = n.targets[0]
                    if (isinstance(t, ast.Attribute) and isinstance(t.value, ast.Name)
                            and t.value.id == "self" and isinstance(n.value, ast.Call)):
                        f = n.value.func
                        if isinstance(f, ast.Attribute) and isinstance(f.value, ast.Name):
                            self.attr_types[(cname, t.attr)] = (f.value.id, f.attr)
                        elif isinstance(f, ast.Name):
                            self.attr_types[(cname, t.attr)] = (None, f.id)


def load_modules():
    mods = {}
    for f in sorted(os.listdir(SRC)):
        if f.endswith(".py"):
            nm = f[:-3]
            mods[nm] = Mod(nm, os.path.join(SRC, f))
    for need in ("data", "dumpers", "main", "datetimeoper"):
        if need not in mods:
            raise Reject("module %s.py not found" % need)
    return mods


def pkg_module(dotted, mods):
    """'metomi.isodatetime.data' or '.data' style -> 'data' if in package."""
    if dotted.startswith(PKG + "."):
        rest = dotted[len(PKG) + 1:]
        if rest in mods:
            return rest
    if dotted == PKG:
        return "__init__"
    return None


def mode_blind_modules(mods):
    """Modules that cannot reach data.py through imports (any depth)."""
    deps = {}
    for nm, m in mods.items():
        d = set()
        for dotted in list(m.mod_alias.values()) + [b for b, _ in m.from_names.values()]:
            p = pkg_module(dotted, mods)
            if p:
                d.add(p)
        for n in ast.walk(m.tree):
            if isinstance(n, ast.Name) and n.id in ("CALENDAR", "Calendar"):
                d.add("data")
        deps[nm] = d
    sees = {nm for nm in mods if nm == "data"}
    changed = True
    while changed:
        changed = False
        for nm in mods:
            if nm not in sees and deps[nm] & sees:
                sees.add(nm)
                changed = True
    return set(mods) - sees


def decorator_name(d):
    if isinstance(d, ast.Call):
        d = d.func
    if isinstance(d, ast.Name):
        return d.id
    if isinstance(d, ast.Attribute):
        return d.attr
    return "?"


def is_cached(node):
    return any(decorator_name(d) in CACHE_DECORATORS for d in node.decorator_list)


class Analysis:
    def __init__(self, mods):
        self.mods = mods
        self.blind = mode_blind_modules(mods)

    def fid(self, mod, qual):
        return mod + "." + qual

    def resolve_in_module(self, target_mod, name):
        """A function or class `name` of package module target_mod."""
        if target_mod in self.blind:
            return None  # cannot observe the mode: benign
        m = self.mods[target_mod]
        if name in m.funcs:
            return self.fid(target_mod, name)
        if name in m.classes:
            if name + ".__init__" in m.funcs:
                return self.fid(target_mod, name + ".__init__")
            return "<class>%s.%s" % (target_mod, name)
        return "<unknown>%s.%s" % (target_mod, name)

    def resolve_call(self, mod, cls, func):
        """-> callee id, or None when the call cannot observe the mode."""
        m = self.mods[mod]
        if isinstance(func, ast.Name):
            nm = func.id
            if nm in m.funcs or nm in m.classes:
                return self.resolve_in_module(mod, nm)
            if nm in m.from_names:
                base, orig = m.from_names[nm]
                p = pkg_module(base, self.mods)
                if p is None:
                    p2 = pkg_module(base + "." + orig, self.mods)
                    if p2 is not None:
                        return "<unknown>module-call %s" % nm
                    if base.startswith(PKG):
                        return "<unknown>%s" % nm
                    return None  # standard library
                return self.resolve_in_module(p, orig)
            if nm in BUILTINS:
                return None
            return "<unknown>%s" % nm
        if isinstance(func, ast.Attribute):
            meth = func.attr
            v = func.value
            if isinstance(v, ast.Name):
                if v.id == "self" and cls is not None:
                    q = cls + "." + meth
                    if q in m.funcs:
                        return self.fid(mod, q)
                    return "<method>%s" % meth
                if v.id in ("CALENDAR", "Calendar"):
                    return "<calendar-method>%s" % meth
                if v.id in m.mod_alias and v.id not in m.funcs:
                    dotted = m.mod_alias[v.id]
                    p = pkg_module(dotted, self.mods)
                    if p is not None:
                        return self.resolve_in_module(p, meth)
                    if dotted.startswith(PKG):
                        return "<unknown>%s.%s" % (v.id, meth)
                    return None  # standard library module
            if (isinstance(v, ast.Attribute) and isinstance(v.value, ast.Name)
                    and v.value.id == "self" and cls is not None
                    and (cls, v.attr) in m.attr_types):
                alias, cname = m.attr_types[(cls, v.attr)]
                if alias is None:
                    tm = mod if cname in m.classes else None
                    if tm is None and cname in m.from_names:
                        tm = pkg_module(m.from_names[cname][0], self.mods)
                else:
                    tm = pkg_module(m.mod_alias.get(alias, ""), self.mods)
                if tm is not None:
                    if tm in self.blind:
                        return None
                    q = cname + "." + meth
                    if q in self.mods[tm].funcs:
                        return self.fid(tm, q)
                    return "<method>%s" % meth
            if meth in BENIGN_METHODS:
                return None
            if isinstance(v, ast.Name) and v.id in BUILTINS and v.id not in m.funcs and v.id not in m.classes \
                    and v.id not in m.globals:
                return None   # a method of a builtin type called on the type itself (dict.fromkeys, str.join, ...)
            return "<method>%s" % meth
        return "<unknown>computed-callee"

    def escaping_functions(self):
        """fids of package functions/methods referenced in a non-call position (passed around as values)."""
        if getattr(self, "_escaping", None) is not None:
            return self._escaping
        out = set()
        for mod, m in self.mods.items():
            for qual, node in m.funcs.items():
                cls = m.cls_of[qual]
                called = {id(n.func) for n in ast.walk(node) if isinstance(n, ast.Call)}
                for n in ast.walk(node):
                    if id(n) in called:
                        continue
                    if isinstance(n, ast.Attribute) and isinstance(n.ctx, ast.Load) and isinstance(n.value, ast.Name) \
                            and n.value.id == "self" and cls is not None and cls + "." + n.attr in m.funcs:
                        out.add(self.fid(mod, cls + "." + n.attr))
                    elif isinstance(n, ast.Name) and isinstance(n.ctx, ast.Load) and n.id in m.funcs:
                        out.add(self.fid(mod, n.id))
        self._escaping = sorted(out)
        return self._escaping

    def analyse(self, mod, qual):
        """-> (sorted CALENDAR attrs read, sorted callees)."""
        m = self.mods[mod]
        node = m.funcs[qual]
        cls = m.cls_of[qual]
        attrs, callees = set(), set()
        for d in node.decorator_list:
            dn = decorator_name(d)
            if dn not in CACHE_DECORATORS and dn not in PLAIN_DECORATORS:
                callees.add("<decorator>%s" % dn)
        parents = {}
        for p in ast.walk(node):
            for c in ast.iter_child_nodes(p):
                parents[c] = p
        local_names = {a.arg for a in node.args.args + node.args.kwonlyargs + node.args.posonlyargs}
        for n in ast.walk(node):
            if isinstance(n, ast.Name) and isinstance(n.ctx, ast.Store):
                local_names.add(n.id)
        for n in ast.walk(node):
            if n is not node and isinstance(n, (ast.FunctionDef, ast.AsyncFunctionDef, ast.Lambda, ast.ClassDef)):
                callees.add("<nested-def>")
            if isinstance(n, (ast.Global, ast.Nonlocal)):
                callees.add("<global-statement>")
            if isinstance(n, (ast.Import, ast.ImportFrom)):
                # function-level import: handled through the module tables
                pass
            if isinstance(n, ast.Name) and isinstance(n.ctx, ast.Load):
                par = parents.get(n)
                if n.id == "CALENDAR":
                    if mod == "data" and isinstance(par, ast.Attribute) and par.value is n \
                            and isinstance(par.ctx, ast.Load) \
                            and not (isinstance(parents.get(par), ast.Call) and parents[par].func is par):
                        attrs.add(par.attr)
                    elif isinstance(par, ast.Attribute) and isinstance(parents.get(par), ast.Call) \
                            and parents[par].func is par:
                        pass  # reported by resolve_call as <calendar-method>
                    else:
                        callees.add("<calendar-object-escapes>")
                elif n.id == "Calendar":
                    callees.add("<calendar-class>")
                elif n.id == "data" and mod != "data" and n.id in m.mod_alias:
                    if not (isinstance(par, ast.Attribute) and isinstance(parents.get(par), ast.Call)
                            and parents[par].func is par):
                        callees.add("<data-attribute>%s" % (par.attr if isinstance(par, ast.Attribute) else "?"))
                elif n.id in m.globals and n.id not in local_names and n.id not in m.funcs \
                        and n.id not in m.classes:
                    if not n.id.isupper() or mod == "data":
                        callees.add("<global>%s" % n.id)
                    else:
                        callees.add("<global>%s" % n.id)
            if isinstance(n, ast.Call):
                c = self.resolve_call(mod, cls, n.func)
                if c is not None:
                    callees.add(c)
                for a in n.args:
                    if isinstance(a, ast.Starred):
                        callees.add("<starred-call>")
        # a method call whose receiver could not be typed (e.g. through a local
        # alias of an attribute) is over-approximated by every method of that
        # name in the package; only when there is none does it stay unknown
        # (unknown callees count as mode dependent in Proofs/CacheSpec.v)
        params = {a.arg for a in node.args.args + node.args.kwonlyargs + node.args.posonlyargs}
        # a local name bound exactly once, to a plain name or attribute (`compile_ = re.compile`, `f = self.method`),
        # and then called: the call goes where the bound expression goes
        stores = {}
        for n in ast.walk(node):
            if isinstance(n, ast.Name) and isinstance(n.ctx, ast.Store):
                stores[n.id] = stores.get(n.id, 0) + 1
        alias = {}
        for n in ast.walk(node):
            if isinstance(n, ast.Assign) and len(n.targets) == 1 and isinstance(n.targets[0], ast.Name) \
                    and stores.get(n.targets[0].id) == 1 and n.targets[0].id not in params \
                    and isinstance(n.value, (ast.Name, ast.Attribute)):
                alias[n.targets[0].id] = n.value
        for c in sorted(callees):
            if c.startswith("<unknown>") and c[len("<unknown>"):] in alias:
                tgt = self.resolve_call(mod, cls, alias[c[len("<unknown>"):]])
                callees.discard(c)
                if tgt is not None:
                    callees.add(tgt)
        for c in sorted(callees):
            # a call of one of the function's own parameters (a callable handed in): any package function that
            # is ever mentioned as a value rather than called
            if c.startswith("<unknown>") and c[len("<unknown>"):] in params:
                esc = self.escaping_functions()
                if esc:
                    callees.discard(c)
                    callees.update(esc)
        for c in sorted(callees):
            if c.startswith("<method>"):
                meth = c[len("<method>"):]
                cands = [self.fid(tm, q) for tm, mm in self.mods.items() if tm not in self.blind
                         for q in mm.funcs if "." in q and q.rsplit(".", 1)[1] == meth]
                if cands:
                    callees.discard(c)
                    callees.update(cands)
        return sorted(attrs), sorted(callees)

    # -------------------------------------------------------------- cached
    def cached_functions(self):
        out = []
        for mod, m in self.mods.items():
            for qual, node in m.funcs.items():
                if is_cached(node):
                    out.append((mod, qual))
            for n in ast.walk(m.tree):
                if isinstance(n, (ast.FunctionDef, ast.AsyncFunctionDef)) and is_cached(n):
                    if not any(n is f for f in m.funcs.values()):
                        raise Reject("cached function %s.%s is not a module-level function or a method" % (mod, n.name))
        return sorted(out)

    def functions_with_scope(self):
        """(module, qualname or '<module>', node, class) for every code body."""
        for mod, m in self.mods.items():
            for qual, node in m.funcs.items():
                yield mod, qual, node, m.cls_of[qual]
            yield mod, "<module>", m.tree, None

    def is_call_to(self, mod, cls, call, target):
        """Does this Call node call the cached function `target` (mod, qual)?"""
        tmod, tqual = target
        f = call.func
        tcls = self.mods[tmod].cls_of[tqual]
        if tcls is None:
            if isinstance(f, ast.Name) and f.id == tqual:
                if mod == tmod:
                    return True
                fn = self.mods[mod].from_names.get(f.id)
                return bool(fn and pkg_module(fn[0], self.mods) == tmod)
            if isinstance(f, ast.Attribute) and f.attr == tqual and isinstance(f.value, ast.Name):
                al = self.mods[mod].mod_alias.get(f.value.id)
                return bool(al and pkg_module(al, self.mods) == tmod)
            return False
        # a method: any attribute call with that method name (by name, conservative)
        return isinstance(f, ast.Attribute) and f.attr == tqual.split(".")[1]

    def call_sites(self, target):
        sites = []
        short = target[1].split(".")[-1]
        for mod, qual, node, cls in self.functions_with_scope():
            if qual == "<module>":
                body_nodes = []
                for st in node.body:
                    if not isinstance(st, (ast.FunctionDef, ast.AsyncFunctionDef, ast.ClassDef)):
                        body_nodes.extend(ast.walk(st))
            else:
                body_nodes = list(ast.walk(node))
            calls = [n for n in body_nodes if isinstance(n, ast.Call)]
            call_funcs = {id(c.func) for c in calls}
            for c in calls:
                if self.is_call_to(mod, cls, c, target):
                    sites.append((self.fid(mod, qual), c))
            # any other reference to the private cached function is refused
            for n in body_nodes:
                ref = None
                if isinstance(n, ast.Name) and n.id == short and isinstance(n.ctx, ast.Load) \
                        and self.mods[target[0]].cls_of[target[1]] is None \
                        and (mod == target[0] or n.id in self.mods[mod].from_names):
                    ref = n
                if ref is not None and id(ref) not in call_funcs and short.startswith("_"):
                    raise Reject("cached function %s referenced as a value in %s.%s" % (short, mod, qual))
        return sites

    def bind_args(self, fnode, call, is_method):
        a = fnode.args
        if a.vararg or a.kwarg or a.kwonlyargs:
            raise Reject("cached function %s has *args/**kwargs/keyword-only parameters" % fnode.name)
        params = [x.arg for x in a.posonlyargs + a.args]
        if is_method:
            params = params[1:]
        bound = {}
        for i, arg in enumerate(call.args):
            if isinstance(arg, ast.Starred) or i >= len(params):
                raise Reject("call of cached function %s with starred/too many arguments" % fnode.name)
            bound[params[i]] = arg
        for kw in call.keywords:
            if kw.arg is None or kw.arg not in params:
                raise Reject("call of cached function %s with **kwargs" % fnode.name)
            bound[kw.arg] = kw.value
        return params, bound

    def returns_container(self, fnode):
        containers = (ast.List, ast.ListComp, ast.Dict, ast.DictComp, ast.Set, ast.SetComp)
        local_cont = set()
        for n in ast.walk(fnode):
            if isinstance(n, ast.Assign) and len(n.targets) == 1 and isinstance(n.targets[0], ast.Name):
                v = n.value
                if isinstance(v, containers) or (isinstance(v, ast.Call) and isinstance(v.func, ast.Name)
                                                 and v.func.id in ("list", "dict", "set")):
                    local_cont.add(n.targets[0].id)
        for n in ast.walk(fnode):
            if isinstance(n, ast.Return) and n.value is not None:
                if isinstance(n.value, containers):
                    return True
                if isinstance(n.value, ast.Name) and n.value.id in local_cont:
                    return True
        return False

    def mutation_by_callers(self, target):
        """Does any code mutate, in place, an object obtained from the cached
        function or from a function that returns its result unchanged?"""
        sources = {target}
        short_of = lambda t: t[1].split(".")[-1]  # noqa: E731
        changed = True
        found = []
        tainted_by_func = {}
        while changed:
            changed = False
            for mod, qual, node, cls in self.functions_with_scope():
                if qual == "<module>":
                    continue
                key = (mod, qual)
                tainted = tainted_by_func.setdefault(key, set())

                def from_source(expr):
                    return isinstance(expr, ast.Call) and any(
                        self.is_call_to(mod, cls, expr, s) for s in sources)
                for n in ast.walk(node):
                    if isinstance(n, ast.Assign) and (from_source(n.value) or (
                            isinstance(n.value, ast.Name) and n.value.id in tainted)):
                        for t in n.targets:
                            if isinstance(t, ast.Name) and t.id not in tainted:
                                tainted.add(t.id)
                                changed = True
                    if isinstance(n, ast.Return) and n.value is not None and key not in sources:
                        if from_source(n.value) or (isinstance(n.value, ast.Name) and n.value.id in tainted):
                            sources.add(key)
                            changed = True
        for mod, qual, node, cls in self.functions_with_scope():
            if qual == "<module>":
                continue
            tainted = tainted_by_func.get((mod, qual), set())

            def is_src(expr):
                if isinstance(expr, ast.Name):
                    return expr.id in tainted
                return isinstance(expr, ast.Call) and any(
                    self.is_call_to(mod, cls, expr, s) for s in sources)
            for n in ast.walk(node):
                if isinstance(n, ast.Call) and isinstance(n.func, ast.Attribute) \
                        and n.func.attr in MUTATORS and is_src(n.func.value):
                    found.append("%s.%s:%d .%s()" % (mod, qual, n.lineno, n.func.attr))
                if isinstance(n, (ast.Assign, ast.AugAssign, ast.Delete)):
                    tgts = n.targets if not isinstance(n, ast.AugAssign) else [n.target]
                    for t in tgts:
                        if isinstance(t, ast.Subscript) and is_src(t.value):
                            found.append("%s.%s:%d item assignment" % (mod, qual, n.lineno))
                        if isinstance(n, ast.AugAssign) and is_src(t):
                            found.append("%s.%s:%d augmented assignment" % (mod, qual, n.lineno))
        return found, sorted(self.fid(*s) for s in sources if s != target)


# ----------------------------------------------------------------- set_mode
def calendar_class(mods):
    for node in mods["data"].tree.body:
        if isinstance(node, ast.ClassDef) and node.name == "Calendar":
            return node
    raise Reject("class Calendar not found")


def set_mode_taint(cls):
    """Attributes of self whose assigned value derives from the parameters."""
    fn = None
    for st in cls.body:
        if isinstance(st, ast.FunctionDef) and st.name == "set_mode":
            fn = st
    if fn is None:
        raise Reject("Calendar.set_mode not found")
    params = [a.arg for a in fn.args.args]
    if not params or params[0] != "self":
        raise Reject("set_mode: first parameter is not self")
    t_local = set(params[1:])
    t_attr = set()

    def tainted(expr):
        for n in ast.walk(expr):
            if isinstance(n, ast.Name) and n.id in t_local:
                return True
            if isinstance(n, ast.Attribute) and isinstance(n.value, ast.Name) \
                    and n.value.id == "self" and n.attr in t_attr:
                return True
        return False

    def do(stmts, cond_taint):
        for s in stmts:
            if isinstance(s, ast.Assign):
                tv = tainted(s.value) or cond_taint
                for tgt in s.targets:
                    elts = tgt.elts if isinstance(tgt, (ast.Tuple, ast.List)) else [tgt]
                    for n in elts:
                        if isinstance(n, ast.Name):
                            if tv:
                                t_local.add(n.id)
                        elif isinstance(n, ast.Attribute) and isinstance(n.value, ast.Name) \
                                and n.value.id == "self":
                            if tv:
                                t_attr.add(n.attr)
                        else:
                            raise Reject("set_mode: unsupported assignment target")
            elif isinstance(s, ast.If):
                ct = cond_taint or tainted(s.test)
                do(s.body, ct)
                do(s.orelse, ct)
            elif isinstance(s, ast.Expr) and isinstance(s.value, ast.Constant):
                pass
            else:
                raise Reject("set_mode: unsupported statement %s" % type(s).__name__)
    # two passes: a later taint cannot flow backwards in straight-line code,
    # the second pass only confirms the fixpoint
    do(fn.body, False)
    before = (set(t_local), set(t_attr))
    do(fn.body, False)
    if before != (t_local, t_attr):
        raise Reject("set_mode: taint analysis did not stabilise")
    return sorted(t_attr)


def external_calendar_writes(mods):
    """Attribute writes to the Calendar singleton outside set_mode."""
    out = []
    cal = calendar_class(mods)
    for st in cal.body:
        if isinstance(st, ast.FunctionDef) and st.name != "set_mode":
            for n in ast.walk(st):
                tgts = []
                if isinstance(n, ast.Assign):
                    tgts = n.targets
                elif isinstance(n, (ast.AugAssign, ast.AnnAssign)):
                    tgts = [n.target]
                elif isinstance(n, ast.Delete):
                    tgts = n.targets
                for t in tgts:
                    if isinstance(t, ast.Attribute) and isinstance(t.value, ast.Name) \
                            and t.value.id in ("self", "cls"):
                        if not (t.value.id == "cls" and t.attr == "_DEFAULT" and st.name == "default"):
                            out.append("data.Calendar.%s:%s" % (st.name, t.attr))
    for mod, m in mods.items():
        for n in ast.walk(m.tree):
            tgts = []
            if isinstance(n, ast.Assign):
                tgts = n.targets
            elif isinstance(n, (ast.AugAssign, ast.AnnAssign)):
                tgts = [n.target]
            elif isinstance(n, ast.Delete):
                tgts = n.targets
            for t in tgts:
                for x in ast.walk(t):
                    if isinstance(x, ast.Attribute):
                        base = x.value
                        if isinstance(base, ast.Name) and base.id in ("CALENDAR", "Calendar"):
                            out.append("%s:%s.%s" % (mod, base.id, x.attr))
                        if isinstance(base, ast.Call) and isinstance(base.func, ast.Attribute) \
                                and base.func.attr == "default":
                            out.append("%s:default().%s" % (mod, x.attr))
            if isinstance(n, ast.Call) and isinstance(n.func, ast.Name) and n.func.id in ("setattr", "delattr"):
                if n.args and any(isinstance(x, ast.Name) and x.id in ("CALENDAR", "Calendar")
                                  for x in ast.walk(n.args[0])):
                    out.append("%s:setattr" % mod)
            if isinstance(n, ast.Attribute) and n.attr == "__dict__" and any(
                    isinstance(x, ast.Name) and x.id in ("CALENDAR", "Calendar") for x in ast.walk(n.value)):
                out.append("%s:__dict__" % mod)
    return sorted(set(out))


def cli_facts(mods):
    choices = None
    for n in ast.walk(mods["main"].tree):
        if isinstance(n, ast.List) and len(n.elts) == 2 and isinstance(n.elts[0], ast.List) \
                and any(isinstance(e, ast.Constant) and e.value == "--calendar" for e in n.elts[0].elts) \
                and isinstance(n.elts[1], ast.Dict):
            for k, v in zip(n.elts[1].keys, n.elts[1].values):
                if isinstance(k, ast.Constant) and k.value == "choices":
                    if not isinstance(v, ast.List) or not all(
                            isinstance(e, ast.Constant) and isinstance(e.value, str) for e in v.elts):
                        raise Reject("--calendar choices are not a list of literals")
                    choices = [e.value for e in v.elts]
    if choices is None:
        raise Reject("--calendar option with literal choices not found in main.py")
    env = None
    dto = mods["datetimeoper"].classes.get("DateTimeOperator")
    if dto is None:
        raise Reject("DateTimeOperator not found")
    for st in dto.body:
        if isinstance(st, ast.Assign) and len(st.targets) == 1 and isinstance(st.targets[0], ast.Name) \
                and st.targets[0].id == "ENV_CALENDAR_MODE" and isinstance(st.value, ast.Constant):
            env = st.value.value
    if not isinstance(env, str):
        raise Reject("DateTimeOperator.ENV_CALENDAR_MODE literal not found")
    # who calls set_mode, and with what
    callers = []
    for mod, m in mods.items():
        for qual, node in m.funcs.items():
            for n in ast.walk(node):
                if isinstance(n, ast.Call) and isinstance(n.func, ast.Attribute) and n.func.attr == "set_mode":
                    callers.append("%s.%s" % (mod, qual))
    return choices, env, sorted(set(callers))


# ------------------------------------------------------------------ output
HEAD = ("(* GENERATED by tools/translate_cache.py from metomi/isodatetime/*.py"
        " (lru_cache functions, their call graph, Calendar.set_mode). Do not edit. *)\n"
        "From Coq Require Import List String Bool.\n"
        "Import ListNotations.\nOpen Scope string_scope.\n\n")


def strs(xs):
    return coq_list(coq_str(x) for x in xs)


def coq_bool(b):
    return "true" if b else "false"


def render(funcs, cached, mode_dep, ext_writes, choices, env, callers, ok, why=""):
    body = []
    if why:
        body.append("(* REJECTED: %s *)" % why.replace("*)", "* )"))
    body.append("(* every function reachable from a cached function:\n"
                "   (qualified name, (CALENDAR attributes read, callees)); a callee without a row\n"
                "   (written <...>) could not be resolved and counts as mode dependent *)")
    body.append("Definition FUNCS : list (string * (list string * list string)) :=\n  %s." % coq_list(
        "\n   (%s, (%s, %s))" % (coq_str(n), strs(a), strs(c)) for n, a, c in funcs))
    body.append("(* every lru_cache'd function: (qualified name, (parameters, (callers,\n"
                "   (every call site passes exactly CALENDAR.mode for some parameter,\n"
                "    (returns a list/dict object, some caller mutates the returned object in place))))) *)")
    body.append("Definition CACHED : list (string * (list string * (list string * (bool * (bool * bool))))) :=\n  %s." % coq_list(
        "\n   (%s, (%s, (%s, (%s, (%s, %s)))))" % (coq_str(n), strs(p), strs(w), coq_bool(k), coq_bool(r), coq_bool(mu))
        for n, p, w, k, r, mu in cached))
    body.append("(* attributes whose value Calendar.set_mode derives from its mode argument *)")
    body.append("Definition MODE_DEP_ATTRS : list string := %s." % strs(mode_dep))
    body.append("(* attribute writes to the Calendar singleton outside set_mode (must be none) *)")
    body.append("Definition CALENDAR_EXTERNAL_WRITES : list string := %s." % strs(ext_writes))
    body.append("Definition CLI_CALENDAR_CHOICES : list string := %s." % strs(choices))
    body.append("Definition ENV_CALENDAR_MODE : string := %s." % coq_str(env))
    body.append("Definition SET_MODE_CALLERS : list string := %s." % strs(callers))
    body.append("Definition translator_ok_cache : bool := %s." % coq_bool(ok))
    return HEAD + "\n".join(body) + "\n"


def build_tables():
    mods = load_modules()
    an = Analysis(mods)
    cached = an.cached_functions()
    if not cached:
        raise Reject("no lru_cache function found")
    cached_rows = []
    for tgt in cached:
        mod, qual = tgt
        fnode = mods[mod].funcs[qual]
        is_method = mods[mod].cls_of[qual] is not None
        sites = an.call_sites(tgt)
        params = None
        per_param = None
        for _, call in sites:
            params, bound = an.bind_args(fnode, call, is_method)
            ok_here = {p for p in params if p in bound and is_calendar_mode(bound[p])}
            per_param = ok_here if per_param is None else (per_param & ok_here)
        if params is None:
            a = fnode.args
            if a.vararg or a.kwarg or a.kwonlyargs:
                raise Reject("cached function %s has *args/**kwargs" % qual)
            params = [x.arg for x in a.posonlyargs + a.args][(1 if is_method else 0):]
        keyed = bool(per_param)
        callers = sorted({c for c, _ in sites})
        muts, _ = an.mutation_by_callers(tgt)
        cached_rows.append((an.fid(mod, qual), params, callers, keyed,
                            an.returns_container(fnode), bool(muts)))
    # reachable call graph
    rows = {}
    todo = [an.fid(m, q) for m, q in cached]
    while todo:
        f = todo.pop()
        if f in rows or f.startswith("<"):
            continue
        mod, qual = f.split(".", 1)
        if mod not in mods or qual not in mods[mod].funcs:
            continue
        attrs, callees = an.analyse(mod, qual)
        rows[f] = (attrs, callees)
        todo.extend(callees)
    funcs = [(f, rows[f][0], rows[f][1]) for f in sorted(rows)]
    mode_dep = set_mode_taint(calendar_class(mods))
    ext = external_calendar_writes(mods)
    choices, env, callers = cli_facts(mods)
    return funcs, cached_rows, mode_dep, ext, choices, env, callers


def gen_cache_table():
    try:
        funcs, cached, mode_dep, ext, choices, env, callers = build_tables()
        text = render(funcs, cached, mode_dep, ext, choices, env, callers, True)
    except (Reject, KeyError, TypeError, ValueError, IndexError, SyntaxError, OSError) as exc:
        text = render([], [], [], [], [], "", [], False, "%s: %s" % (type(exc).__name__, exc))
    return write_if_changed("CacheTable.v", text)


if __name__ == "__main__":
    print("translate_cache: %s" % ("regenerated CacheTable.v" if gen_cache_table() else "unchanged"))
