#!/venv/bin/python
"""GenCode9.v generator: the dumper -- class TimePointDumper (dumpers.py) and the
TimePoint methods / properties it reads (data.py) -> Gallina (fail closed).

Phase 9 of GenCode (see notes/GENCODE9_REPORT.md).  Object states: phase 4's
records pyTimePoint / pyTimeZone (gen/GenCode4.v) and pyDumper (what
TimePointDumper.__init__ keeps).  Strings are Coq strings, %-templates are
`list dtok` (Model/Forms.v, the token reading the generated tables of
gen/Grammar.v are written in); `template % dict` is py_render.  The TimePoint
operations that phase 4 translated (to_*_date, to_time_zone, to_utc,
_normalised, get_*_date, get_hour_minute_second), TimeZone(...), the regex
substitutions of _get_expression_and_properties, get_time_zone,
translate_strftime_token and "%0.6f" % x are fields of the record dump_ops
(abstract; instantiated in coq/Proofs/GenCode9Ok.v).

Anything outside the subset raises Reject; a rejected REQUIRED entry point
becomes a dummy and translator_ok_code9 := false.
"""
import ast
import pyimports
import hashlib
import os
import sys
from fractions import Fraction

sys.path.insert(0, os.path.dirname(os.path.abspath(__file__)))
import translate  # noqa: E402
from translate import Reject, write_if_changed, coq_str  # noqa: E402
import translate_code  # noqa: E402,F401  (redirects translate.OUT for VERIF_GEN_OUT)

SRC = os.path.join(translate.REPO, "metomi", "isodatetime")
HERE = os.path.dirname(os.path.abspath(__file__))

# ---------------------------------------------------------------- types
Z, Q, B, S, T, TP, TZ, DMP, N, V, D, DUR, UNIT = "Z", "Q", "B", "S", "T", "TP", "TZ", "DMP", "N", "V", "D", "DUR", "UNIT"


def OPT(t):
    return ("opt", t)


def TUP(*ts):
    return ("tup", tuple(ts))


def LIST(t):
    return ("list", t)


def coq_ty(t):
    if isinstance(t, tuple):
        if t[0] == "opt":
            return "(option %s)" % coq_ty(t[1])
        if t[0] == "tup":
            return "(" + " * ".join(coq_ty(x) for x in t[1]) + ")"
        if t[0] == "list":
            return "(list %s)" % coq_ty(t[1] if t[1] is not None else S)
    return {Z: "Z", Q: "Q", B: "bool", S: "string", T: "(list dtok)", TP: "pyTimePoint", TZ: "pyTimeZone",
            DMP: "pyDumper", V: "pyval", D: "pydict", DUR: "GenCode3.pyDuration", UNIT: "unit",
            N: "unit"}[t]


def ty_code(t):
    if isinstance(t, tuple):
        if t[0] == "opt":
            return "o" + ty_code(t[1])
        if t[0] == "tup":
            return "p" + "".join(ty_code(x) for x in t[1])
        if t[0] == "list":
            return "l" + ty_code(t[1] if t[1] is not None else S)
    return {Z: "z", Q: "q", B: "b", S: "s", T: "t", TP: "tp", TZ: "tz", DMP: "dmp", N: "n", V: "v", D: "d",
            DUR: "dur", UNIT: "u"}[t]


SLOTS = [("_num_expanded_year_digits", Z), ("_year", OPT(Z)), ("_month_of_year", OPT(Z)),
         ("_day_of_year", OPT(Z)), ("_day_of_month", OPT(Z)), ("_day_of_week", OPT(Z)),
         ("_week_of_year", OPT(Z)), ("_hour_of_day", OPT(Q)), ("_minute_of_hour", OPT(Q)),
         ("_second_of_minute", OPT(Q)), ("_truncated", B), ("_truncated_property", OPT(S)),
         ("_truncated_dump_format", OPT(S)), ("_dump_format", OPT(S)), ("_time_zone", TZ)]
SLOT_TY = dict(SLOTS)
TZ_SLOTS = {"_hours": (Z, "z_hours"), "_minutes": (Z, "z_minutes"), "_unknown": (B, "z_unknown")}

O3Z = OPT(TUP(OPT(Z), OPT(Z), OPT(Z)))
O2Z = OPT(TUP(OPT(Z), OPT(Z)))
# abstract operations: field -> (argument types, result type, Coq type, doc)
OPS = [
    ("T_to_week_date", [TP], TP, "TimePoint.to_week_date (phase 4)"),
    ("T_to_calendar_date", [TP], TP, "TimePoint.to_calendar_date (phase 4)"),
    ("T_to_ordinal_date", [TP], TP, "TimePoint.to_ordinal_date (phase 4)"),
    ("T_to_utc", [TP], TP, "TimePoint.to_utc (phase 4)"),
    ("T__normalised", [TP], TP, "TimePoint._normalised (phase 4)"),
    ("T_to_time_zone", [TP, TZ], TP, "TimePoint.to_time_zone (phase 4)"),
    ("T_get_calendar_date", [TP], O3Z, "TimePoint.get_calendar_date (phase 4)"),
    ("T_get_ordinal_date", [TP], O2Z, "TimePoint.get_ordinal_date (phase 4)"),
    ("T_get_week_date", [TP], O3Z, "TimePoint.get_week_date (phase 4)"),
    ("T_get_hour_minute_second", [TP], TUP(OPT(Q), OPT(Q), OPT(Q)), "TimePoint.get_hour_minute_second (phase 4)"),
    ("T_unix_epoch_reference", [], TP, "TimePoint(**CALENDAR.UNIX_EPOCH_DATE_TIME_REFERENCE_PROPERTIES)"),
    ("T_sub_timepoint", [TP, TP], DUR, "TimePoint - TimePoint (phase 4)"),
    ("U_get_days_and_seconds", [DUR], TUP(Z, Q), "Duration.get_days_and_seconds (phase 3)"),
    ("C_SECONDS_IN_DAY", [], Z, "CALENDAR.SECONDS_IN_DAY (assigned by set_mode)"),
    ("Z_make", [Z, Z], TZ, "TimeZone(hours=h, minutes=m) (phase 7)"),
    ("D_get_time_zone", [DMP, S], OPT(TUP(Z, Z)), "TimePointDumper.get_time_zone (the parser's reading of a zone text)"),
    ("D_translate", [DMP, S, S], TUP(T, LIST(S)),
     "the loop `for rec, format_sub, prop in self._rec_formats[key]: string = rec.sub(format_sub, string) ...`: "
     "the translated template and the properties appended"),
    ("S_translate_token", [S], TUP(T, LIST(S)), "parser_spec.translate_strftime_token(item)"),
    ("F_float_format", [S, Q], S, "\"%0.6f\" % x"),
]
OPS_SIG = {n: (a, r) for n, a, r, _ in OPS}
TP_OP_METHODS = {"to_week_date": "T_to_week_date", "to_calendar_date": "T_to_calendar_date",
                 "to_ordinal_date": "T_to_ordinal_date", "to_utc": "T_to_utc", "_normalised": "T__normalised",
                 "to_time_zone": "T_to_time_zone", "get_calendar_date": "T_get_calendar_date",
                 "get_ordinal_date": "T_get_ordinal_date", "get_week_date": "T_get_week_date",
                 "get_hour_minute_second": "T_get_hour_minute_second"}
EXN_LOCAL = ["TimePointDumperBoundsError", "StrftimeSyntaxError", "BadInputError", "ISO8601SyntaxError"]
EXN_BUILTIN = ["TypeError", "ZeroDivisionError", "ValueError", "IndexError", "KeyError", "AttributeError",
               "OverflowError", "RuntimeError"]
DUMPER_INIT_SHA = "c5b4f17ab0bf0b08efc77d6600147684e79435622c9059577310a3bc8feb2050"   # expected shape of TimePointDumper.__init__ (ast.dump)


class Val:
    """a translated expression: pure Coq term, type, and (for compile-time constants) the Python value"""
    def __init__(self, term, ty, static=None, has_static=False, fn=None):
        self.term, self.ty, self.static, self.has_static, self.fn = term, ty, static, has_static, fn

    def __repr__(self):
        return "Val(%s : %s)" % (self.term, self.ty)


def sval(pyv):
    """a compile-time constant"""
    if pyv is None:
        return Val("tt", N, None, True)
    if pyv is True or pyv is False:
        return Val("true" if pyv else "false", B, pyv, True)
    if isinstance(pyv, int):
        return Val(zl(pyv), Z, pyv, True)
    if isinstance(pyv, float):
        f = Fraction(repr(pyv))
        return Val("(%s # %d)" % (f.numerator if f.numerator >= 0 else "(%d)" % f.numerator, f.denominator), Q)
    if isinstance(pyv, str):
        if any(ord(c) > 126 or ord(c) < 32 for c in pyv):
            raise Reject("non-printable string constant")
        return Val(coq_str(pyv), S, pyv, True)
    raise Reject("constant %r" % (pyv,))


def zl(n):
    return str(n) if n >= 0 else "(%d)" % n


def join_ty(a, b):
    if a == b:
        return a
    if a is None:
        return b
    if b is None:
        return a
    if a == N:
        return b if (isinstance(b, tuple) and b[0] == "opt") else OPT(b)
    if b == N:
        return join_ty(b, a)
    if isinstance(a, tuple) and a[0] == "opt" and not (isinstance(b, tuple) and b[0] == "opt"):
        return OPT(join_ty(a[1], b))
    if isinstance(b, tuple) and b[0] == "opt" and not (isinstance(a, tuple) and a[0] == "opt"):
        return OPT(join_ty(a, b[1]))
    if isinstance(a, tuple) and isinstance(b, tuple) and a[0] == b[0]:
        if a[0] == "opt":
            return OPT(join_ty(a[1], b[1]))
        if a[0] == "list":
            return LIST(join_ty(a[1], b[1]))
        if a[0] == "tup" and len(a[1]) == len(b[1]):
            return TUP(*[join_ty(x, y) for x, y in zip(a[1], b[1])])
    if {a, b} == {Z, Q}:
        return Q
    if {a, b} == {S, T}:
        return T
    raise Reject("no common type for %s and %s" % (a, b))


def coerce(v, ty):
    """v as a value of type ty (pure)"""
    if v.ty == ty:
        return v
    if isinstance(ty, tuple) and ty[0] == "list" and isinstance(v.ty, tuple) and v.ty[0] == "list" and v.ty[1] is None:
        return Val(v.term, ty)
    if isinstance(ty, tuple) and ty[0] == "opt":
        if v.ty == N:
            return Val("None", ty)
        if isinstance(v.ty, tuple) and v.ty[0] == "opt":
            if v.ty[1] == ty[1]:
                return v
            inner = coerce(Val("x_", v.ty[1]), ty[1])
            return Val("(match %s with Some x_ => Some %s | None => None end)" % (v.term, inner.term), ty)
        return Val("(Some %s)" % coerce(v, ty[1]).term, ty)
    if v.ty == Z and ty == Q:
        return Val("(inject_Z %s)" % v.term, Q)
    if v.ty == S and ty == T:
        return Val("(lit_tmpl %s)" % v.term, T)
    if isinstance(ty, tuple) and ty[0] == "tup" and isinstance(v.ty, tuple) and v.ty[0] == "tup" \
            and len(ty[1]) == len(v.ty[1]):
        names = ["c%d_" % i for i in range(len(ty[1]))]
        parts = [coerce(Val(n, t0), t1).term for n, t0, t1 in zip(names, v.ty[1], ty[1])]
        return Val("(let '(%s) := %s in (%s))" % (", ".join(names), v.term, ", ".join(parts)), ty)
    raise Reject("cannot use a %s where a %s is expected" % (v.ty, ty))


def is_opt(t):
    return isinstance(t, tuple) and t[0] == "opt"


class Impure(Exception):
    pass


class Cx:
    """per-function translation context"""
    def __init__(self, unit, owner, fname):
        self.unit, self.owner, self.fname = unit, owner, fname
        self.n = 0
        self.ret_ty = None        # second pass: the joined return type
        self.rets = []            # first pass: types of the returns met
        self.cont = None          # inside a dynamic loop: env -> code for `continue`
        self.guards = set()       # dumper-map guards seen: ast.dump of the key

    def fresh(self, base="t"):
        self.n += 1
        return "%s%d" % (base, self.n)


def wrap(b, body):
    out = ""
    for n, m in b:
        out += "%s <- %s ;;\n" % (n, m)
    return out + body


def names_assigned(stmts):
    out = []

    def tgt(t):
        if isinstance(t, ast.Name):
            if t.id not in out:
                out.append(t.id)
        elif isinstance(t, (ast.Tuple, ast.List)):
            for x in t.elts:
                tgt(x)
        elif isinstance(t, ast.Subscript) and isinstance(t.value, ast.Name):
            if isinstance(t.slice, ast.Constant):
                nm = "%s[%s]" % (t.value.id, t.slice.value)
                if nm not in out:
                    out.append(nm)
            if t.value.id not in out:
                out.append(t.value.id)
    for s in stmts:
        for nd in ast.walk(s):
            if isinstance(nd, ast.Assign):
                for t in nd.targets:
                    tgt(t)
            elif isinstance(nd, (ast.AugAssign, ast.AnnAssign)):
                tgt(nd.target)
            elif isinstance(nd, ast.For):
                tgt(nd.target)
            elif isinstance(nd, ast.Expr) and isinstance(nd.value, ast.Call) and \
                    isinstance(nd.value.func, ast.Attribute) and isinstance(nd.value.func.value, ast.Name) and \
                    nd.value.func.attr in ("append", "extend", "update"):
                if nd.value.func.value.id not in out:
                    out.append(nd.value.func.value.id)
    return out


_FACTS = {}


def runtime_facts():
    """values of a few module-level constants as the imported package holds them (one subprocess per run)"""
    if translate.REPO in _FACTS:
        return _FACTS[translate.REPO]
    import json
    import subprocess
    code = r'''
import sys, re, json
sys.path.insert(0, %r)
from metomi.isodatetime import parser_spec, data
from metomi.isodatetime.dumpers import TimePointDumper
def pat(x, want):
    return isinstance(x, re.Pattern) and x.pattern == want and x.flags == re.compile(want).flags
m = data.TIMEPOINT_DUMPER_MAP
print(json.dumps({
  "TIME_DESIGNATOR_is_T": type(parser_spec.TIME_DESIGNATOR) is str and parser_spec.TIME_DESIGNATOR == "T",
  "REC_SPLIT_STRFTIME_DIRECTIVE_ok": pat(parser_spec.REC_SPLIT_STRFTIME_DIRECTIVE, r"(%%\w)"),
  "REC_STRFTIME_DIRECTIVE_TOKEN_ok": pat(parser_spec.REC_STRFTIME_DIRECTIVE_TOKEN, r"^%%\w$"),
  "DUMPER_MAP_ok": type(m) is dict and all(type(k) is int and type(v) is TimePointDumper
                                           and type(v.num_expanded_year_digits) is int
                                           and v.num_expanded_year_digits == k for k, v in m.items())}))
''' % translate.REPO
    r = subprocess.run([sys.executable, "-c", code], capture_output=True, text=True, timeout=120,
                       env=dict(os.environ, PYTHONHASHSEED="0"))
    if r.returncode != 0:
        raise Reject("the package cannot be imported: " + r.stderr.strip()[-200:])
    _FACTS[translate.REPO] = json.loads(r.stdout)
    return _FACTS[translate.REPO]


def check_dumper_init(init):
    """TimePointDumper.__init__ written differently from the pinned tree (whose ast.dump has the stored hash).
    It is accepted when (statically) it cannot look at `num_expanded_year_digits` except to store it and to pass it to
    parser_spec.get_date_translate_info, calls nothing but the three parser_spec.get_*_translate_info, re.compile and
    the container builders, and stores only into locals and attributes/items of `self`; and (by running the package's
    own constructor for 0..9 expanded year digits) the object it leaves behind is exactly the one the pinned
    constructor builds: _timepoint_parser None, _time_designator = parser_spec.TIME_DESIGNATOR, the number stored, and
    _rec_formats[key] = [(re.compile(regex), format_sub, prop_name) for regex, _, format_sub, prop_name in info]
    for the three tables.  The first part makes the body uniform in the number, the second decides what it does."""
    a = init.args
    if init.decorator_list or a.posonlyargs or a.kwonlyargs or a.vararg or a.kwarg \
            or [x.arg for x in a.args] != ["self", "num_expanded_year_digits"] \
            or len(a.defaults) != 1 or not (isinstance(a.defaults[0], ast.Constant) and a.defaults[0].value == 2
                                            and type(a.defaults[0].value) is int):
        raise Reject("TimePointDumper.__init__: signature is not (self, num_expanded_year_digits=2)")
    N = "num_expanded_year_digits"
    parent = {}
    for nd in ast.walk(init):
        for ch in ast.iter_child_nodes(nd):
            parent[ch] = nd
    bad = (ast.Global, ast.Nonlocal, ast.Import, ast.ImportFrom, ast.Raise, ast.Try, ast.With, ast.Lambda, ast.Yield,
           ast.YieldFrom, ast.Await, ast.While, ast.FunctionDef, ast.AsyncFunctionDef, ast.ClassDef, ast.Delete,
           ast.AugAssign, ast.NamedExpr, ast.Return, ast.Assert, ast.AsyncFor, ast.AsyncWith)
    info_fns = ("get_date_translate_info", "get_time_translate_info", "get_time_zone_translate_info")

    def is_ps(f, names):
        return isinstance(f, ast.Attribute) and isinstance(f.value, ast.Name) and f.value.id == "parser_spec" \
            and f.attr in names
    for nd in ast.walk(init):
        if nd is init:
            continue
        if isinstance(nd, bad):
            raise Reject("TimePointDumper.__init__: statement kind %s" % type(nd).__name__)
        if isinstance(nd, ast.Call):
            f = nd.func
            ok = is_ps(f, info_fns) \
                or (isinstance(f, ast.Attribute) and isinstance(f.value, ast.Name) and f.value.id == "re"
                    and f.attr == "compile") \
                or (isinstance(f, ast.Attribute) and f.attr in ("append", "items", "keys", "values")) \
                or (isinstance(f, ast.Attribute) and isinstance(f.value, ast.Name) and f.value.id == "dict"
                    and f.attr == "fromkeys") \
                or (isinstance(f, ast.Name) and f.id in ("dict", "list", "tuple", "zip", "enumerate"))
            if not ok:
                raise Reject("TimePointDumper.__init__ calls %s" % ast.unparse(f)[:60])
        if isinstance(nd, ast.Name) and nd.id in ("dict", "list", "tuple", "zip", "enumerate", "re", "parser_spec",
                                                   "self", N) and not isinstance(nd.ctx, ast.Load):
            raise Reject("TimePointDumper.__init__ rebinds %s" % nd.id)
        if isinstance(nd, ast.Attribute) and not isinstance(nd.ctx, ast.Load) \
                and not (isinstance(nd.value, ast.Name) and nd.value.id == "self"):
            raise Reject("TimePointDumper.__init__ stores into %s" % ast.unparse(nd)[:60])
        if isinstance(nd, ast.Name) and nd.id == N:
            p = parent[nd]
            stored = isinstance(p, ast.Assign) and p.value is nd and len(p.targets) == 1 \
                and isinstance(p.targets[0], ast.Attribute) and isinstance(p.targets[0].value, ast.Name) \
                and p.targets[0].value.id == "self" and p.targets[0].attr == N
            passed = isinstance(p, ast.Call) and is_ps(p.func, info_fns[:1]) and p.args == [nd] and not p.keywords
            if not (stored or passed):
                raise Reject("TimePointDumper.__init__ looks at num_expanded_year_digits (%s)" % ast.unparse(p)[:60])
    import subprocess
    code = r'''
import sys, re
sys.path.insert(0, %r)
from metomi.isodatetime import parser_spec
from metomi.isodatetime.dumpers import TimePointDumper
def fail(msg):
    print("MISMATCH " + msg); sys.exit(0)
for n in range(10):
    d = TimePointDumper(n)
    try:
        v = vars(d)
    except TypeError:
        fail("no instance dictionary")
    if set(v) != {"_timepoint_parser", "_rec_formats", "_time_designator", "num_expanded_year_digits"}:
        fail("attributes %%s" %% sorted(v))
    if v["_timepoint_parser"] is not None or v["_time_designator"] != parser_spec.TIME_DESIGNATOR \
            or type(v["_time_designator"]) is not str \
            or v["num_expanded_year_digits"] != n or type(v["num_expanded_year_digits"]) is not int:
        fail("scalar attributes at n=%%d" %% n)
    rf = v["_rec_formats"]
    if type(rf) is not dict or set(rf) != {"date", "time", "time_zone"}:
        fail("_rec_formats keys")
    for key, info in (("date", parser_spec.get_date_translate_info(n)), ("time", parser_spec.get_time_translate_info()),
                      ("time_zone", parser_spec.get_time_zone_translate_info())):
        got = rf[key]
        exp = [(rx, fs, pn) for rx, _, fs, pn in info]
        if type(got) is not list or len(got) != len(exp):
            fail("_rec_formats[%%s] length at n=%%d" %% (key, n))
        for g, e in zip(got, exp):
            if type(g) is not tuple or len(g) != 3 or not isinstance(g[0], re.Pattern) or g[0].pattern != e[0] \
                    or g[0].flags != re.compile(e[0]).flags or g[1] != e[1] or g[2] != e[2]:
                fail("_rec_formats[%%s] entry at n=%%d" %% (key, n))
    if len({id(x) for x in rf.values()}) != 3:
        fail("_rec_formats lists are shared")
print("SAME")
''' % translate.REPO
    r = subprocess.run([sys.executable, "-c", code], capture_output=True, text=True, timeout=120,
                       env=dict(os.environ, PYTHONHASHSEED="0"))
    out = r.stdout.strip()
    if r.returncode != 0 or out != "SAME":
        raise Reject("TimePointDumper.__init__ does not build the known object: %s"
                     % (out or r.stderr.strip()[-160:]))


class Unit:
    def __init__(self):
        self.mods = {}
        for m in ("data", "dumpers", "parser_spec", "exceptions"):
            with open(os.path.join(SRC, m + ".py")) as fh:
                self.mods[m] = pyimports.canonicalise(ast.parse(fh.read()))
        self.classes = {}
        self.modfns = {}
        for m in ("data", "dumpers"):
            self.modfns[m] = {}
            for nd in self.mods[m].body:
                if isinstance(nd, ast.ClassDef):
                    self.classes[nd.name] = nd
                elif isinstance(nd, ast.FunctionDef):
                    self.modfns[m][nd.name] = nd
        self.defs = []            # emitted definitions in dependency order: (name, text)
        self.cache = {}           # key -> (name, ret_ty, dyn param indexes)
        self.in_progress = set()
        self.used_names = {}
        self.used_ops = set()
        self.entry_names = {}     # (owner, fname) -> (name, argtypes)
        self.notes = []

    # ------------------------------------------------------------ class facts (checked on every run)
    def check_classes(self):
        tp = self.classes.get("TimePoint")
        dm = self.classes.get("TimePointDumper")
        if tp is None or dm is None:
            raise Reject("class TimePoint / TimePointDumper not found")
        slots = None
        for nd in tp.body:
            if isinstance(nd, ast.Assign) and len(nd.targets) == 1 and isinstance(nd.targets[0], ast.Name) \
                    and nd.targets[0].id == "__slots__":
                slots = [e.value for e in nd.value.elts]
        if slots != [s for s, _ in SLOTS]:
            raise Reject("TimePoint.__slots__ is not the fifteen names of phase 4")
        for cls in (tp, dm):
            for nd in cls.body:
                if isinstance(nd, ast.FunctionDef) and nd.name in ("__getattr__", "__getattribute__", "__setattr__"):
                    raise Reject("class %s defines %s" % (cls.name, nd.name))
        self.methods = {"TimePoint": {}, "Dumper": {}}
        for cls, key in ((tp, "TimePoint"), (dm, "Dumper")):
            for nd in cls.body:
                if isinstance(nd, ast.FunctionDef):
                    if nd.name in self.methods[key]:
                        raise Reject("%s.%s defined twice" % (cls.name, nd.name))
                    self.methods[key][nd.name] = nd
        # TimePointDumper.__init__: what the object keeps
        init = self.methods["Dumper"].get("__init__")
        if init is None:
            raise Reject("TimePointDumper.__init__ not found")
        sha = hashlib.sha256(ast.dump(init).encode()).hexdigest()
        if sha != DUMPER_INIT_SHA:
            check_dumper_init(init)
        # parser_spec constants
        want = {"REC_SPLIT_STRFTIME_DIRECTIVE": r"(%\w)", "REC_STRFTIME_DIRECTIVE_TOKEN": r"^%\w$"}
        got = {}
        for nd in self.mods["parser_spec"].body:
            if isinstance(nd, ast.Assign) and len(nd.targets) == 1 and isinstance(nd.targets[0], ast.Name):
                nm = nd.targets[0].id
                if nm in want:
                    v = nd.value
                    if isinstance(v, ast.Call) and ast.unparse(v.func) == "re.compile" and len(v.args) == 1 \
                            and isinstance(v.args[0], ast.Constant) and not v.keywords:
                        got[nm] = v.args[0].value
                    else:
                        got[nm] = None
                if nm == "TIME_DESIGNATOR":
                    if not (isinstance(nd.value, ast.Constant) and nd.value.value == "T"):
                        self.runtime_fact("parser_spec", "TIME_DESIGNATOR", "TIME_DESIGNATOR_is_T")
        if got != want:
            for nm in want:
                self.runtime_fact("parser_spec", nm, nm + "_ok")
        f = None
        for nd in self.mods["parser_spec"].body:
            if isinstance(nd, ast.FunctionDef) and nd.name == "translate_strftime_token":
                f = nd
        if f is None:
            raise Reject("parser_spec.translate_strftime_token not found")
        # exceptions: which classes derive from ValueError
        self.exn_bases = {}
        for nd in self.mods["exceptions"].body:
            if isinstance(nd, ast.ClassDef):
                self.exn_bases[nd.name] = [ast.unparse(b) for b in nd.bases]
        for e in EXN_LOCAL:
            if e not in self.exn_bases:
                raise Reject("exception class %s not found" % e)
        # TIMEPOINT_DUMPER_MAP = {k: dumpers.TimePointDumper(num_expanded_year_digits=k)}
        ok = False
        for nd in self.mods["data"].body:
            if isinstance(nd, ast.Assign) and len(nd.targets) == 1 and isinstance(nd.targets[0], ast.Name) \
                    and nd.targets[0].id == "TIMEPOINT_DUMPER_MAP":
                ok = isinstance(nd.value, ast.Dict)
                for k, v in (zip(nd.value.keys, nd.value.values) if ok else ()):
                    if not (isinstance(k, ast.Constant) and isinstance(v, ast.Call)
                            and ast.unparse(v.func) == "dumpers.TimePointDumper"
                            and ((len(v.args) == 1 and not v.keywords and ast.dump(v.args[0]) == ast.dump(k))
                                 or (not v.args and len(v.keywords) == 1
                                     and v.keywords[0].arg == "num_expanded_year_digits"
                                     and ast.dump(v.keywords[0].value) == ast.dump(k)))):
                        ok = False
        if not ok:
            self.runtime_fact("data", "TIMEPOINT_DUMPER_MAP", "DUMPER_MAP_ok")

    def runtime_fact(self, mod, name, fact):
        """A module-level constant spelled differently from the pinned tree: accepted when the name is bound exactly
        once in its module (one module-level assignment, no other store anywhere in the module) and the value the
        imported package holds is the expected one."""
        n_top = sum(1 for nd in self.mods[mod].body if isinstance(nd, ast.Assign) and len(nd.targets) == 1
                    and isinstance(nd.targets[0], ast.Name) and nd.targets[0].id == name)
        n_all = sum(1 for nd in ast.walk(self.mods[mod])
                    if (isinstance(nd, ast.Name) and nd.id == name and not isinstance(nd.ctx, ast.Load))
                    or (isinstance(nd, (ast.Global, ast.Nonlocal)) and name in nd.names)
                    or (isinstance(nd, ast.arg) and nd.arg == name))
        if n_top != 1 or n_all != 1:
            raise Reject("%s.%s is not bound exactly once" % (mod, name))
        facts = runtime_facts()
        if facts.get(fact) is not True:
            raise Reject("%s.%s does not have the expected value at run time (%s)" % (mod, name, facts.get(fact)))

    def rebinds_builtin(self, name):
        """is the builtin `name` bound anywhere in data.py / dumpers.py (then its meaning is not the builtin's)"""
        for m in ("data", "dumpers"):
            for nd in ast.walk(self.mods[m]):
                if (isinstance(nd, ast.Name) and nd.id == name and not isinstance(nd.ctx, ast.Load)) \
                        or (isinstance(nd, ast.arg) and nd.arg == name) \
                        or (isinstance(nd, (ast.FunctionDef, ast.ClassDef)) and nd.name == name) \
                        or (isinstance(nd, (ast.Import, ast.ImportFrom))
                            and any((a.asname or a.name).split(".")[0] == name for a in nd.names)):
                    return True
        return False

    def is_value_error(self, cls, seen=()):
        if cls == "ValueError":
            return True
        if cls in seen:
            return False
        return any(self.is_value_error(b, seen + (cls,)) for b in self.exn_bases.get(cls, []))

    # ------------------------------------------------------------ expressions
    def ex(self, e, env, b, cx):
        """translate expression e; impure parts are appended to b (Python evaluation order)"""
        if isinstance(e, ast.Constant):
            return sval(e.value)
        if isinstance(e, ast.Name):
            if e.id in env:
                return env[e.id]
            raise Reject("name %s is not a bound local" % e.id)
        if isinstance(e, ast.Tuple):
            vs = [self.ex(x, env, b, cx) for x in e.elts]
            if any(v.ty == N for v in vs):
                raise Reject("None inside a tuple")
            st = all(v.has_static for v in vs)
            return Val("(" + ", ".join(v.term for v in vs) + ")", TUP(*[v.ty for v in vs]),
                       tuple(v.static for v in vs) if st else None, st)
        if isinstance(e, ast.List):
            if not e.elts:
                return Val("[]", LIST(None))
            vs = [self.ex(x, env, b, cx) for x in e.elts]
            ty = None
            for v in vs:
                ty = join_ty(ty, v.ty)
            return Val("[" + "; ".join(coerce(v, ty).term for v in vs) + "]", LIST(ty))
        if isinstance(e, ast.Dict):
            if e.keys:
                raise Reject("dict literal with keys in expression position")
            return Val("[]", D)
        if isinstance(e, ast.Attribute):
            return self.ex_attr(e, env, b, cx)
        if isinstance(e, ast.Subscript):
            return self.ex_subscript(e, env, b, cx)
        if isinstance(e, ast.UnaryOp):
            if isinstance(e.op, ast.Not):
                v = self.truthy(self.ex(e.operand, env, b, cx))
                if v.has_static:
                    return sval(not v.static)
                return Val("(negb %s)" % v.term, B)
            if isinstance(e.op, ast.USub):
                v = self.ex(e.operand, env, b, cx)
                if v.ty == Z:
                    return Val("(- %s)" % v.term, Z, -v.static if v.has_static else None, v.has_static)
                if v.ty == Q:
                    return Val("(- %s)%%Q" % v.term, Q)
            raise Reject("unary operator")
        if isinstance(e, ast.BinOp):
            return self.ex_binop(e, env, b, cx)
        if isinstance(e, ast.BoolOp):
            n0 = len(b)
            vs = []
            for x in e.values:
                v = self.truthy_or_bool(self.ex(x, env, b, cx))
                if len(b) != n0:
                    raise Impure()
                vs.append(v)
            op = " && " if isinstance(e.op, ast.And) else " || "
            return Val("(" + op.join(v.term for v in vs) + ")", B)
        if isinstance(e, ast.Compare):
            return self.ex_compare(e, env, b, cx)
        if isinstance(e, ast.IfExp):
            c = self.truthy(self.ex(e.test, env, b, cx))
            if c.has_static:
                return self.ex(e.body if c.static else e.orelse, env, b, cx)
            n0 = len(b)
            x = self.ex(e.body, env, b, cx)
            y = self.ex(e.orelse, env, b, cx)
            if len(b) != n0:
                raise Reject("conditional expression with a branch that can raise")
            ty = join_ty(x.ty, y.ty)
            return Val("(if %s then %s else %s)" % (c.term, coerce(x, ty).term, coerce(y, ty).term), ty)
        if isinstance(e, ast.Call):
            return self.ex_call(e, env, b, cx)
        raise Reject("expression %s" % type(e).__name__)

    def bind(self, b, cx, mterm, ty):
        n = cx.fresh()
        b.append((n, mterm))
        return Val(n, ty)

    def needv(self, v, b, cx):
        """a value is required: None raises TypeError"""
        if v.ty == N:
            raise Reject("None used as a value")
        if is_opt(v.ty):
            return self.bind(b, cx, "need %s" % v.term, v.ty[1])
        return v

    def truthy(self, v):
        if v.has_static:
            return sval(bool(v.static))
        t = v.ty
        if t == B:
            return v
        if t == N:
            return sval(False)
        if t == S:
            return Val("(truthy_s %s)" % v.term, B)
        if t == Z:
            return Val("(truthy_Z %s)" % v.term, B)
        if t == OPT(S):
            return Val("(truthy_os %s)" % v.term, B)
        if t == OPT(Z):
            return Val("(truthy_oz %s)" % v.term, B)
        if isinstance(t, tuple) and t[0] == "list":
            return Val("(truthy_list %s)" % v.term, B)
        if is_opt(t) and isinstance(t[1], tuple) and t[1][0] == "tup":
            return Val("(negb (is_none %s))" % v.term, B)
        raise Reject("truth value of a %s" % (t,))

    truthy_or_bool = truthy

    def ex_attr(self, e, env, b, cx):
        # module constants
        src = ast.unparse(e)
        if src == "parser_spec.TIME_DESIGNATOR":
            return Val("TIME_DESIGNATOR", S)
        if src == "CALENDAR.SECONDS_IN_DAY":
            self.used_ops.add("C_SECONDS_IN_DAY")
            return Val("(C_SECONDS_IN_DAY ops)", Z)
        if src == "parser_spec.REC_STRFTIME_DIRECTIVE_TOKEN.search":
            return Val("py_is_directive", None, fn="is_directive")
        o = self.ex(e.value, env, b, cx)
        a = e.attr
        if o.ty == TP:
            if a in SLOT_TY:
                return Val("(s%s %s)" % (a, o.term), SLOT_TY[a])
            m = self.methods["TimePoint"].get(a)
            if m is not None and self.is_property(m):
                nm, rt, _ = self.callee("TimePoint", m, [o], {})
                return self.bind(b, cx, "%s ops %s" % (nm, o.term), rt)
            raise Reject("attribute TimePoint.%s" % a)
        if o.ty == TZ:
            if a in TZ_SLOTS:
                return Val("(%s %s)" % (TZ_SLOTS[a][1], o.term), TZ_SLOTS[a][0])
            raise Reject("attribute TimeZone.%s" % a)
        if o.ty == DMP:
            if a == "num_expanded_year_digits":
                return Val("(d_num_expanded_year_digits %s)" % o.term, Z)
            if a == "_time_designator":
                return Val("TIME_DESIGNATOR", S)
            raise Reject("attribute TimePointDumper.%s" % a)
        raise Reject("attribute .%s of a %s" % (a, o.ty))

    @staticmethod
    def is_property(m):
        return any(isinstance(d, ast.Name) and d.id == "property" for d in m.decorator_list)

    def ex_subscript(self, e, env, b, cx):
        # static dict local
        if isinstance(e.value, ast.Name) and isinstance(e.slice, ast.Constant) and \
                "%s[%s]" % (e.value.id, e.slice.value) in env:
            return env["%s[%s]" % (e.value.id, e.slice.value)]
        if isinstance(e.value, ast.Name) and e.value.id == "TIMEPOINT_DUMPER_MAP" and "TIMEPOINT_DUMPER_MAP" not in env:
            if ast.dump(e.slice) not in cx.guards:
                raise Reject("TIMEPOINT_DUMPER_MAP[k] without the `if k not in TIMEPOINT_DUMPER_MAP` guard")
            k = self.ex(e.slice, env, b, cx)
            if k.ty != Z:
                raise Reject("dumper map key is not an int")
            return Val("(mkDumper %s)" % k.term, DMP)
        if isinstance(e.value, ast.Name) and e.value.id in env and env[e.value.id].ty is None and \
                env[e.value.id].fn == "sdict":
            k = self.ex(e.slice, env, b, cx)
            if k.has_static and "%s[%s]" % (e.value.id, k.static) in env:
                return env["%s[%s]" % (e.value.id, k.static)]
            raise Reject("dict lookup with a non-static key")
        o = self.ex(e.value, env, b, cx)
        if isinstance(e.slice, ast.Slice):
            s = e.slice
            if o.ty == S and s.lower is None and s.step is None and isinstance(s.upper, ast.UnaryOp) and \
                    isinstance(s.upper.op, ast.USub) and isinstance(s.upper.operand, ast.Constant) and \
                    s.upper.operand.value == 1:
                return Val("(py_drop_last %s)" % o.term, S)
            raise Reject("slice")
        i = self.ex(e.slice, env, b, cx)
        o = self.needv(o, b, cx)
        if isinstance(o.ty, tuple) and o.ty[0] == "tup":
            if not (i.has_static and isinstance(i.static, int) and 0 <= i.static < len(o.ty[1])):
                raise Reject("tuple index is not a static in-range int")
            names = ["p%d_" % j for j in range(len(o.ty[1]))]
            return Val("(let '(%s) := %s in %s)" % (", ".join(names), o.term, names[i.static]), o.ty[1][i.static])
        if isinstance(o.ty, tuple) and o.ty[0] == "list":
            if i.ty != Z:
                raise Reject("list index")
            return self.bind(b, cx, "py_nth %s %s" % (o.term, i.term), o.ty[1])
        raise Reject("subscript of a %s" % (o.ty,))

    def ex_binop(self, e, env, b, cx):
        op = e.op
        x = self.ex(e.left, env, b, cx)
        y = self.ex(e.right, env, b, cx)
        if isinstance(op, ast.Mod) and x.ty in (S, T, OPT(S)):
            if x.ty == T and y.ty == D:
                return self.bind(b, cx, "py_render %s %s" % (x.term, y.term), S)
            if x.ty == S and x.has_static and y.ty in (Q, OPT(Q)):
                y = self.needv(y, b, cx)
                self.used_ops.add("F_float_format")
                return self.bind(b, cx, "F_float_format ops %s %s" % (x.term, y.term), S)
            if x.ty == S and y.ty in (Z, OPT(Z)):
                y = self.needv(y, b, cx)
                return self.bind(b, cx, "py_percent_int %s %s" % (x.term, y.term), S)
            raise Reject("%%-formatting of a %s with a %s" % (x.ty, y.ty))
        if isinstance(op, ast.Add):
            if x.ty in (S, T) and y.ty in (S, T):
                if x.ty == S and y.ty == S:
                    st = x.has_static and y.has_static
                    if st:
                        return sval(x.static + y.static)
                    return Val("(%s ++ %s)" % (x.term, y.term), S)
                return Val("(%s ++ %s)%%list" % (coerce(x, T).term, coerce(y, T).term), T)
            if isinstance(x.ty, tuple) and x.ty[0] == "list" and isinstance(y.ty, tuple) and y.ty[0] == "list":
                ty = join_ty(x.ty, y.ty)
                return Val("(%s ++ %s)%%list" % (coerce(x, ty).term, coerce(y, ty).term), ty)
        x = self.needv(x, b, cx)
        y = self.needv(y, b, cx)
        if x.ty not in (Z, Q) or y.ty not in (Z, Q):
            raise Reject("arithmetic on %s and %s" % (x.ty, y.ty))
        if isinstance(op, ast.Pow):
            if x.ty == Z and y.ty == Z:
                return self.bind(b, cx, "py_pow %s %s" % (x.term, y.term), Z)
            raise Reject("** on non-ints")
        if isinstance(op, ast.Div):
            xq, yq = coerce(x, Q), coerce(y, Q)
            if y.has_static and y.static != 0:
                return Val("(%s / %s)%%Q" % (xq.term, yq.term), Q)
            return self.bind(b, cx, "(if Qeq_bool %s 0 then Raise ZeroDivisionError else Ok (%s / %s)%%Q)"
                             % (yq.term, xq.term, yq.term), Q)
        if isinstance(op, (ast.FloorDiv, ast.Mod)):
            if x.ty == Z and y.ty == Z:
                f = "/" if isinstance(op, ast.FloorDiv) else "mod"
                if y.has_static and y.static != 0:
                    return Val("(%s %s %s)" % (x.term, f, y.term), Z)
                return self.bind(b, cx, "(if %s =? 0 then Raise ZeroDivisionError else Ok (%s %s %s))"
                                 % (y.term, x.term, f, y.term), Z)
            raise Reject("// or % on non-ints")
        sym = {ast.Add: "+", ast.Sub: "-", ast.Mult: "*"}.get(type(op))
        if sym is None:
            raise Reject("operator %s" % type(op).__name__)
        if x.ty == Z and y.ty == Z:
            return Val("(%s %s %s)" % (x.term, sym, y.term), Z)
        return Val("(%s %s %s)%%Q" % (coerce(x, Q).term, sym, coerce(y, Q).term), Q)

    def eq_fun(self, ty):
        if ty == Z:
            return "Z.eqb"
        if ty == Q:
            return "Qeq_bool"
        if ty == S:
            return "String.eqb"
        if ty == B:
            return "Bool.eqb"
        if ty == TUP(Z, Z):
            return "zz_eqb"
        if is_opt(ty):
            return "(opt_eqb %s)" % self.eq_fun(ty[1])
        raise Reject("== on %s" % (ty,))

    def ex_compare(self, e, env, b, cx):
        operands = [e.left] + list(e.comparators)
        vals = [self.ex(operands[0], env, b, cx)]
        parts = []
        for op, nxt in zip(e.ops, operands[1:]):
            n0 = len(b)
            y = self.ex(nxt, env, b, cx)
            if parts and len(b) != n0:
                raise Reject("chained comparison whose later operand can raise")
            x = vals[-1]
            vals.append(y)
            parts.append(self.cmp1(op, x, y, b, cx))
        if len(parts) == 1:
            return parts[0]
        return Val("(" + " && ".join(p.term for p in parts) + ")", B)

    def cmp1(self, op, x, y, b, cx):
        if isinstance(op, (ast.Is, ast.IsNot)):
            if y.ty != N:
                raise Reject("`is` with something other than None")
            if x.ty == N:
                r = sval(True)
            elif is_opt(x.ty):
                r = Val("(is_none %s)" % x.term, B)
            else:
                r = sval(False)
            if isinstance(op, ast.IsNot):
                r = sval(not r.static) if r.has_static else Val("(negb %s)" % r.term, B)
            return r
        if isinstance(op, (ast.In, ast.NotIn)):
            if x.ty == S and y.ty == S:
                r = Val("(py_contains %s %s)" % (x.term, y.term), B)
            elif x.ty == S and isinstance(y.ty, tuple) and y.ty[0] == "list":
                r = Val("(mem %s %s)" % (x.term, coerce(y, LIST(S)).term), B)
            elif x.ty == S and isinstance(y.ty, tuple) and y.ty[0] == "tup" and all(t == S for t in y.ty[1]) \
                    and y.has_static:
                r = Val("(mem %s [%s])" % (x.term, "; ".join(coq_str(s) for s in y.static)), B)
            else:
                raise Reject("`in` on %s and %s" % (x.ty, y.ty))
            return Val("(negb %s)" % r.term, B) if isinstance(op, ast.NotIn) else r
        if isinstance(op, (ast.Eq, ast.NotEq)):
            if x.has_static and y.has_static:
                r = sval(x.static == y.static)
            elif x.ty == N or y.ty == N:
                o = y if x.ty == N else x
                r = Val("(is_none %s)" % o.term, B) if is_opt(o.ty) else sval(o.ty == N)
            else:
                ty = join_ty(x.ty, y.ty)
                r = Val("(%s %s %s)" % (self.eq_fun(ty), coerce(x, ty).term, coerce(y, ty).term), B)
            if isinstance(op, ast.NotEq):
                r = sval(not r.static) if r.has_static else Val("(negb %s)" % r.term, B)
            return r
        x = self.needv(x, b, cx)
        y = self.needv(y, b, cx)
        if x.ty not in (Z, Q) or y.ty not in (Z, Q):
            raise Reject("ordering on %s and %s" % (x.ty, y.ty))
        if x.ty == Z and y.ty == Z:
            f = {ast.Lt: "<?", ast.LtE: "<=?", ast.Gt: ">?", ast.GtE: ">=?"}[type(op)]
            return Val("(%s %s %s)" % (x.term, f, y.term), B)
        xq, yq = coerce(x, Q).term, coerce(y, Q).term
        if isinstance(op, ast.LtE):
            return Val("(Qle_bool %s %s)" % (xq, yq), B)
        if isinstance(op, ast.GtE):
            return Val("(Qle_bool %s %s)" % (yq, xq), B)
        if isinstance(op, ast.Lt):
            return Val("(negb (Qle_bool %s %s))" % (yq, xq), B)
        return Val("(negb (Qle_bool %s %s))" % (xq, yq), B)

    # ------------------------------------------------------------ calls
    def op_call(self, b, cx, op, args):
        at, rt = OPS_SIG[op]
        if len(args) != len(at):
            raise Reject("operation %s called with %d arguments" % (op, len(args)))
        self.used_ops.add(op)
        terms = []
        for v, t in zip(args, at):
            if is_opt(v.ty) and not is_opt(t):
                v = self.needv(v, b, cx)
            terms.append(coerce(v, t).term)
        return self.bind(b, cx, " ".join(["%s ops" % op] + terms), rt)

    def ex_call(self, e, env, b, cx):
        f = e.func
        if ast.unparse(e) == "TimePoint(**CALENDAR.UNIX_EPOCH_DATE_TIME_REFERENCE_PROPERTIES)":
            return self.op_call(b, cx, "T_unix_epoch_reference", [])
        if any(k.arg is None for k in e.keywords) or any(isinstance(a, ast.Starred) for a in e.args):
            raise Reject("* / ** arguments")
        src = ast.unparse(f)
        # --- builtins
        if isinstance(f, ast.Name) and f.id not in env:
            nm = f.id
            if nm in ("abs", "float", "int", "str", "floor", "len", "tuple", "list", "bool") and not e.keywords \
                    and len(e.args) == 1:
                v = self.ex(e.args[0], env, b, cx)
                if nm in ("tuple", "list"):
                    if isinstance(v.ty, tuple) and v.ty[0] == "list":
                        return v
                    raise Reject("%s() of a %s" % (nm, v.ty))
                if nm == "len":
                    if isinstance(v.ty, tuple) and v.ty[0] == "list":
                        return Val("(Z.of_nat (List.length %s))" % v.term, Z)
                    raise Reject("len of a %s" % (v.ty,))
                if nm == "bool":
                    return self.truthy(v)
                if nm == "str":
                    if v.ty == Z:
                        return Val("(show_Z %s)" % v.term, S)
                    if v.ty == S:
                        return v
                    raise Reject("str() of a %s" % (v.ty,))
                v = self.needv(v, b, cx)
                if v.ty not in (Z, Q):
                    raise Reject("%s() of a %s" % (nm, v.ty))
                if nm == "abs":
                    return Val("(Z.abs %s)" % v.term, Z) if v.ty == Z else Val("(Qabs %s)" % v.term, Q)
                if nm == "float":
                    return coerce(v, Q)
                if nm == "int":
                    return v if v.ty == Z else Val("(qtrunc %s)" % v.term, Z)
                if nm == "floor":
                    return v if v.ty == Z else Val("(Qfloor %s)" % v.term, Z)
            if nm == "getattr" and len(e.args) == 2 and not e.keywords:
                o = self.ex(e.args[0], env, b, cx)
                a = self.ex(e.args[1], env, b, cx)
                if o.ty != TP:
                    raise Reject("getattr on a %s" % (o.ty,))
                if a.has_static:
                    return self.ex_attr(ast.Attribute(value=e.args[0], attr=a.static, ctx=ast.Load()), env, b, cx)
                if a.ty != S:
                    raise Reject("getattr with a non-string name")
                self.need_getattr = True
                return self.bind(b, cx, "py_TimePoint_getattr ops %s %s" % (o.term, a.term), V)
            if nm == "any" or nm == "all":
                return self.ex_anyall(e, env, b, cx)
            if nm == "TimeZone":
                kw = {k.arg: self.ex(k.value, env, b, cx) for k in e.keywords}
                if e.args or set(kw) != {"hours", "minutes"}:
                    raise Reject("TimeZone(...) other than hours=, minutes=")
                return self.op_call(b, cx, "Z_make", [kw["hours"], kw["minutes"]])
            if nm == "TimePoint" and ast.unparse(e) == \
                    "TimePoint(**CALENDAR.UNIX_EPOCH_DATE_TIME_REFERENCE_PROPERTIES)":
                return self.op_call(b, cx, "T_unix_epoch_reference", [])
            # module-level function of the same module
            mod = "data" if cx.owner in ("TimePoint", "mod:data") else "dumpers"
            if nm in self.modfns[mod]:
                args = [self.ex(a, env, b, cx) for a in e.args]
                kw = {k.arg: self.ex(k.value, env, b, cx) for k in e.keywords}
                return self.call_fn("mod:" + mod, self.modfns[mod][nm], None, args, kw, b, cx)
            raise Reject("call of %s" % nm)
        if isinstance(f, ast.Name) and env[f.id].fn == "is_directive":
            if len(e.args) != 1 or e.keywords:
                raise Reject("search() arguments")
            v = self.ex(e.args[0], env, b, cx)
            return Val("(py_is_directive %s)" % coerce(v, S).term, B)
        if src == "TimePoint" or isinstance(f, ast.Name):
            raise Reject("call of %s" % src)
        if not isinstance(f, ast.Attribute):
            raise Reject("call of an expression")
        # --- parser_spec
        if src == "parser_spec.REC_SPLIT_STRFTIME_DIRECTIVE.split" and len(e.args) == 1 and not e.keywords:
            v = self.ex(e.args[0], env, b, cx)
            return Val("(py_strftime_split %s)" % coerce(v, S).term, LIST(S))
        if src == "parser_spec.REC_STRFTIME_DIRECTIVE_TOKEN.search" and len(e.args) == 1 and not e.keywords:
            v = self.ex(e.args[0], env, b, cx)
            return Val("(py_is_directive %s)" % coerce(v, S).term, B)
        if src == "parser_spec.translate_strftime_token" and len(e.args) == 1 and not e.keywords:
            v = self.ex(e.args[0], env, b, cx)
            return self.op_call(b, cx, "S_translate_token", [v])
        if src.startswith("parser_spec.") or src.startswith("re."):
            raise Reject("call of %s" % src)
        # --- (a - b).m()
        o = self.ex_recv(f.value, env, b, cx)
        args = [self.ex(a, env, b, cx) for a in e.args]
        kw = {k.arg: self.ex(k.value, env, b, cx) for k in e.keywords}
        m = f.attr
        if o.ty == S or o.ty == OPT(S):
            o = self.needv(o, b, cx)
            if kw:
                raise Reject("keyword arguments to str.%s" % m)
            if m == "split" and len(args) == 1 and args[0].ty == S:
                return self.bind(b, cx, "py_split %s %s" % (args[0].term, o.term), LIST(S))
            if m == "split" and len(args) == 2 and args[0].ty == S and args[1].has_static and args[1].static == 1:
                return self.bind(b, cx, "py_split1 %s %s" % (args[0].term, o.term), LIST(S))
            if m == "endswith" and len(args) == 1 and args[0].ty == S:
                return Val("(py_endswith %s %s)" % (args[0].term, o.term), B)
            if m in ("lstrip", "rstrip", "strip") and len(args) == 1 and args[0].ty == S:
                return self.bind(b, cx, "py_%s %s %s" % (m, args[0].term, o.term), S)
            raise Reject("str.%s" % m)
        if o.ty == TP:
            if m in TP_OP_METHODS:
                if kw:
                    raise Reject("keywords to %s" % m)
                return self.op_call(b, cx, TP_OP_METHODS[m], [o] + args)
            md = self.methods["TimePoint"].get(m)
            if md is None:
                raise Reject("TimePoint has no method %s" % m)
            return self.call_fn("TimePoint", md, o, args, kw, b, cx)
        if o.ty == DMP:
            if m == "get_time_zone":
                return self.op_call(b, cx, "D_get_time_zone", [o] + args)
            md = self.methods["Dumper"].get(m)
            if md is None:
                raise Reject("TimePointDumper has no method %s" % m)
            return self.call_fn("Dumper", md, o, args, kw, b, cx)
        if o.ty == DUR and m == "get_days_and_seconds" and not args and not kw:
            return self.op_call(b, cx, "U_get_days_and_seconds", [o])
        raise Reject("method %s of a %s" % (m, o.ty))

    def ex_recv(self, e, env, b, cx):
        if isinstance(e, ast.BinOp) and isinstance(e.op, ast.Sub):
            x = self.ex(e.left, env, b, cx)
            y = self.ex(e.right, env, b, cx)
            if x.ty == TP and y.ty == TP:
                return self.op_call(b, cx, "T_sub_timepoint", [x, y])
            raise Reject("receiver expression")
        return self.ex(e, env, b, cx)

    def ex_anyall(self, e, env, b, cx):
        if len(e.args) != 1 or e.keywords or not isinstance(e.args[0], ast.GeneratorExp):
            raise Reject("any/all of something other than a generator expression")
        g = e.args[0]
        if len(g.generators) != 1 or g.generators[0].ifs or not isinstance(g.generators[0].target, ast.Name) or \
                not isinstance(g.generators[0].iter, (ast.Tuple, ast.List)):
            raise Reject("any/all: generator shape")
        parts = []
        n0 = len(b)
        for el in g.generators[0].iter.elts:
            v = self.ex(el, env, b, cx)
            if not v.has_static:
                raise Reject("any/all over non-constant elements")
            env2 = dict(env)
            env2[g.generators[0].target.id] = v
            parts.append(self.truthy(self.ex(g.elt, env2, b, cx)))
        if len(b) != n0:
            raise Reject("any/all whose element can raise")
        op = " || " if e.func.id == "any" else " && "
        return Val("(" + op.join(p.term for p in parts) + ")", B)

    def call_fn(self, owner, node, recv, args, kw, b, cx):
        """call of a translated function / method"""
        static_m = any(isinstance(d, ast.Name) and d.id == "staticmethod" for d in node.decorator_list)
        params = [a.arg for a in node.args.args]
        if node.args.vararg or node.args.kwarg or node.args.kwonlyargs or node.args.posonlyargs:
            raise Reject("%s: parameter kinds" % node.name)
        defaults = node.args.defaults
        defmap = {}
        for p, d in zip(params[len(params) - len(defaults):], defaults):
            if not isinstance(d, ast.Constant):
                raise Reject("%s: non-constant default" % node.name)
            defmap[p] = sval(d.value)
        vals = {}
        pos = list(params)
        if recv is not None and not static_m:
            vals[pos.pop(0)] = recv
        if len(args) > len(pos):
            raise Reject("%s: too many arguments" % node.name)
        for p, v in zip(pos, args):
            vals[p] = v
        for k, v in kw.items():
            if k not in params or k in vals:
                raise Reject("%s: keyword %s" % (node.name, k))
            vals[k] = v
        for p in params:
            if p not in vals:
                if p not in defmap:
                    raise Reject("%s: missing argument %s" % (node.name, p))
                vals[p] = defmap[p]
        ordered = [vals[p] for p in params]
        ordered = self.to_entry_types(owner, node, ordered, b, cx)
        nm, rt, dyn = self.callee(owner, node, ordered, {})
        terms = [ordered[i].term for i in dyn]
        if rt == "EXN":
            raise Reject("%s only raises" % node.name)
        return self.bind(b, cx, " ".join([nm, "ops"] + terms), rt)

    # ------------------------------------------------------------ functions
    def callee(self, owner, node, ordered, _):
        """translate `node` for arguments `ordered` (Vals); returns (coq name, result type, indexes of dynamic args)"""
        sig = tuple((v.ty, v.static) if v.has_static else (v.ty,) for v in ordered)
        key = (owner, node.name, sig)
        if key not in self.cache:
            if key in self.in_progress:
                raise Reject("recursion through %s" % node.name)
            self.in_progress.add(key)
            try:
                self.cache[key] = self.translate_fn(owner, node, ordered, sig)
            finally:
                self.in_progress.discard(key)
        return self.cache[key]

    def to_entry_types(self, owner, node, ordered, b, cx):
        """when the callee has a declared entry point, pass the arguments at its parameter types"""
        ent = self.entries.get((owner, node.name))
        if ent is None or len(ent) != len(ordered):
            return ordered
        out = []
        nb = []
        try:
            for t, v in zip(ent, ordered):
                if isinstance(t, tuple) and t[0] == "static":
                    if not (v.has_static and v.static == t[1]):
                        return ordered
                    out.append(v)
                else:
                    if is_opt(v.ty) and not is_opt(t):
                        v = self.needv(v, nb, cx)
                    w = coerce(v, t)
                    out.append(Val(w.term, t))
        except Reject:
            return ordered
        b.extend(nb)
        return out

    def fn_name(self, owner, node, sig, entry):
        base = {"TimePoint": "py_TimePoint_", "Dumper": "py_Dumper_", "mod:data": "py_fn_",
                "mod:dumpers": "py_fn_"}[owner] + node.name
        if entry:
            nm = base
        else:
            suf = ""
            if any(len(s) > 1 for s in sig):
                parts = []
                for s in sig:
                    if len(s) > 1:
                        v = s[1]
                        parts.append("T" if v is True else "F" if v is False else "n" if v is None else
                                     "".join(c if c.isalnum() else "_" for c in str(v)))
                    else:
                        parts.append(ty_code(s[0]))
                suf = "__" + "_".join(parts[1:] if owner in ("TimePoint", "Dumper") and parts else parts)
            nm = base + suf
        k = 1
        cand = nm
        while cand in self.used_names:
            k += 1
            cand = "%s__%d" % (nm, k)
        self.used_names[cand] = True
        return cand

    def translate_fn(self, owner, node, ordered, sig):
        for d in node.decorator_list:
            ds = ast.unparse(d)
            if ds not in ("property", "staticmethod", "lru_cache(maxsize=100000)"):
                raise Reject("%s: decorator %s" % (node.name, ds))
        params = [a.arg for a in node.args.args]
        env = {}
        dyn = []
        plist = []
        for i, (p, v) in enumerate(zip(params, ordered)):
            if v.has_static:
                env[p] = v
            else:
                if v.ty is None:
                    raise Reject("%s: a function value as argument" % node.name)
                env[p] = Val("v_" + p, v.ty)
                dyn.append(i)
                plist.append("(v_%s : %s)" % (p, coq_ty(v.ty)))
        entry = (owner, node.name) in self.entries and \
            self.entry_names.get((owner, node.name)) is None and is_entry_sig(self.entries[(owner, node.name)], sig)
        body = [s for s in node.body]
        # pass 1: return types
        cx = Cx(self, owner, node.name)
        self.block(body, env, lambda e: self.fall_off(cx), cx)
        rts = cx.rets
        vals = [t for t in rts if t != "EXN"]
        if not vals:
            rt = UNIT
        else:
            rt = None
            for t in vals:
                rt = join_ty(rt, t)
            if rt == N:
                rt = UNIT
        cx2 = Cx(self, owner, node.name)
        cx2.ret_ty = rt
        code = self.block(body, env, lambda e: self.fall_off(cx2), cx2)
        nm = self.fn_name(owner, node, sig, entry)
        if entry:
            self.entry_names[(owner, node.name)] = nm
        text = "(* %s%s, line %d *)\nDefinition %s (ops : dump_ops) %s : exc %s :=\n%s.\n" % (
            {"TimePoint": "TimePoint.", "Dumper": "TimePointDumper.", "mod:data": "data.",
             "mod:dumpers": "dumpers."}[owner], node.name, node.lineno, nm, " ".join(plist), coq_ty(rt), indent(code))
        self.defs.append((nm, text))
        return nm, rt, dyn

    def fall_off(self, cx):
        if cx.ret_ty is None:
            cx.rets.append(N)
            return "Ok tt"
        return "Ok %s" % coerce(Val("tt", N), cx.ret_ty).term if cx.ret_ty != UNIT else "Ok tt"


def is_entry_sig(ent, sig):
    if len(ent) != len(sig):
        return False
    for t, s in zip(ent, sig):
        if isinstance(t, tuple) and t[0] == "static":
            if len(s) < 2 or s[1] != t[1]:
                return False
        elif len(s) > 1 or s[0] != t:
            return False
    return True


def indent(code, n=2):
    return "\n".join(" " * n + ln for ln in code.split("\n"))


class Unit2(Unit):
    # ------------------------------------------------------------ statements (continuation passing)
    def block(self, stmts, env, k, cx):
        if not stmts:
            return k(env)
        s, rest = stmts[0], stmts[1:]

        def knext(e):
            return self.block(rest, e, k, cx)
        return self.stmt(s, env, knext, cx)

    def assign_name(self, name, v, env, cx):
        """bind local `name` to v; returns (code prefix, env)"""
        env = dict(env)
        if v.has_static or v.fn:
            env[name] = v
            return "", env
        if v.ty == N:
            env[name] = Val("tt", N, None, True)
            return "", env
        cv = "v_" + name.replace("[", "_").replace("]", "")
        env[name] = Val(cv, v.ty)
        if v.term == cv:
            return "", env
        return "let %s := %s in\n" % (cv, v.term), env

    def assign_target(self, t, v, env, b, cx):
        """returns (code prefix, env)"""
        if isinstance(t, ast.Name):
            return self.assign_name(t.id, v, env, cx)
        if isinstance(t, (ast.Tuple, ast.List)):
            n = len(t.elts)
            if not all(isinstance(x, ast.Name) for x in t.elts):
                raise Reject("nested assignment target")
            pre = ""
            if isinstance(v.ty, tuple) and v.ty[0] == "list":
                if n not in (2, 3):
                    raise Reject("unpacking a list into %d names" % n)
                tmp = cx.fresh()
                pre += "%s <- py_unpack%d %s ;;\n" % (tmp, n, v.term)
                v = Val(tmp, TUP(*([v.ty[1]] * n)))
            if is_opt(v.ty):
                tmp = cx.fresh()
                pre += "%s <- need %s ;;\n" % (tmp, v.term)
                v = Val(tmp, v.ty[1])
            if not (isinstance(v.ty, tuple) and v.ty[0] == "tup" and len(v.ty[1]) == n):
                raise Reject("unpacking a %s into %d names" % (v.ty, n))
            env = dict(env)
            if v.has_static:
                for x, sv in zip(t.elts, v.static):
                    env[x.id] = sval(sv)
                return pre, env
            names = ["v_" + x.id for x in t.elts]
            for x, ty in zip(t.elts, v.ty[1]):
                env[x.id] = Val("v_" + x.id, ty)
            return pre + "let '(%s) := %s in\n" % (", ".join(names), v.term), env
        if isinstance(t, ast.Subscript) and isinstance(t.value, ast.Name):
            d = t.value.id
            kb = []
            kv = self.ex(t.slice, env, kb, cx)
            if kb:
                raise Reject("dict key that can raise")
            if d in env and env[d].fn == "sdict":
                if not kv.has_static:
                    raise Reject("store into a static-key dict with a dynamic key")
                return self.assign_name("%s[%s]" % (d, kv.static), v, env, cx)
            if d in env and env[d].ty == D:
                if kv.ty != S:
                    raise Reject("dict key type")
                return self.assign_name(d, Val("(py_dict_set %s %s %s)" % (env[d].term, kv.term, to_pyval(v).term),
                                               D), env, cx)
        raise Reject("assignment target %s" % ast.unparse(t))

    def stmt(self, s, env, k, cx):
        if isinstance(s, ast.Expr):
            if isinstance(s.value, ast.Constant):
                return k(env)
            v = s.value
            if isinstance(v, ast.Call) and isinstance(v.func, ast.Attribute) and isinstance(v.func.value, ast.Name) \
                    and v.func.value.id in env and isinstance(env[v.func.value.id].ty, tuple) \
                    and env[v.func.value.id].ty[0] == "list" and v.func.attr in ("append", "extend") \
                    and len(v.args) == 1 and not v.keywords:
                b = []
                lst = env[v.func.value.id]
                x = self.ex(v.args[0], env, b, cx)
                if v.func.attr == "append":
                    if x.ty == N or is_opt(x.ty):
                        raise Reject("appending a None-able value")
                    x = Val("[%s]" % x.term, LIST(x.ty))
                elif not (isinstance(x.ty, tuple) and x.ty[0] == "list"):
                    raise Reject("extend with a %s" % (x.ty,))
                ty = join_ty(lst.ty, x.ty)
                pre, env2 = self.assign_name(v.func.value.id,
                                             Val("(%s ++ %s)%%list" % (coerce(lst, ty).term, coerce(x, ty).term), ty),
                                             env, cx)
                return wrap(b, pre + k(env2))
            b = []
            self.ex(v, env, b, cx)
            return wrap(b, k(env))
        if isinstance(s, ast.Pass):
            return k(env)
        if isinstance(s, ast.ImportFrom):
            names = sorted(a.name for a in s.names)
            if (s.module, s.level, names) in (("data", 1, ["TimeZone"]), (None, 1, ["parsers"])):
                return k(env)
            raise Reject("import inside a function")
        if isinstance(s, ast.Assign) and isinstance(s.value, ast.Call) and not s.value.keywords \
                and ast.unparse(s.value.func) == "dict.fromkeys" and len(s.value.args) == 2 and "dict" not in env \
                and isinstance(s.value.args[0], (ast.Tuple, ast.List)) and s.value.args[0].elts \
                and all(isinstance(x, ast.Constant) and isinstance(x.value, str) for x in s.value.args[0].elts) \
                and len({x.value for x in s.value.args[0].elts}) == len(s.value.args[0].elts) \
                and isinstance(s.value.args[1], ast.Constant) and not self.rebinds_builtin("dict"):
            # dict.fromkeys((<distinct constant strings>), <immutable literal>) is the dict literal with those keys
            s = ast.copy_location(ast.Assign(targets=s.targets, value=ast.Dict(
                keys=list(s.value.args[0].elts), values=[s.value.args[1]] * len(s.value.args[0].elts))), s)
        if isinstance(s, ast.Assign):
            if isinstance(s.value, ast.Dict) and s.value.keys and len(s.targets) == 1 and \
                    isinstance(s.targets[0], ast.Name):
                # a dict with static keys = a group of locals
                d = s.targets[0].id
                b = []
                env2 = dict(env)
                env2[d] = Val("tt", None, fn="sdict")
                pre = ""
                for kk, vv in zip(s.value.keys, s.value.values):
                    if not (isinstance(kk, ast.Constant) and isinstance(kk.value, str)):
                        raise Reject("dict literal with a non-constant key")
                    p, env2 = self.assign_name("%s[%s]" % (d, kk.value), self.ex(vv, env, b, cx), env2, cx)
                    pre += p
                return wrap(b, pre + k(env2))
            if len(s.targets) == 1 and isinstance(s.targets[0], (ast.Tuple, ast.List)) and \
                    isinstance(s.value, ast.Tuple) and len(s.value.elts) == len(s.targets[0].elts):
                b = []
                vs = [self.ex(x, env, b, cx) for x in s.value.elts]
                pre = ""
                env2 = env
                tmps = []
                for v in vs:          # all right-hand sides are evaluated before any name is bound
                    if v.has_static or v.ty == N or v.fn:
                        tmps.append(v)
                    else:
                        tmp = cx.fresh()
                        pre += "let %s := %s in\n" % (tmp, v.term)
                        tmps.append(Val(tmp, v.ty))
                for t, v in zip(s.targets[0].elts, tmps):
                    p, env2 = self.assign_target(t, v, env2, b, cx)
                    pre += p
                return wrap(b, pre + k(env2))
            b = []
            v = self.ex(s.value, env, b, cx)
            pre = ""
            env2 = env
            if len(s.targets) > 1 and not v.has_static and v.ty != N:
                tmp = cx.fresh()
                pre += "let %s := %s in\n" % (tmp, v.term)
                v = Val(tmp, v.ty)
            for t in s.targets:
                p, env2 = self.assign_target(t, v, env2, b, cx)
                pre += p
            return wrap(b, pre + k(env2))
        if isinstance(s, ast.AugAssign):
            if not isinstance(s.target, ast.Name):
                raise Reject("augmented assignment target")
            return self.stmt(ast.Assign(targets=[s.target], value=ast.BinOp(left=ast.Name(id=s.target.id, ctx=ast.Load()),
                                                                            op=s.op, right=s.value)), env, k, cx)
        if isinstance(s, ast.Return):
            b = []
            if s.value is None:
                v = Val("tt", N, None, True)
            else:
                v = self.ex(s.value, env, b, cx)
            if cx.cont is not None:
                raise Reject("return inside a loop")
            if cx.ret_ty is None:
                cx.rets.append(v.ty)
                return wrap(b, "Ok %s" % v.term)
            if cx.ret_ty == UNIT:
                return wrap(b, "Ok tt")
            return wrap(b, "Ok %s" % coerce(v, cx.ret_ty).term)
        if isinstance(s, ast.Raise):
            cx.rets.append("EXN")
            return "Raise %s" % self.exn_of(s.exc)
        if isinstance(s, ast.Continue):
            if cx.cont is None:
                raise Reject("continue outside a translated loop")
            return cx.cont(env)
        if isinstance(s, ast.If):
            return self.st_if(s, env, k, cx)
        if isinstance(s, ast.For):
            return self.st_for(s, env, k, cx)
        if isinstance(s, ast.Try):
            return self.st_try(s, env, k, cx)
        raise Reject("statement %s" % type(s).__name__)

    def exn_of(self, e):
        if e is None:
            raise Reject("bare raise outside a handler")
        if isinstance(e, ast.Call) and isinstance(e.func, ast.Name):
            nm = e.func.id
            if nm in EXN_BUILTIN or nm in EXN_LOCAL or nm == "NotTranslated":
                return nm
        raise Reject("raise of %s" % ast.unparse(e))

    # ---- if
    def cond(self, test, env, kt, ke, cx):
        """code for `if test: kt else: ke` (kt, ke : env -> code), Python short circuit"""
        if isinstance(test, ast.UnaryOp) and isinstance(test.op, ast.Not):
            return self.cond(test.operand, env, ke, kt, cx)
        if isinstance(test, ast.BoolOp):
            try:
                b = []
                v = self.ex(test, env, b, cx)
                if not b:
                    return "if %s then\n%s\nelse\n%s" % (v.term, indent(kt(env)), indent(ke(env)))
            except Impure:
                pass
            tn, en = cx.fresh("k_then"), cx.fresh("k_else")

            def ct(_e):
                return "%s tt" % tn

            def ce(_e):
                return "%s tt" % en

            def chain(vals):
                if len(vals) == 1:
                    return self.cond(vals[0], env, ct, ce, cx)
                if isinstance(test.op, ast.And):
                    return self.cond(vals[0], env, lambda _e: chain(vals[1:]), ce, cx)
                return self.cond(vals[0], env, ct, lambda _e: chain(vals[1:]), cx)
            return "let %s := fun (_ : unit) =>\n%s in\nlet %s := fun (_ : unit) =>\n%s in\n%s" % (
                tn, indent(kt(env)), en, indent(ke(env)), chain(list(test.values)))
        b = []
        v = self.truthy(self.ex(test, env, b, cx))
        if v.has_static:
            return wrap(b, kt(env) if v.static else ke(env))
        return wrap(b, "if %s then\n%s\nelse\n%s" % (v.term, indent(kt(env)), indent(ke(env))))

    def st_if(self, s, env, k, cx):
        # the dumper-map guard of TimePoint.__str__
        t = s.test
        if isinstance(t, ast.Compare) and len(t.ops) == 1 and isinstance(t.ops[0], ast.NotIn) and \
                ast.unparse(t.comparators[0]) == "TIMEPOINT_DUMPER_MAP" and not s.orelse and len(s.body) == 1:
            a = s.body[0]
            if isinstance(a, ast.Assign) and len(a.targets) == 1 and isinstance(a.targets[0], ast.Subscript) and \
                    ast.unparse(a.targets[0].value) == "TIMEPOINT_DUMPER_MAP" and \
                    ast.dump(a.targets[0].slice) == ast.dump(t.left) and isinstance(a.value, ast.Call) and \
                    ast.unparse(a.value.func) == "dumpers.TimePointDumper" and len(a.value.args) == 1 and \
                    not a.value.keywords and ast.dump(a.value.args[0]) == ast.dump(t.left):
                b = []
                kv = self.ex(t.left, env, b, cx)
                if b or kv.ty != Z:
                    raise Reject("dumper map key")
                cx.guards.add(ast.dump(t.left))
                return k(env)
            raise Reject("TIMEPOINT_DUMPER_MAP used outside the known memo pattern")
        # a branch for truncated points that is outside the subset is cut
        if isinstance(t, ast.Attribute) and t.attr == "_truncated" and not getattr(s, "cut_done", False):
            saved = (cx.n, list(cx.rets), set(cx.guards))
            try:
                self.block(s.body, env, lambda e: "Ok tt", cx)
            except Reject as r:
                msg = "%s.%s line %d: the branch `if %s:` (%s)" % (cx.owner, cx.fname, s.lineno, ast.unparse(t), r)
                if msg not in self.cuts:
                    self.cuts.append(msg)
                s = ast.If(test=s.test, body=[ast.Raise(exc=ast.Call(func=ast.Name(id="NotTranslated", ctx=ast.Load()),
                                                                     args=[], keywords=[]), cause=None)],
                           orelse=s.orelse)
                s.cut_done = True
            cx.n, cx.rets, cx.guards = saved
        # probe: which paths fall through, with which environments
        ends = []

        def probe(e):
            ends.append(e)
            return "Ok tt"
        saved = (cx.n, list(cx.rets), set(cx.guards))
        self.cond(s.test, env, lambda e: self.block(s.body, e, probe, cx),
                  lambda e: self.block(s.orelse, e, probe, cx), cx)
        cx.n, cx.rets, cx.guards = saved[0], saved[1], saved[2]
        if len(ends) <= 1:
            return self.cond(s.test, env, lambda e: self.block(s.body, e, k, cx),
                             lambda e: self.block(s.orelse, e, k, cx), cx)
        assigned = names_assigned([s])
        env_after = dict(env)
        params = []
        for n in assigned:
            if all(n in e for e in ends):
                if all(e[n].fn == "sdict" for e in ends):
                    env_after[n] = ends[0][n]
                    continue
                if any(e[n].fn for e in ends):
                    raise Reject("function value %s across a join" % n)
                if all(e[n].has_static for e in ends) and len({repr(e[n].static) for e in ends}) == 1:
                    env_after[n] = ends[0][n]
                    continue
                ty = None
                for e in ends:
                    ty = join_ty(ty, e[n].ty)
                cn = "v_" + n.replace("[", "_").replace("]", "")
                params.append((n, cn, ty))
                env_after[n] = Val(cn, ty)
            elif n in env_after:
                del env_after[n]
        kn = cx.fresh("k_join")

        def kj(e):
            if not params:
                return "%s tt" % kn
            return "%s %s" % (kn, " ".join(coerce(e[n], ty).term for n, _, ty in params))
        plist = " ".join("(%s : %s)" % (cn, coq_ty(ty)) for _, cn, ty in params) if params else "(_ : unit)"
        rest = k(env_after)
        code = self.cond(s.test, env, lambda e: self.block(s.body, e, kj, cx),
                         lambda e: self.block(s.orelse, e, kj, cx), cx)
        return "let %s := fun %s =>\n%s in\n%s" % (kn, plist, indent(rest), code)

    # ---- try: return E / except A: raise / except B: pass
    def st_try(self, s, env, k, cx):
        if s.orelse or s.finalbody or len(s.body) != 1 or not isinstance(s.body[0], ast.Return) or \
                s.body[0].value is None:
            raise Reject("try: other than `try: return <call>`")
        b = []
        v = self.ex(s.body[0].value, env, b, cx)
        if not b or b[-1][0] != v.term:
            raise Reject("try: the returned expression is not a call")
        last = b.pop()
        if cx.cont is not None:
            raise Reject("return inside a loop")
        if cx.ret_ty is None:
            cx.rets.append(v.ty)
            okv = "Ok %s" % v.term
        else:
            okv = "Ok %s" % coerce(v, cx.ret_ty).term
        hs = []
        for h in s.handlers:
            if h.name is not None or not isinstance(h.type, ast.Name):
                raise Reject("except clause shape")
            cls = h.type.id
            if cls == "ValueError":
                test = "catches_ValueError e_"
            elif cls in EXN_LOCAL:
                test = "match e_ with %s => true | _ => false end" % cls
            else:
                raise Reject("except %s" % cls)
            if len(h.body) == 1 and isinstance(h.body[0], ast.Raise) and h.body[0].exc is None:
                hs.append((test, "Raise e_"))
            elif len(h.body) == 1 and isinstance(h.body[0], ast.Pass):
                hs.append((test, None))
            else:
                raise Reject("handler body other than `raise` / `pass`")
        kn = cx.fresh("k_after")
        out = "Raise e_"
        for test, act in reversed(hs):
            out = "if %s then %s else %s" % (test, act if act is not None else "%s tt" % kn, out)
        return wrap(b, "let %s := fun (_ : unit) =>\n%s in\nmatch %s with\n| Ok %s => %s\n| Raise e_ => %s\nend"
                    % (kn, indent(k(env)), last[1], v.term, okv, out))

    # ---- for
    def st_for(self, s, env, k, cx):
        if s.orelse:
            raise Reject("for/else")
        it = s.iter
        # (a) the substitution loop over self._rec_formats[key]
        if isinstance(it, ast.Subscript) and ast.unparse(it.value) == "self._rec_formats":
            return self.st_rec_formats(s, env, k, cx)
        # (b) a literal list / tuple: unrolled
        if isinstance(it, (ast.List, ast.Tuple)):
            if cx.cont is not None:
                raise Reject("unrolled loop inside a loop")
            for nd in ast.walk(s):
                if isinstance(nd, (ast.Break, ast.Continue)):
                    raise Reject("break/continue in an unrolled loop")
            items = list(it.elts)

            def unroll(i, e):
                if i == len(items):
                    return k(e)
                return self.stmt(ast.Assign(targets=[s.target], value=items[i]), e,
                                 lambda e2: self.block(s.body, e2, lambda e3: unroll(i + 1, e3), cx), cx)
            return unroll(0, env)
        # (c) a run-time list
        b = []
        lv = self.ex(it, env, b, cx)
        if not (isinstance(lv.ty, tuple) and lv.ty[0] == "list" and lv.ty[1] is not None):
            raise Reject("for over a %s" % (lv.ty,))
        if not isinstance(s.target, ast.Name):
            raise Reject("for target")
        if cx.cont is not None:
            raise Reject("nested run-time loops")
        for nd in ast.walk(s):
            if isinstance(nd, (ast.Break, ast.Return)):
                raise Reject("break/return inside a loop")
        x = s.target.id
        state = [n for n in names_assigned(s.body) if n in env and n != x and env[n].fn is None]
        tys = {n: env[n].ty for n in state}
        for _ in range(4):
            ends = []

            def probe(e):
                ends.append(e)
                return "Ok tt"
            envb = dict(env)
            for n in state:
                envb[n] = Val("v_" + n, tys[n])
            envb[x] = Val("v_" + x, lv.ty[1])
            saved = (cx.n, list(cx.rets))
            cx.cont = probe
            try:
                self.block(s.body, envb, probe, cx)
            finally:
                cx.cont = None
            cx.n, cx.rets = saved
            new = dict(tys)
            for e in ends:
                for n in state:
                    if n not in e:
                        raise Reject("loop state %s unbound at the end of the body" % n)
                    new[n] = join_ty(new[n], e[n].ty)
            if new == tys:
                break
            tys = new
        else:
            raise Reject("loop state types do not stabilise")
        if not state:
            raise Reject("loop without state")

        def tup(fn):
            parts = [fn(n) for n in state]
            return parts[0] if len(parts) == 1 else "(" + ", ".join(parts) + ")"
        pat = tup(lambda n: "v_" + n)
        sty = tup(lambda n: coq_ty(tys[n])) if len(state) == 1 else "(" + " * ".join(coq_ty(tys[n]) for n in state) + ")"

        def kend(e):
            return "Ok %s" % tup(lambda n: coerce(e[n], tys[n]).term)
        envb = dict(env)
        for n in state:
            envb[n] = Val("v_" + n, tys[n])
        envb[x] = Val("v_" + x, lv.ty[1])
        cx.cont = kend
        try:
            body = self.block(s.body, envb, kend, cx)
        finally:
            cx.cont = None
        init = tup(lambda n: coerce(env[n], tys[n]).term)
        env_after = dict(env)
        for n in state:
            env_after[n] = Val("v_" + n, tys[n])
        env_after.pop(x, None)
        st = cx.fresh("st")
        binder = "fun (s_ : %s) (v_%s : %s) =>\n%s" % (sty, x, coq_ty(lv.ty[1]),
                                                      indent(("let '%s := s_ in\n" % pat if len(state) > 1
                                                              else "let %s := s_ in\n" % pat) + body))
        after = ("let '%s := %s in\n" % (pat, st) if len(state) > 1 else "let %s := %s in\n" % (pat, st)) + k(env_after)
        return wrap(b, "%s <- py_for %s\n  (%s)\n  %s ;;\n%s" % (st, lv.term, binder, init, after))

    def st_rec_formats(self, s, env, k, cx):
        """for rec, format_sub, prop in self._rec_formats[key]:
               new = rec.sub(format_sub, string); if new != string and prop is not None: L.append(prop); string = new"""
        b = []
        key = self.ex(s.iter.slice, env, b, cx)
        if b or not key.has_static or key.static not in ("date", "time", "time_zone"):
            raise Reject("_rec_formats key is not one of the three static keys")
        t = s.target
        if not (isinstance(t, ast.Tuple) and len(t.elts) == 3 and all(isinstance(x, ast.Name) for x in t.elts)):
            raise Reject("_rec_formats loop target")
        rec, fsub, prop = [x.id for x in t.elts]
        body = s.body
        ok = len(body) == 3
        if ok:
            a0, a1, a2 = body
            ok = isinstance(a0, ast.Assign) and len(a0.targets) == 1 and isinstance(a0.targets[0], ast.Name) and \
                isinstance(a0.value, ast.Call) and ast.unparse(a0.value.func) == rec + ".sub" and \
                len(a0.value.args) == 2 and not a0.value.keywords and ast.unparse(a0.value.args[0]) == fsub and \
                isinstance(a0.value.args[1], ast.Name)
        if ok:
            new, string = a0.targets[0].id, a0.value.args[1].id
            ok = isinstance(a2, ast.Assign) and ast.unparse(a2) == "%s = %s" % (string, new)
        if ok:
            conds = {"%s != %s" % (new, string), "%s is not None" % prop}
            ok = isinstance(a1, ast.If) and not a1.orelse and isinstance(a1.test, ast.BoolOp) and \
                isinstance(a1.test.op, ast.And) and {ast.unparse(v) for v in a1.test.values} == conds and \
                len(a1.test.values) == 2 and len(a1.body) == 1 and isinstance(a1.body[0], ast.Expr) and \
                isinstance(a1.body[0].value, ast.Call) and isinstance(a1.body[0].value.func, ast.Attribute) and \
                a1.body[0].value.func.attr == "append" and isinstance(a1.body[0].value.func.value, ast.Name) and \
                len(a1.body[0].value.args) == 1 and ast.unparse(a1.body[0].value.args[0]) == prop
        if not ok:
            raise Reject("the loop over self._rec_formats[key] is not the known substitution loop")
        lst = a1.body[0].value.func.value.id
        if string not in env or env[string].ty != S or lst not in env or "self" not in env or env["self"].ty != DMP:
            raise Reject("substitution loop: operands")
        lty = join_ty(env[lst].ty, LIST(S))
        r = self.op_call(b, cx, "D_translate", [env["self"], key, env[string]])
        env2 = dict(env)
        env2[string] = Val("v_" + string, T)
        env2[lst] = Val("v_" + lst, lty)
        for n in (rec, fsub, prop, new):
            env2.pop(n, None)
        return wrap(b, "let '(v_%s, added_) := %s in\nlet v_%s := (%s ++ added_)%%list in\n%s"
                    % (string, r.term, lst, coerce(env[lst], lty).term, k(env2)))


def to_pyval(v):
    m = {Z: "VZ", Q: "VQ", S: "VS", B: "VB", OPT(Z): "v_oz", OPT(Q): "v_oq", OPT(S): "v_os"}
    if v.ty == V:
        return v
    if v.ty == N:
        return Val("VNone", V)
    if v.ty in m:
        return Val("(%s %s)" % (m[v.ty], v.term), V)
    raise Reject("a %s as a dynamic value" % (v.ty,))


# ------------------------------------------------------------------ generation
TP_REQUIRED_PROPS = ["year", "month_of_year", "week_of_year", "day_of_year", "day_of_month", "day_of_week",
                     "hour_of_day", "minute_of_hour", "second_of_minute", "truncated",
                     "year_sign", "expanded_year_digits", "century", "year_of_century", "year_of_decade",
                     "hour_of_day_decimal_string", "minute_of_hour_decimal_string", "second_of_minute_decimal_string",
                     "time_zone_minute_abs", "time_zone_hour_abs", "time_zone_sign", "seconds_since_unix_epoch"]
ENTRIES = [
    # owner, method, parameter types (self first), required
    ("TimePoint", "get_is_week_date", [TP], True),
    ("TimePoint", "_get_dump_format", [TP], True),
    ("Dumper", "_dump_expression_with_properties", [DMP, TP, T, LIST(S), OPT(TUP(Z, Z))], True),
    ("Dumper", "_get_expression_and_properties", [DMP, S], True),
    ("Dumper", "strftime", [DMP, TP, S], True),
    ("Dumper", "dump", [DMP, TP, S], True),
    ("TimePoint", "__str__", [TP, ("static", False), ("static", None)], True),
    ("TimePoint", "strftime", [TP, S], True),
]


def gen_code9():
    ok = True
    rejected = []
    u = Unit2()
    u.cuts = []
    u.need_getattr = False
    u.entries = {}
    header_err = None
    try:
        u.check_classes()
    except Reject as r:
        header_err = str(r)
        ok = False
    out = []
    covered = []
    if header_err is None:
        for p in TP_REQUIRED_PROPS:
            u.entries[("TimePoint", p)] = [TP]
        for owner, m, tys, _ in ENTRIES:
            u.entries[(owner, m)] = tys

        def entry(owner, name, tys, required):
            nonlocal ok
            node = u.methods[owner].get(name)
            ndefs = len(u.defs)
            try:
                if node is None:
                    raise Reject("no such method")
                vals = []
                for t, a in zip(tys, [x.arg for x in node.args.args]):
                    if isinstance(t, tuple) and t[0] == "static":
                        vals.append(sval(t[1]))
                    else:
                        vals.append(Val("v_" + a, t))
                if len(tys) != len(node.args.args):
                    raise Reject("parameter list changed")
                nm, rt, _ = u.callee(owner, node, vals, {})
                covered.append(("%s.%s" % (owner, name), nm, rt))
                return nm, rt
            except (Reject, Impure, RecursionError, KeyError, AttributeError, TypeError, IndexError) as r:
                del u.defs[ndefs:]
                for k_ in [k_ for k_, v_ in u.cache.items() if v_[0] not in [d[0] for d in u.defs]]:
                    del u.cache[k_]
                msg = "%s.%s: %s%s" % (owner, name, "" if isinstance(r, Reject) else type(r).__name__ + ": ", r)
                rejected.append(msg)
                if required:
                    ok = False
                    pfx = {"TimePoint": "py_TimePoint_", "Dumper": "py_Dumper_"}[owner]
                    u.defs.append((pfx + name, "(* REJECTED %s *)\nDefinition %s%s : unit := tt.\n"
                                   % (clean9(msg), pfx, name)))
                return None, None
        # phase A: the TimePoint properties
        getters = []
        others = []
        for name, node in u.methods["TimePoint"].items():
            if Unit.is_property(node):
                nm, rt = entry("TimePoint", name, [TP], name in TP_REQUIRED_PROPS)
                if nm is not None:
                    try:
                        getters.append((name, nm, to_pyval(Val("r_", rt)).term))
                    except Reject:
                        others.append(name)
                else:
                    others.append(name)
            else:
                others.append(name)
        others += [s for s, _ in SLOTS] + ["__slots__"]
        g = "(* getattr(timepoint, name) for a run-time name: the properties of the class *)\n"
        g += "Definition py_TimePoint_getattr (ops : dump_ops) (o : pyTimePoint) (name : string) : exc pyval :=\n"
        for name, nm, inj in getters:
            g += "  if String.eqb name %s then (r_ <- %s ops o ;; Ok %s) else\n" % (coq_str(name), nm, inj)
        g += "  if mem name [%s] then Raise NotTranslated else Raise AttributeError.\n" % "; ".join(
            coq_str(n) for n in others)
        u.defs.append(("py_TimePoint_getattr", g))
        for owner, m, tys, req in ENTRIES:
            entry(owner, m, tys, req)
    # ---- the file
    with open(os.path.join(HERE, "code9_prelude.v.txt")) as fh:
        prelude = fh.read()
    prelude = prelude.replace("@EXN_CTORS@", "\n".join("| %s" % e for e in EXN_LOCAL))
    subs = [e for e in EXN_LOCAL if header_err is None and u.is_value_error(e)]
    prelude = prelude.replace("@VE_SUBS@", "".join(" | %s => true" % e for e in subs))
    txt = "(* GENERATED by tools/translate_code9.py from metomi/isodatetime/dumpers.py (class TimePointDumper)\n"
    txt += "   and data.py (the TimePoint properties and methods the dumper reads).  Do not edit.\n"
    txt += "   See notes/GENCODE9_REPORT.md.  Numeric convention: the model's (DESIGN.md section 3). *)\n"
    txt += prelude + "\n"
    txt += "(* ---------- the abstract operations ---------- *)\nRecord dump_ops : Type := mkOps {\n"
    fields = []
    for n, a, r, doc in OPS:
        fields.append("  %s : %s;   (* %s *)" % (n, " -> ".join([coq_ty(t) for t in a] + ["exc " + coq_ty(r)])
                                                 if n != "C_SECONDS_IN_DAY" else "Z", clean9(doc)))
    txt += "\n".join(fields)[::-1].replace(";", "", 1)[::-1] if False else "\n".join(fields)
    # the last field must not end with ';' before the comment: rebuild
    txt = txt.rsplit(";   (*", 1)[0] + "   (*" + txt.rsplit(";   (*", 1)[1]
    txt += " }.\n\n"
    for _, t in u.defs:
        txt += t + "\n"
    txt += "Definition COVERED_code9 : list string := [%s].\n" % "; ".join(coq_str(c[1]) for c in covered)
    txt += "Definition USED_OPS_code9 : list string := [%s].\n" % "; ".join(
        coq_str(n) for n, _, _, _ in OPS if n in u.used_ops)
    txt += "Definition CUTS_code9 : list string := [%s].\n" % "; ".join(coq_str(clean9(c)) for c in u.cuts)
    if header_err:
        rejected.insert(0, "everything: " + header_err)
    txt += "Definition REJECTED_code9 : list string := [%s].\n" % ";\n  ".join(coq_str(clean9(r)) for r in rejected)
    txt += "Definition translator_ok_code9 : bool := %s.\n" % ("true" if ok else "false")
    names = [n for n, t in u.defs if "Definition %s (ops" % n in t]
    txt += "(* callers before callees *)\nLtac code9_unfold := unfold %s in *.\n" % ", ".join(names[::-1]) if names else "Ltac code9_unfold := idtac.\n"
    cov = {c[1] for c in covered}
    helpers = [n for n in names if n not in cov and n != "py_TimePoint_getattr"]
    txt += "(* callees that are not entry points (helpers a refactoring may introduce) *)\n"
    txt += "Ltac code9_helpers := %s.\n" % ("unfold %s in *" % ", ".join(helpers[::-1]) if helpers else "idtac")
    changed = write_if_changed("GenCode9.v", txt)
    return ok, rejected, changed


def clean9(s):
    s = str(s).replace("*)", "* )").replace("(*", "( *").replace('"', "'")
    for w in ("Admitted", "admit", "Axiom", "Parameter", "Conjecture", "Coercion"):
        s = s.replace(w, w[0] + "_" + w[1:])
    return s


if __name__ == "__main__":
    ok, rej, changed = gen_code9()
    print("translator_ok_code9 =", ok, "(changed)" if changed else "(nothing changed)")
    for r in rej:
        print("  rejected:", r)
